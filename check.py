#!/usr/bin/env python3
"""Driver: builds the harnesses from /repo's current tree, runs them, decides, writes evidence.

  python3 check.py C01 --tier quick|thorough
  python3 check.py --setup                 (build pistache objects for all flavours)
  python3 check.py --replay replays/C01/<x>.json
Exit 0: property held on everything explored (KNOWN-FINDING lines for recorded defects).
Exit 1: a line "VIOLATION property=<id> replay=<path>" for every unlisted violation signature.
Exit 2: harness / build problem (never a verdict).
"""
import argparse, glob, hashlib, json, os, re, shutil, subprocess, sys, tempfile, time

HERE = os.path.dirname(os.path.abspath(__file__))
sys.path.insert(0, os.path.join(HERE, "lib"))
import build  # noqa: E402
from props import PROPS  # noqa: E402

EVID = os.environ.get("VERIF_EVIDENCE_DIR", os.path.join(HERE, "evidence"))
REPLAYS = os.environ.get("VERIF_REPLAY_DIR", os.path.join(HERE, "replays"))
KNOWN = os.path.join(HERE, "known_findings.json")


def load_known():
    if not os.path.exists(KNOWN):
        return []
    return json.load(open(KNOWN))["findings"]


def build_part(part):
    hdir = os.path.join(HERE, "harness")
    srcs = [os.path.join(hdir, s) for s in part["sources"]]
    csrcs = [os.path.join(hdir, s) for s in part.get("c_sources", [])]
    return build.build_harness(part["name"], srcs, part.get("flavour", "asan"),
                               extra_flags=part.get("flags", ()), c_sources=csrcs,
                               link_lib=part.get("link_lib", True), defines=part.get("defines", ()))


def san_env(flavour):
    env = dict(os.environ)
    env["ASAN_OPTIONS"] = "halt_on_error=0:detect_leaks=0:abort_on_error=0:allocator_may_return_null=1:" \
                          "detect_container_overflow=1:max_malloc_fill_size=0:print_legend=0:" \
                          "handle_abort=1:detect_stack_use_after_return=0"
    env["UBSAN_OPTIONS"] = "print_stacktrace=1:halt_on_error=0"
    env["TSAN_OPTIONS"] = "halt_on_error=0:report_signal_unsafe=0:second_deadlock_stack=0:history_size=4:" \
                          "atexit_sleep_ms=0:exitcode=0"
    return env


def run_part(pid, part, tier, jobs, workroot):
    exe = build_part(part)
    wd = os.path.join(workroot, part["name"])
    os.makedirs(wd, exist_ok=True)
    out = os.path.join(wd, "summary.json")
    args = list(part["args"][tier])
    cmd = [exe, "--jobs=%d" % part.get("jobs", jobs), "--out=" + out, "--workdir=" + wd] + args
    t = time.time()
    r = subprocess.run(cmd, env=san_env(part.get("flavour", "asan")), stdout=subprocess.PIPE,
                       stderr=subprocess.STDOUT, text=True)
    if r.returncode != 0 or not os.path.exists(out):
        sys.stderr.write("HARNESS-ERROR part=%s rc=%s\n%s\n" % (part["name"], r.returncode, r.stdout[-4000:]))
        raise SystemExit(2)
    summ = json.load(open(out))
    summ["harness_stdout"] = r.stdout[-2000:]
    summ["cmd"] = cmd
    summ["exe"] = exe
    viol, samples, outcomes = [], [], []
    for lf in sorted(glob.glob(os.path.join(wd, "*.log"))):
        for line in open(lf, errors="replace"):
            line = line.strip()
            if not line:
                continue
            try:
                o = json.loads(line)
            except Exception:
                continue
            if o["t"] == "violation":
                o["part"] = part["name"]
                viol.append(o)
            elif o["t"] == "sample":
                samples.append(o["v"])
            elif o["t"] == "outcome":
                outcomes.append(o["s"])
    summ["violations"] = viol
    summ["samples"] = samples
    summ["outcome_texts"] = sorted(set(outcomes))
    summ["part_wall_s"] = time.time() - t
    return summ


def decide(pid, tier, summaries, t0, seed):
    prop = PROPS[pid]
    known = [k for k in load_known() if k["property"] == pid]
    groups = {}
    for s in summaries:
        for v in s["violations"]:
            groups.setdefault((v["part"], v["sig"]), []).append(v)
    lines, rc = [], 0
    known_hit = {}
    nviol = 0
    for (part, sig), vs in sorted(groups.items()):
        k = next((k for k in known if k.get("status") == "known" and re.search(k["match"], sig)), None)
        if k is not None:
            known_hit.setdefault(k["id"], [k, 0])[1] += len(vs)
            continue
        nviol += 1
        vs.sort(key=lambda v: v["idx"])
        v = vs[0]
        s = next(s for s in summaries if s["violations"] and s["violations"][0]["part"] == part or
                 any(x["part"] == part for x in s["violations"]))
        rp = {"property": pid, "tier": tier, "part": part, "signature": sig, "idx": v["idx"],
              "occurrences": len(vs), "detail": v.get("detail"),
              "args": [a for a in s["cmd"][1:] if not a.startswith(("--jobs", "--out", "--workdir"))]}
        os.makedirs(os.path.join(REPLAYS, pid), exist_ok=True)
        name = hashlib.sha256((part + sig).encode()).hexdigest()[:12] + ".json"
        path = os.path.join(REPLAYS, pid, name)
        json.dump(rp, open(path, "w"), indent=1)
        lines.append("VIOLATION property=%s replay=%s  # %s (%d cases, first idx %d)" %
                     (pid, path, sig, len(vs), v["idx"]))
        rc = 1
    for kid, (k, n) in sorted(known_hit.items()):
        lines.append("KNOWN-FINDING: property=%s %s [%s; %d occurrences this run]" % (pid, k["what"], kid, n))

    cov = {"states": 0, "transitions": 0, "traces_validated_against_impl": 0, "evaluations": 0,
           "distinct_nontrivial": 0, "distinct_outcomes": 0, "samples": [], "parts": {}}
    exhaustive = True
    for s in summaries:
        c = s["counters"]
        st = c.get("states", 0) or s["sets"]["states"]
        cov["states"] += st
        cov["transitions"] += c.get("transitions", 0)
        cov["traces_validated_against_impl"] += c.get("executions", s["cases_done"])
        cov["evaluations"] += c.get("evaluations", s["cases_done"])
        cov["distinct_nontrivial"] += s["sets"]["nontrivial"]
        cov["distinct_outcomes"] += s["sets"]["outcomes"]
        cov["samples"] += s["samples"][:3]
        # a saturated counting table only makes the distinct-* figures lower bounds; every case was still run
        capped = c.get("budget_hit", 0) + c.get("incomplete_cases", 0)  # a case that hit its own execution cap
        exhaustive = exhaustive and s["complete"] and not capped
        name = s["cmd"][0].split("/")[-1].rsplit("-", 1)[0]
        cov["parts"][name] = {
            "cases_in_space": s["ncases"], "cases_done": s["cases_done"], "completed_below": s["completed_below"],
            "complete": s["complete"], "deadline_hit": s["deadline_hit"], "counters": c, "sets": s["sets"],
            "distinct_counts_are_lower_bounds": bool(s["set_overflow"]),
            "args": [a for a in s["cmd"][1:] if not a.startswith(("--out", "--workdir"))],
            "wall_s": round(s["part_wall_s"], 2), "outcome_texts": s["outcome_texts"][:40]}
    cov["exhaustive"] = exhaustive
    cov["rule"] = prop["rule"]
    cov["bounds"] = prop.get("bounds", {}).get(tier, "")
    if not cov["samples"]:
        cov["samples"] = ["(no sample recorded)"]
    ev = {"property_id": pid, "tier": tier, "seed": seed, "level": "model_checking", "coverage": cov,
          "assumptions": prop.get("assumptions", []), "wall_s": round(time.time() - t0, 2),
          "violations": nviol, "known_findings_hit": sorted(known_hit), "tree": build.tree_hash()}
    os.makedirs(EVID, exist_ok=True)
    tmp = os.path.join(EVID, pid + ".json.tmp")
    json.dump(ev, open(tmp, "w"), indent=1)
    os.rename(tmp, os.path.join(EVID, pid + ".json"))
    return rc, lines, ev


def main():
    ap = argparse.ArgumentParser()
    ap.add_argument("prop", nargs="?")
    ap.add_argument("--tier", default=os.environ.get("VERIF_TIER", "quick"))
    ap.add_argument("--jobs", type=int, default=int(os.environ.get("VERIF_JOBS", "16")))
    ap.add_argument("--setup", action="store_true")
    ap.add_argument("--replay")
    ap.add_argument("--keep", action="store_true")
    ap.add_argument("--part")
    a = ap.parse_args()
    seed = int(os.environ.get("VERIF_SEED", "0") or 0)
    if a.setup:
        for fl in ("asan", "tsan", "plain"):
            build.build_flavour(fl)
        print("setup ok tree=%s" % build.tree_hash())
        return 0
    if a.replay:
        rp = json.load(open(a.replay))
        part = next(p for p in PROPS[rp["property"]]["parts"] if p["name"] == rp["part"])
        exe = build_part(part)
        cmd = [exe] + rp["args"] + ["--only=%d" % rp["idx"]]
        print("replaying", rp["signature"], "\n ", " ".join(cmd))
        env = san_env(part.get("flavour", "asan"))
        return subprocess.run(cmd, env=env).returncode
    pid = a.prop
    if pid not in PROPS:
        sys.stderr.write("unknown property %s\n" % pid)
        return 2
    t0 = time.time()
    workroot = tempfile.mkdtemp(prefix="vrun-%s-" % pid, dir="/var/tmp")
    try:
        summaries = []
        for part in PROPS[pid]["parts"]:
            if a.part and part["name"] != a.part:
                continue
            if a.tier not in part["args"]:
                continue
            summaries.append(run_part(pid, part, a.tier, a.jobs, workroot))
        rc, lines, ev = decide(pid, a.tier, summaries, t0, seed)
        for l in lines:
            print(l)
        c = ev["coverage"]
        print("%s %s: %s states=%d transitions=%d executions=%d nontrivial=%d outcomes=%d exhaustive=%s wall=%.1fs" % (
            pid, a.tier, "PASS" if rc == 0 else "FAIL", c["states"], c["transitions"],
            c["traces_validated_against_impl"], c["distinct_nontrivial"], c["distinct_outcomes"], c["exhaustive"],
            ev["wall_s"]))
        return rc
    finally:
        if not a.keep:
            shutil.rmtree(workroot, ignore_errors=True)
        else:
            print("workdir kept:", workroot)


if __name__ == "__main__":
    sys.exit(main())
