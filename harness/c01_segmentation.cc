// C01: HTTP message parsing does not depend on how the bytes are segmented.
//
// For every message m (n bytes) of the corpus the harness explores the *segmentation state graph* of the
// real parser: nodes (k, sigma) = k bytes delivered so far, sigma = complete mutable parser state; edges =
// "deliver the next j bytes in one read" for every 1 <= j <= n-k. Two delivery histories that reach the
// same (k, sigma) have identical futures (sigma is all the state there is, the undelivered suffix is the
// same), so the graph covers all 2^(n-1) segmentations. The abstraction is cross-checked against
// brute-force enumeration (all segmentations for n <= bf, all <=2-cut segmentations for a sample).
#include "common/parser_common.h"

#include <deque>
#include <unordered_map>

using namespace pc;

static std::vector<Msg> corpus;
static size_t kMaxSize = 4096;
static int bf_all_max  = 18; // brute force all segmentations up to this length
static int bf2_every   = 8;  // <=2-cut brute force for every k-th message (0 = never)

struct Node
{
    size_t k;
    std::vector<uint16_t> path; // segment end offsets
    std::string sigma;
};

template <typename P>
struct Explorer
{
    const Msg& m;
    vr::Ctx& ctx;
    uint64_t midx;
    Outcome o1;
    std::string m1;
    std::set<std::string> terminals; // "k|outcome|msghash" reachable in the graph
    uint64_t transitions = 0;

    Explorer(const Msg& m_, vr::Ctx& c, uint64_t i)
        : m(m_)
        , ctx(c)
        , midx(i)
    { }

    std::string where(P& p)
    {
        auto* body = static_cast<Http::Private::BodyStep*>(p.allSteps[2].get());
        std::string w = "step" + std::to_string(p.currentStep);
        if (p.currentStep == 2)
            w += body->chunk.size != -1 || m.bytes.find("chunked") != std::string::npos ? ":chunked" : ":length";
        return w;
    }

    std::string detail(const std::vector<uint16_t>& path, size_t next, const std::string& extra)
    {
        std::string cuts = "[";
        for (size_t i = 0; i < path.size(); ++i)
            cuts += (i ? "," : "") + std::to_string(path[i]);
        if (next)
            cuts += (path.empty() ? "" : ",") + std::to_string(next);
        cuts += "]";
        return "{\"message\":" + vr::jstr(vr::show(m.bytes)) + ",\"label\":" + vr::jstr(m.label) + ",\"n\":" + std::to_string(m.bytes.size()) + ",\"reads_end_at\":" + cuts + ",\"one_shot\":" + vr::jstr(o1.str()) + "," + extra + "}";
    }

    void check_terminal(P& p, const Outcome& o, size_t kend, const std::vector<uint16_t>& path, size_t next)
    {
        const size_t n = m.bytes.size();
        std::string w  = where(p);
        if (o.kind == DONE)
        {
            std::string msg = canon_message(p);
            if (m.wellformed && kend < n)
                ctx.violation("c01:complete-before-last-byte:" + w, detail(path, next, "\"done_at\":" + std::to_string(kend)));
            else if (o1.kind != DONE)
                ctx.violation("c01:outcome-differs:oneshot=" + o1.str() + ":segmented=Done:" + w, detail(path, next, "\"done_at\":" + std::to_string(kend)));
            else if (msg != m1)
                ctx.violation("c01:message-differs:" + w, detail(path, next, "\"segmented\":" + vr::jstr(msg) + ",\"oneshot\":" + vr::jstr(m1)));
        }
        else if (o.kind == ERROR)
        {
            if (o != o1)
                ctx.violation("c01:outcome-differs:oneshot=" + o1.str() + ":segmented=" + o.str() + ":" + w, detail(path, next, "\"what\":" + vr::jstr(o.what) + ",\"error_at\":" + std::to_string(kend)));
        }
        else if (kend == n)
        {
            // everything delivered and the parser still wants more
            if (o1.kind != AGAIN)
                ctx.violation("c01:outcome-differs:oneshot=" + o1.str() + ":segmented=Again-at-end:" + w, detail(path, next, "\"k\":" + std::to_string(kend)));
        }
    }

    void run()
    {
        const size_t n = m.bytes.size();
        {
            P p(m.limit ? m.limit : kMaxSize);
            o1 = step(p, m.bytes.data(), n);
            if (o1.kind == DONE)
                m1 = canon_message(p);
            ctx.outcome(std::string(m.response ? "rsp " : "req ") + (m.wellformed ? "wf " : "mut ") + o1.str());
            if (m.wellformed)
            {
                if (o1.kind != DONE)
                    ctx.violation("c01:wellformed-not-accepted:" + o1.str(), detail({}, 0, "\"what\":" + vr::jstr(o1.what)));
                else if (m1 != m.expect)
                    ctx.violation("c01:oneshot-differs-from-intent", detail({}, 0, "\"parsed\":" + vr::jstr(m1) + ",\"intended\":" + vr::jstr(m.expect)));
            }
        }
        std::unordered_map<std::string, int> seen;
        std::deque<Node> frontier;
        {
            P p(m.limit ? m.limit : kMaxSize);
            Node root { 0, {}, canon_state(p) };
            seen.emplace("0|" + root.sigma, 1);
            frontier.push_back(std::move(root));
        }
        char note[256];
        while (!frontier.empty())
        {
            Node nd = std::move(frontier.front());
            frontier.pop_front();
            ctx.state(vr::hash_str(nd.sigma, midx * 1315423911ull + nd.k));
            for (size_t j = 1; nd.k + j <= n; ++j)
            {
                snprintf(note, sizeof note, "msg#%" PRIu64 " (%s) k=%zu j=%zu npath=%zu", midx, m.label.c_str(), nd.k, j, nd.path.size());
                ctx.note(note);
                P p(m.limit ? m.limit : kMaxSize);
                size_t prev = 0;
                bool replay_ok = true;
                for (uint16_t e : nd.path)
                {
                    Outcome r = step(p, m.bytes.data() + prev, e - prev);
                    if (r.kind != AGAIN)
                        replay_ok = false;
                    prev = e;
                }
                if (!replay_ok || canon_state(p) != nd.sigma)
                {
                    // the same reads did not reproduce the same state: uninitialised or hidden state
                    ctx.violation("c01:replay-diverged", detail(nd.path, 0, "\"expected_state\":" + vr::jstr(nd.sigma)));
                    break;
                }
                Outcome o = step(p, m.bytes.data() + nd.k, j);
                ++transitions;
                size_t kend = nd.k + j;
                if (kend < n && m.bytes[kend - 1] != '\n')
                    ctx.nontrivial(vr::hash_bytes(&kend, sizeof kend, midx + 77));
                if (o.kind != AGAIN || kend == n)
                {
                    check_terminal(p, o, kend, nd.path, kend);
                    terminals.insert(std::to_string(kend) + "|" + o.str() + "|" + (o.kind == DONE ? std::to_string(vr::hash_str(canon_message(p))) : ""));
                    if (ctx.case_violations > 6)
                        return; // enough evidence for this message
                    continue;
                }
                std::string sg = canon_state(p);
                auto ins       = seen.emplace(std::to_string(kend) + "|" + sg, 1);
                if (ins.second)
                {
                    Node nn { kend, nd.path, std::move(sg) };
                    nn.path.push_back(uint16_t(kend));
                    frontier.push_back(std::move(nn));
                }
            }
        }
        ctx.count("states", seen.size());
        ctx.count("transitions", transitions);
        ctx.maxc("max_states_per_message", seen.size());
    }

    // run one explicit segmentation; returns the terminal key in the same format as 'terminals'
    std::string run_cuts(const std::vector<size_t>& ends)
    {
        P p(m.limit ? m.limit : kMaxSize);
        size_t prev = 0;
        const size_t n = m.bytes.size();
        for (size_t e : ends)
        {
            Outcome o = step(p, m.bytes.data() + prev, e - prev);
            if (o.kind != AGAIN || e == n)
                return std::to_string(e) + "|" + o.str() + "|" + (o.kind == DONE ? std::to_string(vr::hash_str(canon_message(p))) : "");
            prev = e;
        }
        return "?";
    }

    void brute_force_all()
    {
        const size_t n = m.bytes.size();
        uint64_t count = 0;
        for (uint64_t mask = 0; mask < (1ull << (n - 1)); ++mask)
        {
            std::vector<size_t> ends;
            for (size_t i = 0; i + 1 < n; ++i)
                if (mask >> i & 1)
                    ends.push_back(i + 1);
            ends.push_back(n);
            std::string t = run_cuts(ends);
            ++count;
            if (!terminals.count(t))
            {
                ctx.violation("c01:harness:graph-misses-bruteforce-outcome", detail({}, 0, "\"terminal\":" + vr::jstr(t) + ",\"mask\":" + std::to_string(mask)));
                break;
            }
        }
        ctx.count("bruteforce_segmentations", count);
    }

    void brute_force_2cuts()
    {
        const size_t n = m.bytes.size();
        uint64_t count = 0;
        for (size_t a = 1; a < n; ++a)
            for (size_t b = a + 1; b <= n; ++b)
            {
                std::vector<size_t> ends { a };
                if (b < n)
                    ends.push_back(b);
                ends.push_back(n);
                std::string t = run_cuts(ends);
                ++count;
                if (!terminals.count(t))
                {
                    ctx.violation("c01:harness:graph-misses-bruteforce-outcome", detail({}, 0, "\"terminal\":" + vr::jstr(t) + ",\"cuts\":\"" + std::to_string(a) + "," + std::to_string(b) + "\""));
                    a = n;
                    break;
                }
            }
        ctx.count("bruteforce_segmentations", count);
    }
};

template <typename P>
static void run_msg(const Msg& m, vr::Ctx& ctx, uint64_t idx)
{
    Explorer<P> ex(m, ctx, idx);
    ex.run();
    if (ctx.case_violations == 0)
    {
        if ((int)m.bytes.size() <= bf_all_max)
            ex.brute_force_all();
        else if (bf2_every && idx % bf2_every == 0 && m.bytes.size() <= 160)
            ex.brute_force_2cuts();
    }
    ctx.count("executions", 1);
    if (idx % 97 == 0)
        ctx.sample("{\"message\":" + vr::jstr(vr::show(m.bytes)) + ",\"n\":" + std::to_string(m.bytes.size()) + ",\"one_shot\":" + vr::jstr(ex.o1.str()) + ",\"graph_transitions\":" + std::to_string(ex.transitions) + "}");
}

int main(int argc, char** argv)
{
    vr::Options opt = vr::parse_args(argc, argv);
    int level       = opt.geti("level", 0);
    size_t maxlen   = opt.geti("maxlen", 200);
    bf_all_max      = opt.geti("bf-all", 18);
    bf2_every       = opt.geti("bf2-every", 8);
    bool muts       = opt.geti("mutations", 1);
    // order: the tiny message (all-segmentations brute force), the compact covering corpus, every mutation, and
    // only then the (huge) full product - a deadline then cuts the least informative part
    {
        Msg t;
        t.bytes  = "GET / HTTP/1.1\r\n\r\n";
        t.expect = "REQ GET res=/ q=[] ver=1.1\nB \n";
        t.label  = "tiny";
        corpus.push_back(t);
    }
    {
        auto compact = wellformed_corpus(0, maxlen);
        corpus.insert(corpus.end(), compact.begin(), compact.end());
        // the same messages with the parser's size limit exactly at the message size: a message that fits must be
        // accepted however it is cut (the limit is on bytes received, not on how the buffer happens to grow)
        for (size_t i = 0; i < compact.size(); i += 3)
            if (compact[i].bytes.size() >= 24)
            {
                Msg t   = compact[i];
                t.limit = t.bytes.size();
                t.label += " [size limit = message size]";
                corpus.push_back(t);
            }
    }
    if (muts)
    {
        auto mu       = mutations(base_messages());
        size_t stride = opt.geti("mut-stride", 1);
        for (size_t i = 0; i < mu.size(); i += stride)
            corpus.push_back(mu[i]);
    }
    if (level > 0)
    {
        auto full = wellformed_corpus(level, maxlen);
        // interleave the product so that a cut run still spans methods, header sets and bodies
        size_t strideFull = 97;
        for (size_t off = 0; off < strideFull; ++off)
            for (size_t i = off; i < full.size(); i += strideFull)
                corpus.push_back(full[i]);
    }
    if (opt.kv.count("print"))
    {
        for (size_t i = 0; i < corpus.size(); ++i)
            printf("%zu %s %s\n", i, corpus[i].label.c_str(), vr::show(corpus[i].bytes).c_str());
        return 0;
    }
    return vr::run(opt, corpus.size(), [](uint64_t idx, vr::Ctx& ctx) {
        const Msg& m = corpus[idx];
        if (m.response)
            run_msg<Http::ResponseParser>(m, ctx, idx);
        else
            run_msg<Http::RequestParser>(m, ctx, idx);
    });
}
