// C02: what one side serialises the other side parses back unchanged.
//
// Requests: RequestBuilder product -> real writeRequest -> bytes sent over a socketpair to a real
// Http::Handler behind the real transport loop -> the Request observed in onRequest must equal the spec.
// Responses: ResponseWriter::send / ResponseStream products (same space as C05) -> bytes captured at the
// peer -> real ResponseParser (one-shot and byte by byte) -> the Response must equal the spec.
#include "common/wire_common.h"

static uint64_t nR, nS, nB;

static std::string gSeen;
static int gSeenCount;
class EchoHandler : public Http::Handler
{
public:
    HTTP_PROTOTYPE(EchoHandler)
    void onRequest(const Http::Request& req, Http::ResponseWriter w) override
    {
        gSeen = canon_request(req);
        ++gSeenCount;
        w.send(Http::Code::Ok);
    }
};

static std::string expected_request(const ReqSpec& s)
{
    std::vector<std::string> typed, raw, cookies;
    for (int h : s.headers)
    {
        typed.push_back(std::string(req_headers()[h].name) + "=" + req_headers()[h].text);
        raw.push_back(std::string(req_headers()[h].name) + "=" + req_headers()[h].text);
    }
    // the client appends its own User-Agent and Host after the caller's headers; the first occurrence wins
    bool ownUA = false, ownHost = false;
    for (int h : s.headers)
    {
        ownUA |= !strcmp(req_headers()[h].name, "User-Agent");
        ownHost |= !strcmp(req_headers()[h].name, "Host");
    }
    if (!ownUA)
    {
        typed.push_back("User-Agent=pistache/0.1");
        raw.push_back("User-Agent=pistache/0.1");
    }
    std::string host = resources()[s.resource].host;
    std::string hv   = host + (host.find(':') != std::string::npos ? "" : ":80");
    if (!ownHost)
    {
        typed.push_back("Host=" + hv);
        raw.push_back("Host=" + hv);
    }
    const std::string& body = gBodies[s.body];
    if (!body.empty())
    {
        typed.push_back("Content-Length=" + std::to_string(body.size()));
        raw.push_back("Content-Length=" + std::to_string(body.size()));
    }
    static const char* cn[] = { "sid", "lang", "t" };
    static const char* cv[] = { "abc", "en", "1" };
    std::vector<std::string> pairs;
    for (int i = 0; i < s.ncookies; ++i)
    {
        cookies.push_back(std::string(cn[i]) + "=" + cv[i]);
        pairs.push_back(std::string(cn[i]) + "=" + cv[i]);
    }
    // the Cookie header is always written; order of pairs follows the jar's iteration order
    std::string q = "[";
    {
        std::vector<std::string> ps;
        for (auto& kv : queries()[s.query])
            ps.push_back(kv.first + "=" + kv.second);
        {
            // a query written into the resource string itself arrives as well
            std::string own = resources()[s.resource].ownQuery;
            size_t p        = 0;
            while (p < own.size())
            {
                size_t e = own.find('&', p);
                if (e == std::string::npos)
                    e = own.size();
                ps.push_back(own.substr(p, e - p));
                p = e + 1;
            }
        }
        std::sort(ps.begin(), ps.end());
        for (size_t i = 0; i < ps.size(); ++i)
            q += (i ? "&" : "") + ps[i];
        q += "]";
    }
    std::string head = std::string("REQ ") + Http::methodString(methods()[s.method]) + " res=" + expected_target(s) + " q=" + q + " ver=1.1\n";
    return head + "#RAWCOOKIE#" + expect_tail(typed, raw, cookies, body);
}

// the raw Cookie header line's pair order is unspecified (hash order): compare it as a set and drop it
static std::string strip_raw_cookie(const std::string& canon, std::vector<std::string>* pairs)
{
    std::string out;
    size_t pos = 0;
    while (pos < canon.size())
    {
        size_t e = canon.find('\n', pos);
        std::string line = canon.substr(pos, e - pos);
        pos = e + 1;
        if (line.compare(0, 9, "R Cookie=") == 0)
        {
            std::string v = line.substr(9);
            size_t p = 0;
            while (p < v.size())
            {
                size_t q = v.find("; ", p);
                if (q == std::string::npos)
                    q = v.size();
                pairs->push_back(v.substr(p, q - p));
                p = q + 2;
            }
            std::sort(pairs->begin(), pairs->end());
            continue;
        }
        out += line + "\n";
    }
    return out;
}

static void caseR(uint64_t i, vr::Ctx& ctx)
{
    const ReqSpec& s = gReqs[i];
    ctx.note("request #" + std::to_string(i));
    BuiltRequest b = build_request(s, gBodies);
    auto handler   = std::make_shared<EchoHandler>();
    handler->setMaxRequestSize(16 * 1024);
    gSeen.clear();
    gSeenCount = 0;
    uint64_t steps = 0;
    std::string response;
    {
        lp::Loop loop(handler);
        int cfd = loop.connect_peer();
        loop.settle();
        lp::client_send(cfd, b.wire);
        for (int r = 0; r < 50; ++r)
        {
            int n = loop.settle(8);
            steps += n;
            std::string got = lp::client_recv_all(cfd);
            response += got;
            if (!n && got.empty())
                break;
        }
    }
    ctx.count("transitions", steps);
    ctx.count("evaluations", 1);
    std::string wire = vr::show(b.wire.size() > 400 ? b.wire.substr(0, 400) + "..." : b.wire);
    if (gSeenCount != 1)
    {
        ctx.violation("c02:request:handler-ran-" + std::to_string(gSeenCount) + "-times", "{\"wire\":" + vr::jstr(wire) + ",\"response\":" + vr::jstr(vr::show(response.substr(0, 200))) + "}");
        return;
    }
    std::vector<std::string> gotPairs, expPairs;
    std::string got = strip_raw_cookie(gSeen, &gotPairs);
    std::string exp = expected_request(s);
    exp.erase(exp.find("#RAWCOOKIE#"), 11);
    static const char* cn[] = { "sid", "lang", "t" };
    static const char* cv[] = { "abc", "en", "1" };
    for (int k = 0; k < s.ncookies; ++k)
        expPairs.push_back(std::string(cn[k]) + "=" + cv[k]);
    std::sort(expPairs.begin(), expPairs.end());
    if (s.ncookies == 0)
        gotPairs.erase(std::remove(gotPairs.begin(), gotPairs.end(), std::string()), gotPairs.end());
    if (got != exp || gotPairs != expPairs)
    {
        // name the first differing line for the signature
        std::string what = "cookies";
        size_t p = 0, q = 0;
        while (p < got.size() && q < exp.size())
        {
            size_t e1 = got.find('\n', p), e2 = exp.find('\n', q);
            std::string l1 = got.substr(p, e1 - p), l2 = exp.substr(q, e2 - q);
            if (l1 != l2)
            {
                std::string l = l2.size() ? l2 : l1;
                what = l.substr(0, l.find('=') == std::string::npos ? 5 : l.find('='));
                break;
            }
            p = e1 + 1;
            q = e2 + 1;
        }
        ctx.violation("c02:request:differs:" + what, "{\"wire\":" + vr::jstr(wire) + ",\"seen_by_handler\":" + vr::jstr(gSeen) + ",\"built\":" + vr::jstr(exp) + "}");
    }
    ctx.state(vr::hash_str(gSeen));
    ctx.nontrivial(vr::hash_str(b.wire));
    ctx.outcome("request delivered");
}

static std::string expected_response(const RspSpec& s, const RspResult& r)
{
    std::vector<std::string> typed, raw, cookies;
    bool ct = false;
    for (int h : s.headers)
    {
        std::string n = rsp_headers()[h].name, t = rsp_headers()[h].text;
        if (n == "Content-Type")
        {
            ct = true;
            if (s.useMimeArg && !s.stream)
                t = "text/plain";
        }
        if (n == "X-Trace-Id")
            ; // a handler-defined header the reading side does not know: it arrives as a raw header only
        else if (n != "Allow") // Allow has no functional reader: only the raw header survives
            typed.push_back(n + "=" + t);
        else
            typed.push_back(n + "=");
        raw.push_back(n + "=" + t);
    }
    if (s.useMimeArg && !s.stream && !ct)
    {
        typed.push_back("Content-Type=text/plain");
        raw.push_back("Content-Type=text/plain");
    }
    if (s.fileSize >= 0 && *file_exts()[s.fileExt].mime)
    {
        // serveFile derives the Content-Type from the file name (replacing one the handler chose)
        std::string v = std::string("Content-Type=") + file_exts()[s.fileExt].mime;
        bool had      = false;
        for (auto* vec : { &typed, &raw })
            for (auto& x : *vec)
                if (x.compare(0, 13, "Content-Type=") == 0)
                {
                    x   = v;
                    had = true;
                }
        if (!had)
        {
            typed.insert(typed.begin(), v);
            raw.insert(raw.begin(), v);
        }
    }
    typed.push_back("Connection=Keep-Alive");
    raw.push_back("Connection=Keep-Alive");
    if (s.stream)
    {
        typed.push_back("Transfer-Encoding=chunked");
        raw.push_back("Transfer-Encoding=chunked");
    }
    else
    {
        typed.push_back("Content-Length=" + std::to_string(s.fileSize >= 0 ? (size_t)s.fileSize : s.bodyLen));
        raw.push_back("Content-Length=" + std::to_string(s.fileSize >= 0 ? (size_t)s.fileSize : s.bodyLen));
    }
    for (size_t k = 0; k < s.cookies.size(); ++k)
    {
        cookies.push_back(rsp_cookies()[s.cookies[k]].text);
    }
    // raw Set-Cookie: one entry survives (the first on the wire; jar iteration order decides which) - dropped below
    return "RSP " + std::to_string(s.code) + "\n" + expect_tail(typed, raw, cookies, r.written);
}

static std::string drop_raw_setcookie(const std::string& canon)
{
    std::string out;
    size_t pos = 0;
    while (pos < canon.size())
    {
        size_t e         = canon.find('\n', pos);
        std::string line = canon.substr(pos, e - pos);
        pos              = e + 1;
        if (line.compare(0, 13, "R Set-Cookie=") == 0)
            continue;
        out += line + "\n";
    }
    return out;
}

static void check_parsed(const RspSpec& s, const RspResult& r, vr::Ctx& ctx)
{
    if (!r.handlerRan || !r.threw.empty() || r.wire.empty())
    {
        ctx.violation("c02:response:not-produced", "{\"spec\":" + vr::jstr("code=" + std::to_string(s.code)) + ",\"threw\":" + vr::jstr(r.threw) + "}");
        return;
    }
    std::string exp = expected_response(s, r);
    for (int mode = 0; mode < 2; ++mode)
    {
        Http::ResponseParser p(1 << 20);
        Outcome o;
        size_t doneAt = 0;
        if (mode == 0)
        {
            o      = step(p, r.wire.data(), r.wire.size());
            doneAt = r.wire.size();
        }
        else
        {
            if (r.wire.size() > 6000)
                continue; // byte-by-byte of large bodies is quadratic in the parser's header re-scan
            for (size_t k = 0; k < r.wire.size(); ++k)
            {
                o = step(p, r.wire.data() + k, 1);
                if (o.kind != AGAIN)
                {
                    doneAt = k + 1;
                    break;
                }
            }
        }
        ctx.count("transitions", mode == 0 ? 1 : r.wire.size());
        std::string w = vr::show(r.wire.size() > 400 ? r.wire.substr(0, 400) + "..." : r.wire);
        if (o.kind != DONE)
        {
            ctx.violation(std::string("c02:response:not-parsed:") + o.str(), "{\"wire\":" + vr::jstr(w) + ",\"what\":" + vr::jstr(o.what) + ",\"mode\":" + std::to_string(mode) + "}");
            return;
        }
        if (doneAt != r.wire.size())
            ctx.violation("c02:response:complete-before-last-byte", "{\"wire\":" + vr::jstr(w) + ",\"done_at\":" + std::to_string(doneAt) + "}");
        std::string got = drop_raw_setcookie(canon_response(p.response));
        if (got != exp)
        {
            std::string what = "?";
            size_t a = 0, b = 0;
            while (a < got.size() && b < exp.size())
            {
                size_t e1 = got.find('\n', a), e2 = exp.find('\n', b);
                std::string l1 = got.substr(a, e1 - a), l2 = exp.substr(b, e2 - b);
                if (l1 != l2)
                {
                    std::string l = l2.size() ? l2 : l1;
                    what = l.substr(0, l.find('=') == std::string::npos ? 5 : l.find('='));
                    break;
                }
                a = e1 + 1;
                b = e2 + 1;
            }
            ctx.violation("c02:response:differs:" + what, "{\"wire\":" + vr::jstr(w) + ",\"parsed\":" + vr::jstr(got.size() > 900 ? got.substr(0, 900) : got) + ",\"built\":" + vr::jstr(exp.size() > 900 ? exp.substr(0, 900) : exp) + "}");
            return;
        }
    }
}

static void caseS(uint64_t i, vr::Ctx& ctx)
{
    uint64_t nH = gHdrSets.size(), nC2 = gCookieSets.size();
    RspSpec s;
    s.code       = gCodes[i / (nH * nC2)];
    s.headers    = gHdrSets[(i / nC2) % nH];
    s.cookies    = gCookieSets[i % nC2];
    s.useMimeArg = (i % 3) == 1;
    uint64_t steps = 0;
    for (size_t len : gLens)
    {
        if (len > 40 && len % 7 != 0 && !(len >= 505 && len <= 520))
            continue;
        s.bodyLen = len;
        s.salt    = int(len % 7);
        ctx.note("send code=" + std::to_string(s.code) + " len=" + std::to_string(len));
        RspResult r = run_response(s, &steps);
        check_parsed(s, r, ctx);
        ctx.count("evaluations", 1);
        ctx.nontrivial(vr::hash_str(r.wire));
        ctx.state(vr::hash_str(r.wire, 5));
        if (len % 8 == 0 || (len >= 400 && len <= 530))
        {
            // the same length with a binary body (0xFF / 0x00 / 0x80 at every offset)
            s.salt = 100 + int(len / 8) % 3;
            ctx.note("send code=" + std::to_string(s.code) + " len=" + std::to_string(len) + " binary body");
            RspResult rb = run_response(s, &steps);
            check_parsed(s, rb, ctx);
            ctx.count("evaluations", 1);
        }
        if (ctx.case_violations > 5)
            break;
    }
    ctx.count("transitions", steps);
    ctx.outcome("send round trip");
}

static void caseB(uint64_t i, vr::Ctx& ctx)
{
    static const size_t streamSizes[] = { 1, 64, 512 };
    RspSpec s;
    s.stream     = true;
    s.ops        = gPrograms[i / 9];
    s.moveStream = int((i / 3) % 3);
    s.streamSize = streamSizes[i % 3];
    s.code       = gCodes[i % gCodes.size()];
    s.headers    = gHdrSets[i % gHdrSets.size()];
    s.cookies    = gCookieSets[i % gCookieSets.size()];
    s.salt       = (i % 11 == 10) ? 100 + int(i / 11) % 3 : int(i % 5); // every 11th: binary payloads
    uint64_t steps = 0;
    ctx.note("stream program #" + std::to_string(i / 3) + " streamSize=" + std::to_string(s.streamSize));
    RspResult r = run_response(s, &steps);
    check_parsed(s, r, ctx);
    ctx.count("evaluations", 1);
    ctx.count("transitions", steps);
    ctx.nontrivial(vr::hash_str(r.wire));
    ctx.state(vr::hash_str(r.wire, 5));
    ctx.outcome("stream round trip");
    if (i % 499 == 0)
        ctx.sample("{\"stream_ops\":" + std::to_string(s.ops.size()) + ",\"wire_bytes\":" + std::to_string(r.wire.size()) + ",\"wire_head\":" + vr::jstr(vr::show(r.wire.substr(0, 120))) + "}");
}

// file responses (Http::serveFile): sizes x name extensions x handler header / cookie sets, all writes accepted or the
// head / the file body cut by one short or would-block write
static const long kFileSizes[] = { 0, 1, 5, 4096, 70000 };
static uint64_t nF;
static void caseF(uint64_t i, vr::Ctx& ctx)
{
    static const lp::Answer alts[] = { { lp::FULL, 0 }, { lp::ACCEPT, 1 }, { lp::ACCEPT, lp::kHalf }, { lp::BLOCK, 0 } };
    const uint64_t nE = file_exts().size(), nS = sizeof kFileSizes / sizeof kFileSizes[0];
    RspSpec s;
    int planPos = int(i % 3), planAlt = int((i / 3) % 4); // which of the first three write calls deviates, and how
    if (planAlt)
    {
        s.plan.assign(planPos, lp::Answer { lp::FULL, 0 });
        s.plan.push_back(alts[planAlt]);
    }
    uint64_t k = i / 12;
    s.fileExt  = int(k % nE);
    s.fileSize = kFileSizes[(k / nE) % nS];
    k          = k / nE / nS;
    s.headers  = gHdrSets[k % gHdrSets.size()];
    s.cookies  = gCookieSets[(k / gHdrSets.size()) % gCookieSets.size()];
    s.salt     = int(i % 5);
    s.code     = 200;
    uint64_t steps = 0;
    ctx.note("file size=" + std::to_string(s.fileSize) + " ext=" + file_exts()[s.fileExt].ext + " plan-deviation=" + std::to_string(planAlt) + "@" + std::to_string(planPos));
    RspResult r = run_response(s, &steps);
    check_parsed(s, r, ctx);
    ctx.count("evaluations", 1);
    ctx.count("transitions", steps);
    ctx.nontrivial(vr::hash_str(r.wire));
    ctx.state(vr::hash_str(r.wire, 5));
    ctx.outcome("file round trip");
}

int main(int argc, char** argv)
{
    vr::Options opt = vr::parse_args(argc, argv);
    bool thorough   = opt.geti("thorough", 0);
    int Kops        = opt.geti("Kops", 2);
    build_space(thorough, Kops);
    // Accept has an empty writer (nothing to read back): not part of the round-trip alphabet
    {
        std::vector<ReqSpec> keep;
        for (auto& r : gReqs)
            if (std::find(r.headers.begin(), r.headers.end(), 0) == r.headers.end())
                keep.push_back(r);
        gReqs = keep;
    }
    nR = gReqs.size();
    nS = (uint64_t)gCodes.size() * gHdrSets.size() * gCookieSets.size();
    nB = (uint64_t)gPrograms.size() * 9;
    nF = 12ull * file_exts().size() * (sizeof kFileSizes / sizeof kFileSizes[0]) * gHdrSets.size() * gCookieSets.size();
    return vr::run(opt, nR + nS + nB + nF, [](uint64_t idx, vr::Ctx& ctx) {
        ctx.count("executions", 1);
        if (idx < nR)
            caseR(idx, ctx);
        else if (idx < nR + nS)
            caseS(idx - nR, ctx);
        else if (idx < nR + nS + nB)
            caseB(idx - nR - nS, ctx);
        else
            caseF(idx - nR - nS - nB, ctx);
    });
}
