// C03: no network input can corrupt memory, hang the parser or make it reserve unbounded memory.
//
// Bounded-exhaustive enumeration of inputs against the real request/response parsers (ASan + UBSan with
// container annotations, allocation hooks, per-case watchdog in the runner):
//   A  parser modes x every string over a 12-symbol alphabet up to length L (x with/without completing tail)
//   B  two-point mutations of the base messages
//   C  numeric fields (Content-Length, chunk size, status code, Max-Age, q, delta-seconds) over boundary values
//   D  every registered header (+ Cookie / Set-Cookie) with every value over a character alphabet up to
//      length Lv and over per-header token alphabets up to depth Dt, embedded in a real message so that the
//      value parser sees exactly the bytes the HTTP parser hands to it
// each input delivered one-shot, split at the seam(s), and byte by byte.
#include "common/garbage.h"
#include "common/memwatch.h"
#include "common/parser_common.h"

using namespace pc;

static size_t kMaxSize       = 4096;
static size_t kAllocBound    = 4 * 4096 + 64 * 1024;
static int L = 3, Lv = 3, Dt = 3;

struct Section
{
    uint64_t first, count;
};
static Section secA, secB, secC, secD, secE;
static std::vector<gb::Mode> gModes;
static std::vector<Msg> gBases;
struct ALayout
{
    uint64_t first, suffixes, blocks;
};
static std::vector<ALayout> gAL;
static const uint64_t kBlock = 512;

struct Tally
{
    uint64_t runs = 0;
};

template <typename P>
static Outcome deliver(const std::string& bytes, const std::vector<size_t>& ends, vr::Ctx& ctx, const char* what, std::string* msgOut = nullptr)
{
    Outcome o;
    mw::Window win(kAllocBound);
    {
        P p(kMaxSize);
        size_t prev = 0;
        for (size_t e : ends)
        {
            o = step(p, bytes.data() + prev, e - prev);
            prev = e;
            if (o.kind != AGAIN)
                break;
        }
        if (msgOut && o.kind == DONE)
            *msgOut = canon_message(p);
        ctx.state(vr::hash_str(canon_state(p, false), o.kind * 1000 + o.status));
    }
    if (win.largest() > kAllocBound || win.peak() > (int64_t)kAllocBound)
    {
        std::string site = win.site();
        ctx.violation("c03:memory:" + std::string(win.largest() > kAllocBound ? "single-allocation" : "live-growth") + ":" + (site.empty() ? "?" : vr::strip_args(site)),
                      "{\"input\":" + vr::jstr(vr::show(bytes)) + ",\"largest_allocation\":" + std::to_string(win.largest()) + ",\"peak_live_growth\":" + std::to_string(win.peak()) + ",\"bound\":" + std::to_string(kAllocBound) + ",\"delivery\":" + vr::jstr(what) + "}");
    }
    return o;
}

static void note_input(vr::Ctx& ctx, const char* sec, const std::string& bytes)
{
    std::string s = std::string(sec) + " input=" + vr::show(bytes);
    ctx.note(s);
}

// all deliveries of one input; seam = offsets where a split is interesting
template <typename P>
static void run_input(const std::string& bytes, const std::vector<size_t>& seams, vr::Ctx& ctx, const char* sec)
{
    note_input(ctx, sec, bytes);
    const size_t n = bytes.size();
    if (n == 0)
        return;
    Outcome o1 = deliver<P>(bytes, { n }, ctx, "one-shot");
    ctx.outcome(std::string(sec) + " " + o1.str());
    for (size_t s : seams)
        if (s > 0 && s < n)
            deliver<P>(bytes, { s, n }, ctx, "split");
    std::vector<size_t> all;
    for (size_t i = 1; i <= n; ++i)
        all.push_back(i);
    deliver<P>(bytes, all, ctx, "byte-by-byte");
    ctx.count("transitions", 2 + n + 2 * seams.size());
    ctx.count("inputs", 1);
    ctx.poll_reports();
}

static void run_any(bool response, const std::string& bytes, const std::vector<size_t>& seams, vr::Ctx& ctx, const char* sec)
{
    if (response)
        run_input<Http::ResponseParser>(bytes, seams, ctx, sec);
    else
        run_input<Http::RequestParser>(bytes, seams, ctx, sec);
}

// ---- section A ------------------------------------------------------------------------------------
static void caseA(uint64_t i, vr::Ctx& ctx)
{
    size_t mi = 0;
    while (mi + 1 < gAL.size() && gAL[mi + 1].first <= i)
        ++mi;
    const gb::Mode& m = gModes[mi];
    uint64_t blk      = i - gAL[mi].first;
    for (uint64_t s = blk * kBlock; s < (blk + 1) * kBlock && s < gAL[mi].suffixes; ++s)
    {
        auto v = gb::nth<char>(s, m.alpha.data(), m.alpha.size(), L);
        std::string suf(v.begin(), v.end());
        std::string in = m.prefix + suf;
        run_any(m.response, in, { m.prefix.size() }, ctx, m.name);
        run_any(m.response, in + m.tail, { m.prefix.size(), in.size() }, ctx, m.name);
        if (!suf.empty())
            ctx.nontrivial(vr::hash_str(in, 11));
    }
}

// ---- section B ------------------------------------------------------------------------------------
static void caseB(uint64_t i, vr::Ctx& ctx)
{
    static const char subs2[] = { '\r', '\n', '\0' };
    static const char subs1[] = { ' ', '\r', '\n', ':', '\0', '\xff', ';' };
    // case = (base, position i); first edit: deletion or substitution at i; second edit: substitution within 8 bytes
    uint64_t acc = 0;
    for (size_t b = 0; b < gBases.size(); ++b)
    {
        size_t n = gBases[b].bytes.size();
        if (i < acc + n)
        {
            size_t pos = i - acc;
            const Msg& base = gBases[b];
            std::vector<std::string> firsts;
            {
                std::string s = base.bytes;
                s.erase(pos, 1);
                firsts.push_back(s);
            }
            for (char c : subs1)
            {
                std::string s = base.bytes;
                if (s[pos] != c)
                {
                    s[pos] = c;
                    firsts.push_back(s);
                }
            }
            for (auto& f : firsts)
                for (size_t j = pos + 1; j < pos + 9 && j < f.size(); ++j)
                    for (char c : subs2)
                    {
                        if (f[j] == c)
                            continue;
                        std::string s = f;
                        s[j]          = c;
                        run_any(base.response, s, { pos, j }, ctx, "mut2");
                        ctx.nontrivial(vr::hash_str(s, 13));
                    }
            return;
        }
        acc += n;
    }
}

// ---- section C ------------------------------------------------------------------------------------
static const char* kNums[] = { "0", "1", "5", "2147483647", "2147483648", "4294967295", "4294967296", "9223372036854775807",
                               "9223372036854775808", "18446744073709551615", "18446744073709551616", "99999999999999999999",
                               "-1", "+1", "0x10", "1e9", "", " 5", "5 ", "7fffffffffffffff", "ffffffffffffffff", "fffffffffffffffff",
                               "-7fffffffffffffff", "1000000000", "3b9aca00", "-2", "-3", "-5", "-12c", "fffffffffffffffe", "fffffffffffffffd", "fffffffffffffffb", "fffffffffffffed4", "8000000000000000", "8000000000000005" };
static const int kNNums     = sizeof kNums / sizeof kNums[0];
static void caseC(uint64_t i, vr::Ctx& ctx)
{
    int field       = int(i / kNNums);
    std::string v   = kNums[i % kNNums];
    std::string in;
    bool rsp = false;
    size_t seam = 0;
    switch (field)
    {
    case 0:
        in   = "POST / HTTP/1.1\r\nContent-Length: " + v + "\r\n\r\n";
        seam = in.size();
        in += "hello";
        break;
    case 1:
        in   = "POST / HTTP/1.1\r\nTransfer-Encoding: chunked\r\n\r\n" + v + "\r\n";
        seam = in.size();
        in += "hello\r\n0\r\n\r\n";
        break;
    case 2:
        rsp  = true;
        in   = "HTTP/1.1 " + v + " OK\r\n";
        seam = in.size();
        in += "\r\n";
        break;
    case 3:
        rsp  = true;
        in   = "HTTP/1.1 200 OK\r\nSet-Cookie: a=b; Max-Age=" + v;
        seam = in.size();
        in += "\r\n\r\n";
        break;
    case 4:
        in   = "GET / HTTP/1.1\r\nAccept: text/html;q=" + v;
        seam = in.size();
        in += "\r\n\r\n";
        break;
    case 5:
        in   = "GET / HTTP/1.1\r\nCache-Control: max-age=" + v;
        seam = in.size();
        in += "\r\n\r\n";
        break;
    case 6:
        in   = "GET / HTTP/1.1\r\nHost: a:" + v;
        seam = in.size();
        in += "\r\n\r\n";
        break;
    case 7:
        rsp  = true;
        in   = "HTTP/1.1 200 OK\r\nContent-Length: " + v + "\r\n\r\n";
        seam = in.size();
        in += "hello";
        break;
    case 8:
        in   = "GET / HTTP/1.1\r\nContent-Type: text/html; q=" + v;
        seam = in.size();
        in += "\r\n\r\n";
        break;
    // (round 6) the size line of a LATER chunk: body bytes are already there when the value is read (5 / 300 of them)
    case 9:
    case 10:
    case 11:
    case 12:
        rsp  = field >= 11;
        in   = std::string(rsp ? "HTTP/1.1 200 OK\r\n" : "POST / HTTP/1.1\r\n") + "Transfer-Encoding: chunked\r\n\r\n" + (field % 2 ? "5\r\nhello\r\n" : "12c\r\n" + std::string(300, 'x') + "\r\n") + v + "\r\n";
        seam = in.size();
        in += "hello\r\n0\r\n\r\n";
        break;
    }
    run_any(rsp, in, { seam }, ctx, "numeric");
    ctx.nontrivial(vr::hash_str(in, 17));
}
static const int kNFields = 13;

// ---- section D ------------------------------------------------------------------------------------
struct HeaderSpec
{
    const char* name;
    bool response;
    std::vector<std::string> tokens;
};
static std::vector<HeaderSpec> gHeaders;
static const char kVSigma[] = { 'a', '0', '9', ',', ';', '=', ' ', '/', '.', '-', ':', '"', '\xff' };
static const int kNV        = sizeof kVSigma;
static uint64_t gCharVals, gCharBlocks;
struct DLayout
{
    uint64_t first; // within section D
    uint64_t charBlocks, tokVals, tokBlocks;
};
static std::vector<DLayout> gDL;

static void init_headers()
{
    // (the composite token brings the quality value within reach of short sequences; nan / inf / e / x / - are what a
    // general number reader such as strtod accepts beyond decimal digits)
    std::vector<std::string> media = { "text", "/", "*", "html", "json", "+", "xml", ";", "q", "=", "0", ".", "5", "1", " ", ",", "vnd.", "a", "charset",
                                       "text/html;q=", "nan", "inf", "e", "x", "-", "9" };
    std::vector<std::string> cache = { "max-age", "min-fresh", "s-maxage", "no-cache", "public", "=", ",", " ", "0", "9", "99999999999999999999", "-", "x" };
    std::vector<std::string> cookie = { "a", "=", "1", ";", " ", "Path", "Max-Age", "Expires", "Secure", "HttpOnly", "Domain", "x", "2147483648", "Sun, 06 Nov 1994 08:49:37 GMT" };
    std::vector<std::string> date = { "Sun", ",", " ", "06", "Nov", "1994", "08:49:37", "GMT", "-", "Sunday", "94", "99", "x", ":" };
    std::vector<std::string> host = { "a", ".", "1", "127.0.0.1", "[", "]", ":", "::1", "80", "65536", "-1", "*" };
    std::vector<std::string> auth = { "Basic", " ", "QQ==", "Bearer", "x", "=", "!", "QUJD", "Q" };
    std::vector<std::string> simple = { "close", "keep-alive", "gzip", "chunked", "deflate", "identity", "100-continue", "x", ",", " ", "GET", "POST" };
    std::vector<std::string> num = { "0", "1", "9", "-", "+", " ", "x", "18446744073709551615", "18446744073709551616" };
    gHeaders = {
        { "Accept", false, media }, { "Content-Type", false, media }, { "Cache-Control", false, cache },
        { "Cookie", false, cookie }, { "Set-Cookie", true, cookie }, { "Date", true, date }, { "Host", false, host },
        { "Authorization", false, auth }, { "Connection", false, simple }, { "Content-Encoding", true, simple },
        { "Transfer-Encoding", false, simple }, { "Expect", false, simple }, { "Allow", true, simple },
        { "Content-Length", false, num }, { "Location", true, simple }, { "Server", true, simple }, { "User-Agent", false, simple },
        { "Access-Control-Allow-Origin", true, simple }, { "Access-Control-Allow-Headers", true, simple },
        { "Access-Control-Expose-Headers", true, simple }, { "Access-Control-Allow-Methods", true, simple },
        { "X-Unknown", false, simple },
    };
    gCharVals   = gb::count_upto(kNV, Lv);
    gCharBlocks = (gCharVals + kBlock - 1) / kBlock;
    uint64_t at = 0;
    for (auto& h : gHeaders)
    {
        DLayout d;
        d.first      = at;
        d.charBlocks = gCharBlocks;
        d.tokVals    = gb::count_upto(h.tokens.size(), Dt);
        d.tokBlocks  = (d.tokVals + kBlock - 1) / kBlock;
        at += d.charBlocks + d.tokBlocks;
        gDL.push_back(d);
    }
    secD.count = at;
}

static void header_value(const HeaderSpec& h, const std::string& v, vr::Ctx& ctx)
{
    std::string head = h.response ? "HTTP/1.1 200 OK\r\n" : "GET / HTTP/1.1\r\n";
    std::string in   = head + h.name + ": " + v;
    size_t s1        = in.size();
    in += "\r\n\r\n";
    run_any(h.response, in, { s1, s1 + 1 }, ctx, h.name);
    ctx.nontrivial(vr::hash_str(in, 19));
    // the accessor that decodes credentials is part of what a handler reaches from a parsed request
    if (!strcmp(h.name, "Authorization"))
    {
        Http::RequestParser p(kMaxSize);
        if (step(p, in.data(), in.size()).kind == DONE)
        {
            auto a = p.request.headers().tryGet<Http::Header::Authorization>();
            if (a)
            {
                try
                {
                    (void)a->getBasicUser();
                    (void)a->getBasicPassword();
                }
                catch (const std::exception&)
                { }
            }
        }
    }
}

static void caseD(uint64_t i, vr::Ctx& ctx)
{
    size_t hi = 0;
    while (hi + 1 < gDL.size() && gDL[hi + 1].first <= i)
        ++hi;
    const HeaderSpec& h = gHeaders[hi];
    const DLayout& d    = gDL[hi];
    uint64_t r          = i - d.first;
    if (r < d.charBlocks)
    {
        for (uint64_t s = r * kBlock; s < (r + 1) * kBlock && s < gCharVals; ++s)
        {
            auto v = gb::nth<char>(s, kVSigma, kNV, Lv);
            header_value(h, std::string(v.begin(), v.end()), ctx);
        }
    }
    else
    {
        r -= d.charBlocks;
        std::vector<int> ids(h.tokens.size());
        for (size_t k = 0; k < ids.size(); ++k)
            ids[k] = (int)k;
        for (uint64_t s = r * kBlock; s < (r + 1) * kBlock && s < d.tokVals; ++s)
        {
            auto v = gb::nth<int>(s, ids.data(), ids.size(), Dt);
            std::string val;
            for (int t : v)
                val += h.tokens[t];
            header_value(h, val, ctx);
        }
    }
}

// ---- section E ------------------------------------------------------------------------------------
// a body that keeps arriving in pieces: head + pieces until 3 x the size limit has been delivered. The parser must refuse
// the message by the time more than the limit has been delivered, and what it holds (receive buffer + body copied so
// far) must stay within 2 x limit.
static const size_t kPieces[] = { 1, 7, 64, 512, 1000, 4000 };
static const int kNPieces    = sizeof kPieces / sizeof kPieces[0];
static const int kNFramings  = 4; // Content-Length (request), chunked (request), Content-Length (response), chunked (response)
template <typename P>
static void stream_case(int framing, size_t piece, size_t headPad, vr::Ctx& ctx)
{
    bool chunked = framing & 1;
    std::string head = std::is_same<P, Http::ResponseParser>::value ? "HTTP/1.1 200 OK\r\n" : "POST /s HTTP/1.1\r\n";
    if (headPad)
        head += "X-Pad: " + std::string(headPad, 'p') + "\r\n";
    head += chunked ? "Transfer-Encoding: chunked\r\n\r\n" : "Content-Length: 1000000\r\n\r\n";
    std::string what = std::string("stream ") + (std::is_same<P, Http::ResponseParser>::value ? "response " : "request ") + (chunked ? "chunked" : "content-length") + " piece=" + std::to_string(piece) + " head=" + std::to_string(head.size());
    ctx.note(what);
    mw::Window win(kAllocBound);
    P p(kMaxSize);
    size_t delivered = 0, retainedMax = 0, steps = 0;
    Outcome o = step(p, head.data(), head.size());
    delivered += head.size();
    bool refused = o.kind == ERROR;
    size_t deliveredAtRefusal = refused ? delivered : 0;
    while (!refused && delivered < 3 * kMaxSize)
    {
        std::string data(piece, 'd');
        std::string wire = chunked ? ([&] { char b[32]; snprintf(b, sizeof b, "%zx\r\n", piece); return std::string(b) + data + "\r\n"; })() : data;
        o = step(p, wire.data(), wire.size());
        ++steps;
        delivered += wire.size();
        size_t body = 0;
        if constexpr (std::is_same<P, Http::ResponseParser>::value)
            body = p.response.body().size();
        else
            body = p.request.body().size();
        retainedMax = std::max(retainedMax, p.buffer.bytes.size() + body);
        if (o.kind != AGAIN)
        {
            refused            = o.kind == ERROR;
            deliveredAtRefusal = delivered;
            break;
        }
    }
    ctx.count("transitions", steps + 1);
    ctx.count("inputs", 1);
    ctx.state(vr::hash_str(canon_state(p, false), refused));
    std::string d = "{\"input\":" + vr::jstr(what) + ",\"limit\":" + std::to_string(kMaxSize) + ",\"delivered\":" + std::to_string(delivered) + ",\"refused_after\":" + std::to_string(deliveredAtRefusal) + ",\"retained_max\":" + std::to_string(retainedMax) + ",\"last\":" + vr::jstr(o.str()) + "}";
    if (!refused)
        ctx.violation("c03:stream:never-refused-beyond-the-size-limit:" + std::string(chunked ? "chunked" : "content-length"), d);
    else if (deliveredAtRefusal > kMaxSize + (chunked ? piece + 16 : piece) + 1)
        ctx.violation("c03:stream:accepted-beyond-the-size-limit:" + std::string(chunked ? "chunked" : "content-length"), d);
    if (retainedMax > 2 * kMaxSize + 64)
        ctx.violation("c03:stream:retains-more-than-the-size-limit:" + std::string(chunked ? "chunked" : "content-length"), d);
    if (win.largest() > kAllocBound || win.peak() > (int64_t)kAllocBound)
        ctx.violation("c03:memory:stream:" + vr::strip_args(win.site()), d);
    ctx.outcome(std::string("stream ") + (refused ? "refused " + o.str() : "not refused"));
    ctx.nontrivial(vr::hash_str(what, 29));
    ctx.poll_reports();
}
static const size_t kHeadPads[] = { 0, 100, 2000, 3900 };
static void caseE(uint64_t i, vr::Ctx& ctx)
{
    int framing   = int(i % kNFramings);
    size_t piece  = kPieces[(i / kNFramings) % kNPieces];
    size_t pad    = kHeadPads[i / kNFramings / kNPieces];
    if (framing < 2)
        stream_case<Http::RequestParser>(framing, piece, pad, ctx);
    else
        stream_case<Http::ResponseParser>(framing, piece, pad, ctx);
}

int main(int argc, char** argv)
{
    vr::Options opt = vr::parse_args(argc, argv);
    L               = opt.geti("L", 3);
    Lv              = opt.geti("Lv", 3);
    Dt              = opt.geti("Dt", 3);
    gModes          = gb::modes();
    gBases          = base_messages();
    uint64_t atA    = 0;
    for (auto& m : gModes)
    {
        ALayout a;
        a.first    = atA;
        a.suffixes = gb::count_upto(m.alpha.size(), L);
        a.blocks   = (a.suffixes + kBlock - 1) / kBlock;
        atA += a.blocks;
        gAL.push_back(a);
    }
    secA            = { 0, atA };
    uint64_t nb     = 0;
    for (auto& b : gBases)
        nb += b.bytes.size();
    if (!opt.geti("mut2", 1))
        nb = 0;
    secB = { secA.first + secA.count, nb };
    secC = { secB.first + secB.count, (uint64_t)kNFields * kNNums };
    init_headers();
    secD.first     = secC.first + secC.count;
    secE           = { secD.first + secD.count, (uint64_t)kNFramings * kNPieces * (sizeof kHeadPads / sizeof kHeadPads[0]) };
    uint64_t total = secE.first + secE.count;
    return vr::run(opt, total, [](uint64_t idx, vr::Ctx& ctx) {
        ctx.count("executions", 1);
        if (idx < secB.first)
            caseA(idx - secA.first, ctx);
        else if (idx < secC.first)
            caseB(idx - secB.first, ctx);
        else if (idx < secD.first)
            caseC(idx - secC.first, ctx);
        else if (idx < secE.first)
            caseD(idx - secD.first, ctx);
        else
            caseE(idx - secE.first, ctx);
        if (idx % 211 == 0)
            ctx.sample("{\"case\":" + std::to_string(idx) + ",\"last_input\":" + vr::jstr(ctx.shm->slots[ctx.worker].note) + "}");
    });
}
