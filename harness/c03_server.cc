// C03, server-level part: "the offending connection receives a 4xx/5xx response or is left waiting for data, and
// the server keeps answering other connections".
//
// A real Http::Handler behind a real Tcp::Transport (single-threaded stepping of the shipped event loop over
// socketpairs, loop.h). Two connections of one worker: B, a well-behaved bystander whose request is delivered
// in two halves, the first before and the second after the offender's bytes (so that B's parser is in
// mid-request while the garbage is handled), and A, the offender, which receives one input of the enumerated
// space (parser modes x every string over the 12-symbol alphabet up to length L, numeric boundary values,
// header values over per-header token alphabets up to depth Dt) in one of three deliveries (one read, split at
// the seam, byte by byte). Oracle per input:
//   * no exception leaves the event loop (in a server that terminates the worker thread);
//   * every byte the offender gets back is a sequence of well-formed responses, each 4xx/5xx, or 200 for each time
//     the handler ran for that connection; with no response and no handler run the connection is still open;
//   * the bystander's request is answered 200 with exactly its own target, once, and nothing else reaches it;
//   * after the offender hangs up its peer and write queue are gone; nothing is reported by ASan/UBSan; the
//     allocation watcher stays within 4*maxRequestSize + 64 KiB while the garbage is handled.
#include "common/garbage.h"
#include "common/loop.h"
#include "common/memwatch.h"
#include "common/parser_common.h"
#include "common/rfc7230.h"

using namespace pc;

static size_t kMaxSize    = 1024;
static size_t kAllocBound = 4 * 1024 + 64 * 1024;
static int L = 2, Lb = 1, Dt = 2;
static const uint64_t kBlock = 128;

struct Seen
{
    int fd;
    std::string resource;
};
static std::vector<Seen>* gSeen = nullptr;

class RecHandler : public Http::Handler
{
public:
    HTTP_PROTOTYPE(RecHandler)
    void onRequest(const Http::Request& req, Http::ResponseWriter w) override
    {
        if (gSeen)
            gSeen->push_back({ w.peer()->fd(), req.resource() });
        w.send(Http::Code::Ok, "ok");
    }
};

struct Server
{
    std::shared_ptr<RecHandler> handler;
    std::unique_ptr<lp::Loop> loop;
    std::shared_ptr<Tcp::Peer> peerB;
    int bfd;
    std::vector<Seen> seen;
    uint64_t probes = 0;
    Server()
    {
        handler = std::make_shared<RecHandler>();
        handler->setMaxRequestSize(kMaxSize);
        loop.reset(new lp::Loop(handler));
        bfd   = loop->connect_peer(&peerB);
        gSeen = &seen;
        loop->settle();
    }
    ~Server() { gSeen = nullptr; }
};

// splits what a connection received into responses; false if the bytes are not a sequence of well-formed responses
static bool read_responses(const std::string& in, std::vector<rfc::Message>& out, std::string& why)
{
    size_t pos = 0;
    while (pos < in.size())
    {
        rfc::Message m = rfc::parse(in.substr(pos), true);
        if (!m.ok)
        {
            why = m.error;
            return false;
        }
        pos += m.consumed;
        out.push_back(std::move(m));
    }
    return true;
}

static const char* kDeliv[] = { "one-read", "split-at-seams", "byte-by-byte" };

// one offender input in one delivery; false = the server is unusable (the block stops)
static bool play(Server& s, const std::string& bytes, const std::vector<size_t>& seams, int delivery, vr::Ctx& ctx, const char* sec)
{
    const std::string label = std::string(sec) + " " + kDeliv[delivery] + " input=" + vr::show(bytes);
    ctx.note("server " + label);
    auto viol = [&](const std::string& sig, const std::string& extra) {
        ctx.violation("c03:server:" + sig, "{\"section\":" + vr::jstr(sec) + ",\"delivery\":" + vr::jstr(kDeliv[delivery]) + ",\"input\":" + vr::jstr(vr::show(bytes)) + extra + "}");
    };
    uint64_t transitions = 0;
    const std::string target = "/b" + std::to_string(s.probes++);
    const std::string probe  = "GET " + target + " HTTP/1.1\r\nHost: b\r\n\r\n";
    const size_t half        = 9;
    s.seen.clear();
    std::shared_ptr<Tcp::Peer> peerA;
    std::string gotA, gotB;
    int afd = -1;
    bool escaped = false;
    std::string escapedWhat;
    size_t largest = 0;
    int64_t peak   = 0;
    std::string site;
    try
    {
        lp::client_send(s.bfd, probe.substr(0, half));
        transitions += s.loop->settle();
        {
            mw::Window win(kAllocBound);
            afd = s.loop->connect_peer(&peerA);
            std::vector<size_t> ends;
            if (delivery == 0)
                ends = { bytes.size() };
            else if (delivery == 1)
            {
                for (size_t x : seams)
                    if (x > 0 && x < bytes.size() && (ends.empty() || x > ends.back()))
                        ends.push_back(x);
                ends.push_back(bytes.size());
            }
            else
                for (size_t i = 1; i <= bytes.size(); ++i)
                    ends.push_back(i);
            size_t prev = 0;
            for (size_t e : ends)
            {
                lp::client_send(afd, bytes.substr(prev, e - prev));
                prev = e;
                transitions += s.loop->settle();
                gotA += lp::client_recv_all(afd);
            }
            largest = win.largest();
            peak    = win.peak();
            site    = win.site();
        }
        lp::client_send(s.bfd, probe.substr(half));
        transitions += s.loop->settle();
        gotA += lp::client_recv_all(afd);
        gotB += lp::client_recv_all(s.bfd);
    }
    catch (const std::exception& ex)
    {
        escaped     = true;
        escapedWhat = ex.what();
    }
    catch (...)
    {
        escaped     = true;
        escapedWhat = "(not a std::exception)";
    }
    ctx.count("transitions", transitions);
    ctx.count("inputs", 1);
    if (escaped)
    {
        viol("exception-escapes-the-event-loop:" + std::string(sec), ",\"what\":" + vr::jstr(escapedWhat));
        return false;
    }
    if (largest > kAllocBound || peak > (int64_t)kAllocBound)
        viol("memory:" + std::string(largest > kAllocBound ? "single-allocation" : "live-growth") + ":" + (site.empty() ? "?" : vr::strip_args(site)),
             ",\"largest_allocation\":" + std::to_string(largest) + ",\"peak_live_growth\":" + std::to_string(peak) + ",\"bound\":" + std::to_string(kAllocBound));
    // the offender
    const int sfdA = peerA->fd();
    size_t ranA = 0, ranB = 0;
    bool bTarget = false, foreign = false;
    for (auto& x : s.seen)
    {
        if (x.fd == sfdA)
            ++ranA;
        else if (x.fd == s.peerB->fd())
        {
            ++ranB;
            bTarget = x.resource == target;
        }
        else
            foreign = true;
    }
    std::vector<rfc::Message> ra, rb;
    std::string why;
    std::string verdictA;
    if (!read_responses(gotA, ra, why))
        viol("offender-gets-malformed-bytes:" + std::string(sec), ",\"received\":" + vr::jstr(vr::show(gotA.substr(0, 200))) + ",\"why\":" + vr::jstr(why));
    else
    {
        size_t n200 = 0;
        bool bad    = false;
        for (auto& m : ra)
        {
            if (m.status == 200)
                ++n200;
            else if (m.status < 400 || m.status > 599)
                bad = true;
            verdictA += (verdictA.empty() ? "" : ",") + std::to_string(m.status);
        }
        if (bad || n200 != ranA)
            viol("offender-answer-is-neither-an-error-nor-its-handlers-answer:" + std::string(sec), ",\"statuses\":" + vr::jstr(verdictA) + ",\"handler_runs\":" + std::to_string(ranA));
        if (ra.empty() && ranA == 0 && !s.loop->transport->peers.count(sfdA))
            viol("offender-dropped-without-an-answer:" + std::string(sec), "");
        if (ra.empty())
            verdictA = "waiting";
    }
    ctx.outcome(std::string("server ") + sec + " -> " + verdictA);
    // the bystander
    if (foreign)
        viol("handler-ran-for-an-unknown-connection", "");
    why.clear();
    if (!read_responses(gotB, rb, why) || rb.size() != 1 || rb[0].status != 200 || rb[0].body != "ok" || ranB != 1 || !bTarget)
    {
        std::string st;
        for (auto& m : rb)
            st += std::to_string(m.status) + " ";
        viol("bystander-not-answered-with-its-own-response:" + std::string(sec),
             ",\"bystander_received\":" + vr::jstr(vr::show(gotB.substr(0, 200))) + ",\"statuses\":" + vr::jstr(st) + ",\"handler_runs_for_bystander\":" + std::to_string(ranB) + ",\"target_seen\":" + (bTarget ? "true" : "false"));
        return false; // the bystander's parser may be out of step now: fresh server for the next input
    }
    const std::string stateA = s.loop->transport->peers.count(sfdA) ? canon_state(*Http::Handler::getParser(peerA), false) : std::string("gone");
    // the offender hangs up
    for (auto& fd : s.loop->clientFds)
        if (fd == afd)
            fd = -1;
    ::close(afd);
    try
    {
        transitions = s.loop->settle();
        ctx.count("transitions", transitions);
    }
    catch (const std::exception& ex)
    {
        viol("exception-escapes-the-event-loop:at-hangup:" + std::string(sec), ",\"what\":" + vr::jstr(ex.what()));
        return false;
    }
    peerA.reset();
    if (s.loop->transport->peers.size() != 1 || !s.loop->transport->toWrite.empty())
    {
        viol("offender-state-left-behind:" + std::string(sec), ",\"peers\":" + std::to_string(s.loop->transport->peers.size()) + ",\"write_queues\":" + std::to_string(s.loop->transport->toWrite.size()));
        return false;
    }
    ctx.state(vr::hash_str(verdictA + "|" + stateA + "|" + canon_state(*Http::Handler::getParser(s.peerB), false)));
    return true;
}

// ---- input space (the request part of C03's sections A, C, D) ---------------------------------------------------
struct Input
{
    std::string bytes;
    std::vector<size_t> seams;
    const char* sec;
    bool bytewise;
};

static std::vector<gb::Mode> gModes;
struct ALayout
{
    uint64_t first, suffixes, blocks;
};
static std::vector<ALayout> gAL;

static const char* kNums[] = { "0", "1", "5", "2147483647", "2147483648", "4294967295", "4294967296", "9223372036854775807", "9223372036854775808",
                               "18446744073709551615", "18446744073709551616", "99999999999999999999", "-1", "+1", "0x10", "1e9", "", " 5", "5 ",
                               "7fffffffffffffff", "ffffffffffffffff", "fffffffffffffffff", "-7fffffffffffffff", "1000000000", "3b9aca00", "-2", "-3", "-5", "-12c", "fffffffffffffffe", "fffffffffffffffd", "fffffffffffffffb", "fffffffffffffed4", "8000000000000000", "8000000000000005" };
static const int kNNums = sizeof kNums / sizeof kNums[0];
static const int kNFields = 9;

static Input numeric(int field, const std::string& v)
{
    Input in;
    in.sec      = "numeric";
    in.bytewise = true;
    std::string s;
    size_t seam = 0;
    switch (field)
    {
    case 0:
        s    = "POST / HTTP/1.1\r\nContent-Length: " + v + "\r\n\r\n";
        seam = s.size();
        s += "hello";
        break;
    case 1:
        s    = "POST / HTTP/1.1\r\nTransfer-Encoding: chunked\r\n\r\n" + v + "\r\n";
        seam = s.size();
        s += "hello\r\n0\r\n\r\n";
        break;
    case 2:
        s    = "GET / HTTP/1.1\r\nAccept: text/html;q=" + v;
        seam = s.size();
        s += "\r\n\r\n";
        break;
    case 3:
        s    = "GET / HTTP/1.1\r\nCache-Control: max-age=" + v;
        seam = s.size();
        s += "\r\n\r\n";
        break;
    case 4:
        s    = "GET / HTTP/1.1\r\nHost: a:" + v;
        seam = s.size();
        s += "\r\n\r\n";
        break;
    case 5:
        s    = "GET / HTTP/1.1\r\nContent-Type: text/html; q=" + v;
        seam = s.size();
        s += "\r\n\r\n";
        break;
    case 6:
        s    = "GET / HTTP/1.1\r\nCookie: a=b; Max-Age=" + v;
        seam = s.size();
        s += "\r\n\r\n";
        break;
    // (round 6) the size line of a later chunk (5 / 300 body bytes are already there)
    case 7:
    case 8:
        s    = std::string("POST / HTTP/1.1\r\nTransfer-Encoding: chunked\r\n\r\n") + (field == 7 ? "5\r\nhello\r\n" : "12c\r\n" + std::string(300, 'x') + "\r\n") + v + "\r\n";
        seam = s.size();
        s += "hello\r\n0\r\n\r\n";
        break;
    }
    in.bytes = s;
    in.seams = { seam };
    return in;
}

struct HeaderSpec
{
    const char* name;
    std::vector<std::string> tokens;
};
static std::vector<HeaderSpec> gHeaders;
struct DLayout
{
    uint64_t first, vals, blocks;
};
static std::vector<DLayout> gDL;
static uint64_t gBlocksD;

static void init_headers()
{
    std::vector<std::string> media = { "text", "/", "*", "html", "json", "+", "xml", ";", "q", "=", "0", ".", "5", "1", " ", ",", "vnd.", "a", "charset",
                                       "text/html;q=", "nan", "inf", "e", "x", "-", "9", "\xff" };
    std::vector<std::string> cache = { "max-age", "min-fresh", "s-maxage", "no-cache", "public", "=", ",", " ", "0", "9", "99999999999999999999", "-", "x" };
    std::vector<std::string> cookie = { "a", "=", "1", ";", " ", "Path", "Max-Age", "Expires", "Secure", "HttpOnly", "Domain", "x", "2147483648", "Sun, 06 Nov 1994 08:49:37 GMT" };
    std::vector<std::string> date = { "Sun", ",", " ", "06", "Nov", "1994", "08:49:37", "GMT", "-", "Sunday", "94", "99", "x", ":" };
    std::vector<std::string> host = { "a", ".", "1", "127.0.0.1", "[", "]", ":", "::1", "80", "65536", "99999", "-1", "*", "99999999999999999999" };
    std::vector<std::string> auth = { "Basic", " ", "QQ==", "Bearer", "x", "=", "!", "QUJD", "Q" };
    std::vector<std::string> simple = { "close", "keep-alive", "Keep-Alive", "gzip", "chunked", "deflate", "identity", "100-continue", "x", ",", " ", "GET", "POST" };
    std::vector<std::string> num = { "0", "1", "9", "-", "+", " ", "x", "18446744073709551615", "18446744073709551616", "99999999999999999999999" };
    gHeaders = {
        { "Accept", media }, { "Content-Type", media }, { "Cache-Control", cache }, { "Cookie", cookie }, { "Date", date }, { "Host", host },
        { "Authorization", auth }, { "Connection", simple }, { "Content-Encoding", simple }, { "Transfer-Encoding", simple }, { "Expect", simple },
        { "Allow", simple }, { "Content-Length", num }, { "Location", simple }, { "Server", simple }, { "User-Agent", simple },
        { "Access-Control-Allow-Origin", simple }, { "Access-Control-Allow-Methods", simple }, { "X-Unknown", simple },
    };
    uint64_t at = 0;
    for (auto& h : gHeaders)
    {
        DLayout d;
        d.first  = at;
        d.vals   = gb::count_upto(h.tokens.size(), Dt);
        d.blocks = (d.vals + kBlock - 1) / kBlock;
        at += d.blocks;
        gDL.push_back(d);
    }
    gBlocksD = at;
}

static uint64_t secA0, secC0, secD0, total;

static void run_block(uint64_t idx, vr::Ctx& ctx)
{
    std::unique_ptr<Server> s(new Server());
    bool broken = false;
    auto feed = [&](const Input& in) {
        if (broken)
            return;
        for (int d = 0; d < 3; ++d)
        {
            if (d == 2 && !in.bytewise)
                continue;
            if (d == 1)
            {
                bool any = false;
                for (size_t x : in.seams)
                    any = any || (x > 0 && x < in.bytes.size());
                if (!any)
                    continue;
            }
            if (in.bytes.empty())
                continue;
            if (!play(*s, in.bytes, in.seams, d, ctx, in.sec))
            {
                // an exception went through the loop's frames (or the bystander is out of step): that server is not
                // taken down in an orderly way - it is leaked, its descriptors closed, and the case ends here
                lp::W().loop_active = false;
                for (int fd : lp::list_fds())
                    if (!std::binary_search(s->loop->fdsBefore.begin(), s->loop->fdsBefore.end(), fd))
                        ::close(fd);
                (void)s.release();
                gSeen  = nullptr;
                broken = true;
                return;
            }
            ctx.poll_reports();
        }
        ctx.nontrivial(vr::hash_str(in.bytes, 23));
    };
    if (idx < secC0)
    {
        size_t mi = 0;
        while (mi + 1 < gAL.size() && gAL[mi + 1].first <= idx - secA0)
            ++mi;
        const gb::Mode& m = gModes[mi];
        uint64_t blk      = idx - secA0 - gAL[mi].first;
        for (uint64_t k = blk * kBlock; k < (blk + 1) * kBlock && k < gAL[mi].suffixes; ++k)
        {
            auto v = gb::nth<char>(k, m.alpha.data(), m.alpha.size(), L);
            std::string suf(v.begin(), v.end());
            Input a { m.prefix + suf, { m.prefix.size() }, m.name, (int)suf.size() <= Lb };
            feed(a);
            Input b { m.prefix + suf + m.tail, { m.prefix.size(), m.prefix.size() + suf.size() }, m.name, (int)suf.size() <= Lb };
            feed(b);
        }
    }
    else if (idx < secD0)
    {
        uint64_t i = idx - secC0;
        feed(numeric(int(i / kNNums), kNums[i % kNNums]));
    }
    else
    {
        uint64_t i = idx - secD0;
        size_t hi  = 0;
        while (hi + 1 < gDL.size() && gDL[hi + 1].first <= i)
            ++hi;
        const HeaderSpec& h = gHeaders[hi];
        uint64_t r          = i - gDL[hi].first;
        std::vector<int> ids(h.tokens.size());
        for (size_t k = 0; k < ids.size(); ++k)
            ids[k] = (int)k;
        for (uint64_t k = r * kBlock; k < (r + 1) * kBlock && k < gDL[hi].vals; ++k)
        {
            auto v = gb::nth<int>(k, ids.data(), ids.size(), Dt);
            std::string val;
            for (int t : v)
                val += h.tokens[t];
            Input in;
            in.sec      = h.name;
            in.bytes    = std::string("GET /h HTTP/1.1\r\n") + h.name + ": " + val;
            size_t s1   = in.bytes.size();
            in.bytes += "\r\n\r\n";
            in.seams    = { s1 };
            in.bytewise = v.size() <= 1;
            feed(in);
        }
    }
}

int main(int argc, char** argv)
{
    vr::Options opt = vr::parse_args(argc, argv);
    L               = opt.geti("L", 2);
    Lb              = opt.geti("Lb", 1);
    Dt              = opt.geti("Dt", 2);
    for (auto& m : gb::modes())
        if (!m.response)
            gModes.push_back(m);
    uint64_t atA = 0;
    for (auto& m : gModes)
    {
        ALayout a;
        a.first    = atA;
        a.suffixes = gb::count_upto(m.alpha.size(), L);
        a.blocks   = (a.suffixes + kBlock - 1) / kBlock;
        atA += a.blocks;
        gAL.push_back(a);
    }
    init_headers();
    secA0 = 0;
    secC0 = atA;
    secD0 = secC0 + (uint64_t)kNFields * kNNums;
    total = secD0 + gBlocksD;
    return vr::run(opt, total, [](uint64_t idx, vr::Ctx& ctx) {
        ctx.count("executions", 1);
        run_block(idx, ctx);
        if (idx % 97 == 0)
            ctx.sample("{\"case\":" + std::to_string(idx) + ",\"last_input\":" + vr::jstr(ctx.shm->slots[ctx.worker].note) + "}");
    });
}
