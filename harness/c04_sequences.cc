// C04: successive messages on a persistent connection are parsed independently.
//
// Server side: every sequence (length <= K) over an alphabet of request events x delivery modes is sent on
// one connection of a real Http::Handler behind a real Tcp::Transport (single-threaded stepping of the
// shipped event loop over a socketpair). Differential oracle: what the k-th message produces (the Request
// seen by onRequest, or the error status answered) must equal what the same message produces on a fresh
// connection, and after every completed / refused message the connection's parser must be in the state of
// a fresh parser. Client side: the same with responses through a real Experimental::Connection driven
// through handleResponsePacket, as the client transport drives a pooled connection.
#include "common/loop.h"
#include "common/parser_common.h"
#include "common/rfc7230.h"

#include <pistache/client.h>

using namespace pc;

static const size_t kReqLimit = 128;

struct Event
{
    const char* name;
    std::string bytes;
    size_t cut;      // mid-message cut offset for the "cut" delivery
    bool error;      // the framework answers it itself
};

static std::vector<Event> reqEvents()
{
    std::vector<Event> e;
    auto add = [&](const char* n, std::string b, size_t cut, bool err) { e.push_back({ n, std::move(b), cut, err }); };
    add("get", "GET /a HTTP/1.1\r\n\r\n", 7, false);
    add("get-query", "GET /q?x=1&y=2 HTTP/1.1\r\n\r\n", 9, false);
    add("get-cookie", "GET /c HTTP/1.1\r\nCookie: k=v; m=n\r\n\r\n", 28, false);
    add("post-length", "POST /l HTTP/1.1\r\nContent-Length: 6\r\n\r\nabcdef", 42, false);
    add("post-chunked", "POST /t HTTP/1.1\r\nTransfer-Encoding: chunked\r\n\r\n4\r\nwxyz\r\n2\r\nhi\r\n0\r\n\r\n", 55, false);
    add("post-header", "PUT /h HTTP/1.0\r\nX-Tag: t1\r\nContent-Length: 2\r\n\r\nzz", 30, false);
    add("err-length-and-chunked", "POST /e HTTP/1.1\r\nContent-Length: 3\r\nTransfer-Encoding: chunked\r\n\r\nabc", 40, true);
    add("err-bad-chunk-after-chunk", "POST /e HTTP/1.1\r\nTransfer-Encoding: chunked\r\n\r\n3\r\nabc\r\nZZ\r\n", 56, true);
    // abandoned in the middle of the data of a chunk (first read ends inside the chunk data)
    add("err-chunk-bad-terminator", "POST /e HTTP/1.1\r\nTransfer-Encoding: chunked\r\n\r\n5\r\nabcdeXX\r\n", 54, true);
    add("err-oversize-mid-chunk", "POST /o HTTP/1.1\r\nTransfer-Encoding: chunked\r\n\r\nc8\r\n" + std::string(150, 'c'), 52 + 40, true);
    // abandoned inside the header block, after complete header lines: a header whose typed reader refuses it, and a
    // header block that outgrows the size limit in a later read
    add("err-bad-typed-header-after-headers", "GET /e HTTP/1.1\r\nHost: h\r\nX-A: 1\r\nCookie: broken\r\n\r\n", 36, true);
    add("err-oversize-inside-headers", "GET /o HTTP/1.1\r\nHost: h\r\nX-B: 2\r\nX-Pad: " + std::string(140, 'p'), 36, true);
    // header values whose typed readers throw something other than an HTTP error (std::out_of_range, std::invalid_argument)
    add("err-content-length-overflow", "POST /e HTTP/1.1\r\nHost: h\r\nContent-Length: 99999999999999999999999\r\n\r\n", 40, true);
    add("err-host-port-out-of-range", "GET /e HTTP/1.1\r\nHost: localhost:99999\r\n\r\n", 30, true);
    add("err-method", "BREW /e HTTP/1.1\r\n\r\n", 3, true);
    add("err-version", "GET /e HTTQ/1.1\r\n\r\n", 10, true);
    // 41 header bytes + 70 body bytes arrive (within the 128 limit, body partly read), the next 60 trip the limit
    add("err-oversize-mid-body", "POST /o HTTP/1.1\r\nContent-Length: 200\r\n\r\n" + std::string(130, 'o'), 41 + 70, true);
    return e;
}

struct Obs
{
    std::vector<std::string> requests; // canonical requests handed to onRequest, in order
};
static Obs* gObs = nullptr;

class RecHandler : public Http::Handler
{
public:
    HTTP_PROTOTYPE(RecHandler)
    void onRequest(const Http::Request& req, Http::ResponseWriter w) override
    {
        if (gObs)
            gObs->requests.push_back(canon_request(req));
        w.send(Http::Code::Ok, "ok");
    }
};

static int status_of(const std::string& rsp)
{
    if (rsp.size() < 12 || rsp.compare(0, 5, "HTTP/") != 0)
        return -1;
    return atoi(rsp.c_str() + 9);
}

// what one event produces: "REQ..." canonical request or "ERR <status>", plus parser state afterwards
struct Result
{
    std::string obs;
    std::string parserState;
};

struct Conn
{
    std::shared_ptr<RecHandler> handler;
    std::unique_ptr<lp::Loop> loop;
    std::shared_ptr<Tcp::Peer> peer;
    int cfd;
    Obs obs;
    explicit Conn(size_t limit = kReqLimit)
    {
        handler = std::make_shared<RecHandler>();
        handler->setMaxRequestSize(limit);
        loop.reset(new lp::Loop(handler));
        cfd  = loop->connect_peer(&peer);
        gObs = &obs;
        loop->settle();
    }
    ~Conn() { gObs = nullptr; }

    Result play(const Event& ev, int mode, uint64_t& transitions)
    {
        size_t before = obs.requests.size();
        std::vector<size_t> ends;
        if (mode == 0)
            ends = { ev.bytes.size() };
        else if (mode == 1)
            ends = { ev.cut, ev.bytes.size() };
        else
            for (size_t i = 1; i <= ev.bytes.size(); ++i)
                ends.push_back(i);
        std::string response;
        size_t prev = 0;
        for (size_t e : ends)
        {
            lp::client_send(cfd, ev.bytes.substr(prev, e - prev));
            prev = e;
            try
            {
                transitions += loop->settle();
            }
            catch (const std::exception& ex)
            {
                // nothing above the input handler catches: in a server this terminates the worker thread
                Result r;
                r.obs         = std::string("EXCEPTION-ESCAPED-FROM-THE-EVENT-LOOP: ") + ex.what();
                r.parserState = "?";
                return r;
            }
            response += lp::client_recv_all(cfd);
            // refused by the framework: the client does not send the rest. A well-formed message is always sent to
            // its last byte, whatever has come back meanwhile (an answer that arrives early does not un-send it)
            if (!response.empty() && ev.error)
                break;
        }
        Result r;
        if (obs.requests.size() > before)
            r.obs = obs.requests.back();
        else if (!response.empty())
            r.obs = "ERR " + std::to_string(status_of(response));
        else
            r.obs = "NOTHING";
        if (obs.requests.size() > before + 1)
            r.obs += " +EXTRA-REQUESTS";
        auto parser   = Http::Handler::getParser(peer);
        r.parserState = canon_state(*parser);
        return r;
    }
};

static std::vector<Event> gReq;
static std::vector<Result> gFreshReq; // per (event, mode)
static std::string gFreshParser;
static int K = 2;

static uint64_t ipow(uint64_t b, int e)
{
    uint64_t r = 1;
    while (e-- > 0)
        r *= b;
    return r;
}

// ---- client side ------------------------------------------------------------------------------------
static std::vector<Event> rspEvents()
{
    std::vector<Event> e;
    auto add = [&](const char* n, std::string b, size_t cut, bool err) { e.push_back({ n, std::move(b), cut, err }); };
    add("r-empty", "HTTP/1.1 204 No Content\r\n\r\n", 11, false);
    add("r-length", "HTTP/1.1 200 OK\r\nContent-Length: 5\r\nX-R: 1\r\n\r\nhello", 44, false);
    add("r-chunked", "HTTP/1.1 200 OK\r\nTransfer-Encoding: chunked\r\n\r\n3\r\nabc\r\n1\r\nd\r\n0\r\n\r\n", 52, false);
    add("r-cookie", "HTTP/1.0 404 Not Found\r\nSet-Cookie: s=1; Path=/\r\nContent-Length: 0\r\n\r\n", 30, false);
    add("r-err-chunk-bad-terminator", "HTTP/1.1 200 OK\r\nTransfer-Encoding: chunked\r\n\r\n5\r\nabcdeXX\r\n", 53, true);
    add("r-err-version", "HTTQ/1.1 200 OK\r\n\r\n", 9, true);
    add("r-err-code", "HTTP/1.1 2x0 OK\r\n\r\n", 12, true);
    add("r-err-length-and-chunked", "HTTP/1.1 200 OK\r\nContent-Length: 3\r\nTransfer-Encoding: chunked\r\n\r\nabc", 40, true);
    // a number that does not fit: the conversion the header's reader uses reports a range error
    add("r-err-content-length-overflow", "HTTP/1.1 200 OK\r\nContent-Length: 99999999999999999999999\r\n\r\n", 40, true);
    add("r-err-bad-chunk-after-chunk", "HTTP/1.1 200 OK\r\nTransfer-Encoding: chunked\r\n\r\n3\r\nabc\r\nZZ\r\n", 55, true);
    return e;
}
static std::vector<Event> gRsp;
static std::vector<Result> gFreshRsp;

struct ClientConn
{
    std::shared_ptr<Http::Experimental::Connection> conn;
    ClientConn() { conn = std::make_shared<Http::Experimental::Connection>(4096); }

    Result play(const Event& ev, int mode, uint64_t& transitions)
    {
        std::string outcome;
        bool settled = false;
        Async::Promise<Http::Response> p([&](Async::Resolver& resolve, Async::Rejection& reject) {
            conn->requestEntry.reset(new Http::Experimental::Connection::RequestEntry(std::move(resolve), std::move(reject), nullptr, nullptr));
        });
        p.then(
            [&](const Http::Response& r) {
                outcome = canon_response(r);
                settled = true;
            },
            [&](std::exception_ptr) {
                outcome = "REJECTED";
                settled = true;
            });
        std::vector<size_t> ends;
        if (mode == 0)
            ends = { ev.bytes.size() };
        else if (mode == 1)
            ends = { ev.cut, ev.bytes.size() };
        else
            for (size_t i = 1; i <= ev.bytes.size(); ++i)
                ends.push_back(i);
        size_t prev = 0;
        for (size_t e : ends)
        {
            conn->handleResponsePacket(ev.bytes.data() + prev, e - prev);
            ++transitions;
            prev = e;
            if (settled && ev.error)
                break; // (a well-formed response arrives to its last byte even if the promise settled early)
        }
        Result r;
        r.obs         = settled ? outcome : "PENDING";
        r.parserState = canon_state(conn->parser, false);
        conn->requestEntry.reset(nullptr);
        return r;
    }
};

// ---- server side, back to back at the read-buffer boundary ---------------------------------------------------------
// The transport reads in pieces of Const::MaxBuffer bytes until the socket is empty. A message padded to exactly that size
// and its successor, written by the client in one go, therefore reach the input handler in two consecutive calls with no
// return to the event loop (and no failing system call) in between - the closest two messages of one connection can get.
// Oracle: handler requests and response statuses of the pair = those of the padded message alone followed by those of the
// successor alone on a fresh connection.
static const size_t kBigLimit = 16384;
static std::vector<int> gBoundaryEvents; // indices into gReq (events that do not depend on the 128-byte limit)
struct PairObs
{
    std::vector<std::string> requests;
    std::string statuses;
    std::string str() const
    {
        std::string s = "statuses=[" + statuses + "] requests=" + std::to_string(requests.size());
        for (auto& r : requests)
            s += "\n" + r;
        return s;
    }
    bool operator==(const PairObs& o) const { return requests == o.requests && statuses == o.statuses; }
};
static std::string pad_to_read_size(const std::string& msg)
{
    size_t eol = msg.find("\r\n");
    if (eol == std::string::npos || msg.size() + 10 > Const::MaxBuffer)
        return std::string();
    size_t need = Const::MaxBuffer - msg.size() - 9; // "X-Pad: " + CRLF
    return msg.substr(0, eol + 2) + "X-Pad: " + std::string(need, 'p') + "\r\n" + msg.substr(eol + 2);
}
static bool observe(const std::string& wire, PairObs& out, uint64_t& transitions, std::string& escaped)
{
    Conn c(kBigLimit);
    lp::client_send(c.cfd, wire);
    std::string response;
    try
    {
        for (int r = 0; r < 6; ++r)
        {
            transitions += c.loop->settle();
            response += lp::client_recv_all(c.cfd);
        }
    }
    catch (const std::exception& ex)
    {
        escaped = ex.what();
        return false;
    }
    out.requests = c.obs.requests;
    size_t pos   = 0;
    while (pos < response.size())
    {
        rfc::Message m = rfc::parse(response.substr(pos), true);
        if (!m.ok)
        {
            out.statuses += "?";
            break;
        }
        out.statuses += (out.statuses.empty() ? "" : ",") + std::to_string(m.status);
        pos += m.consumed;
    }
    return true;
}
static void run_boundary(uint64_t idx, vr::Ctx& ctx)
{
    const Event& P = gReq[gBoundaryEvents[idx / gBoundaryEvents.size()]];
    const Event& S = gReq[gBoundaryEvents[idx % gBoundaryEvents.size()]];
    std::string desc = std::string(P.name) + "/padded-to-the-read-size ++ " + S.name + "/same-write";
    ctx.note("server boundary: " + desc);
    std::string pp = pad_to_read_size(P.bytes);
    if (pp.empty())
        return;
    uint64_t t = 0;
    PairObs alone1, alone2, both;
    std::string esc;
    if (!observe(pp, alone1, t, esc) || !observe(S.bytes, alone2, t, esc) || !observe(pp + S.bytes, both, t, esc))
    {
        ctx.violation(std::string("c04:server:exception-escapes-the-input-handler:boundary:msg=") + S.name, "{\"sequence\":" + vr::jstr(desc) + ",\"what\":" + vr::jstr(esc) + "}");
        return;
    }
    PairObs expect = alone1;
    expect.requests.insert(expect.requests.end(), alone2.requests.begin(), alone2.requests.end());
    if (!alone2.statuses.empty())
        expect.statuses += (expect.statuses.empty() ? "" : ",") + alone2.statuses;
    ctx.count("transitions", t);
    ctx.state(vr::hash_str(both.str()));
    ctx.nontrivial(vr::hash_str(desc));
    if (!(both == expect))
        ctx.violation(std::string("c04:server:differs-from-fresh:boundary:after=") + P.name + ":msg=" + S.name,
                      "{\"sequence\":" + vr::jstr(desc) + ",\"observed\":" + vr::jstr(both.str()) + ",\"each_alone_on_a_fresh_connection\":" + vr::jstr(expect.str()) + "}");
    ctx.outcome(std::string("server boundary ") + S.name + " -> " + both.statuses);
}

static uint64_t nReqSeqs, nRspSeqs;

template <typename ConnT>
static void run_sequence(const char* side, const std::vector<Event>& evs, const std::vector<Result>& fresh, const std::string& freshParser, uint64_t code, int len, vr::Ctx& ctx)
{
    const uint64_t A = evs.size() * 3;
    ConnT c;
    std::string desc;
    uint64_t transitions = 0;
    std::vector<int> picks(len);
    for (int i = len - 1; i >= 0; --i)
    {
        picks[i] = int(code % A);
        code /= A;
    }
    static const char* modes[] = { "whole", "cut", "bytewise" };
    for (int i = 0; i < len; ++i)
    {
        const Event& ev = evs[picks[i] / 3];
        int mode        = picks[i] % 3;
        desc += std::string(i ? " ; " : "") + ev.name + "/" + modes[mode];
        ctx.note(std::string(side) + " seq: " + desc);
        Result r        = c.play(ev, mode, transitions);
        const Result& f = fresh[picks[i]];
        ctx.state(vr::hash_str(r.parserState + r.obs));
        if (r.obs.compare(0, 17, "EXCEPTION-ESCAPED") == 0)
        {
            ctx.violation(std::string("c04:") + side + ":exception-escapes-the-input-handler:msg=" + ev.name, "{\"sequence\":" + vr::jstr(desc) + ",\"position\":" + std::to_string(i) + ",\"observed\":" + vr::jstr(r.obs) + "}");
            break;
        }
        if (i > 0 && r.obs != f.obs)
        {
            const Event& prevEv = evs[picks[i - 1] / 3];
            ctx.violation(std::string("c04:") + side + ":differs-from-fresh:after=" + prevEv.name + ":msg=" + ev.name,
                          "{\"sequence\":" + vr::jstr(desc) + ",\"position\":" + std::to_string(i) + ",\"observed\":" + vr::jstr(r.obs) + ",\"on_fresh_connection\":" + vr::jstr(f.obs) + "}");
            break;
        }
        if (r.parserState != freshParser && r.obs != "NOTHING" && r.obs != "PENDING")
        {
            ctx.violation(std::string("c04:") + side + ":parser-not-reset:after=" + ev.name,
                          "{\"sequence\":" + vr::jstr(desc) + ",\"position\":" + std::to_string(i) + ",\"parser_state\":" + vr::jstr(r.parserState) + ",\"fresh_state\":" + vr::jstr(freshParser) + "}");
            break;
        }
        ctx.outcome(std::string(side) + " " + ev.name + " -> " + r.obs.substr(0, r.obs.find('\n')));
    }
    ctx.count("transitions", transitions);
    if (len > 1)
        ctx.nontrivial(vr::hash_str(desc));
    if ((vr::hash_str(desc) & 1023) == 0)
        ctx.sample("{\"side\":" + vr::jstr(side) + ",\"sequence\":" + vr::jstr(desc) + "}");
}

int main(int argc, char** argv)
{
    vr::Options opt = vr::parse_args(argc, argv);
    K               = opt.geti("K", 2);
    gReq            = reqEvents();
    gRsp            = rspEvents();
    // fresh-connection observations
    {
        uint64_t t = 0;
        for (size_t e = 0; e < gReq.size(); ++e)
            for (int m = 0; m < 3; ++m)
            {
                Conn c;
                if (e == 0 && m == 0)
                    gFreshParser = canon_state(*Http::Handler::getParser(c.peer));
                gFreshReq.push_back(c.play(gReq[e], m, t));
            }
        for (size_t e = 0; e < gRsp.size(); ++e)
            for (int m = 0; m < 3; ++m)
            {
                ClientConn c;
                gFreshRsp.push_back(c.play(gRsp[e], m, t));
            }
    }
    std::string freshRspParser;
    {
        ClientConn c;
        freshRspParser = canon_state(c.conn->parser, false);
    }
    if (opt.kv.count("print"))
    {
        for (size_t i = 0; i < gFreshReq.size(); ++i)
            printf("req %s/%zu -> %s | %s\n", gReq[i / 3].name, i % 3, gFreshReq[i].obs.c_str(), gFreshReq[i].parserState.c_str());
        for (size_t i = 0; i < gFreshRsp.size(); ++i)
            printf("rsp %s/%zu -> %s | %s\n", gRsp[i / 3].name, i % 3, gFreshRsp[i].obs.c_str(), gFreshRsp[i].parserState.c_str());
        return 0;
    }
    // case index -> (side, length, code)
    std::vector<uint64_t> reqOff, rspOff;
    uint64_t total = 0;
    const uint64_t AR = gReq.size() * 3, AS = gRsp.size() * 3;
    for (int l = 1; l <= K; ++l)
    {
        reqOff.push_back(total);
        total += ipow(AR, l);
    }
    nReqSeqs = total;
    for (int l = 1; l <= K; ++l)
    {
        rspOff.push_back(total);
        total += ipow(AS, l);
    }
    nRspSeqs = total;
    for (size_t e = 0; e < gReq.size(); ++e)
        if (std::string(gReq[e].name).find("oversize") == std::string::npos)
            gBoundaryEvents.push_back((int)e);
    total += gBoundaryEvents.size() * gBoundaryEvents.size();
    static std::string sFreshRspParser = freshRspParser;
    static std::vector<uint64_t> sReqOff = reqOff, sRspOff = rspOff;
    return vr::run(opt, total, [](uint64_t idx, vr::Ctx& ctx) {
        ctx.count("executions", 1);
        if (idx < nReqSeqs)
        {
            int l = 0;
            while (l + 1 < (int)sReqOff.size() && sReqOff[l + 1] <= idx)
                ++l;
            run_sequence<Conn>("server", gReq, gFreshReq, gFreshParser, idx - sReqOff[l], l + 1, ctx);
        }
        else if (idx >= nRspSeqs)
            run_boundary(idx - nRspSeqs, ctx);
        else
        {
            int l = 0;
            while (l + 1 < (int)sRspOff.size() && sRspOff[l + 1] <= idx)
                ++l;
            run_sequence<ClientConn>("client", gRsp, gFreshRsp, sFreshRspParser, idx - sRspOff[l], l + 1, ctx);
        }
    });
}
