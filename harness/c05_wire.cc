// C05: emitted messages are well-formed HTTP/1.1 with exact framing.
//
// Bounded-exhaustive enumeration through the real ResponseWriter / ResponseStream / client writeRequest,
// bytes captured at the peer end of a socketpair behind the real transport loop and judged by an
// independent RFC 7230 reader:
//   A  ResponseWriter::send: status codes x header sets x cookie sets x every body length in the range x
//      maxResponseSize in {total-1, total, total+1, 512, 1024}
//   B  ResponseStream: all op sequences (write / <<const char* / <<int over the size and value alphabets,
//      flush after any subset) up to length Kops x streamSize
//   C  client requests: the RequestBuilder product
#include "common/wire_common.h"

using namespace wc;

static uint64_t nA, nB, nC, nF;

static std::string spec_desc(const RspSpec& s)
{
    std::string d = std::string(s.locale ? "[digit-grouping global locale " + std::to_string(s.locale) + "] " : "") + "code=" + std::to_string(s.code) + (s.salt >= 100 ? " binary-fill" + std::to_string(s.salt - 100) : std::string()) + " headers=[";
    for (int h : s.headers)
        d += std::string(rsp_headers()[h].name) + ",";
    d += "] cookies=" + std::to_string(s.cookies.size());
    if (s.fileSize >= 0)
    {
        d += " serveFile size=" + std::to_string(s.fileSize) + " ext='" + file_exts()[s.fileExt].ext + "' max=" + std::to_string(s.maxResponse) + " plan=[";
        for (auto& a : s.plan)
            d += a.kind == lp::FULL ? "full " : a.kind == lp::BLOCK ? "block(" + std::to_string(a.k) + ") " : a.k == lp::kHalf ? "half " : a.k == lp::kAllButOne ? "all-but-one " : "accept" + std::to_string(a.k) + " ";
        d += "]";
    }
    else if (!s.stream)
        d += " send body=" + std::to_string(s.bodyLen) + (s.useMimeArg ? " +mime" : "") + " max=" + std::to_string(s.maxResponse);
    else
    {
        d += " stream(" + std::to_string(s.streamSize) + (s.moveStream ? ",moved" + std::to_string(s.moveStream) : std::string()) + "):";
        for (auto& op : s.ops)
            d += std::string(op.kind == OP_WRITE ? " write" : op.kind == OP_CSTR ? " cstr" : op.kind == OP_INT ? " int" : " flush") + (op.kind == OP_FLUSH ? "" : ":" + std::to_string(op.n));
    }
    return d;
}

static std::string jdetail(const RspSpec& s, const RspResult& r, const std::string& extra)
{
    std::string w = r.wire.size() > 600 ? r.wire.substr(0, 600) + "..." : r.wire;
    return "{\"spec\":" + vr::jstr(spec_desc(s)) + ",\"wire_bytes\":" + std::to_string(r.wire.size()) + ",\"wire\":" + vr::jstr(vr::show(w)) + "," + extra + "}";
}

// full check of one emitted response; returns total size on the wire (0 when refused)
static size_t check_response(const RspSpec& s, const RspResult& r, vr::Ctx& ctx, bool expectRefused)
{
    const char* kind = s.fileSize >= 0 ? "file" : s.stream ? "stream" : "send";
    if (!r.handlerRan)
    {
        ctx.violation(std::string("c05:") + kind + ":handler-did-not-run", jdetail(s, r, "\"x\":0"));
        return 0;
    }
    if (expectRefused)
    {
        if (r.promise != 2)
            ctx.violation(std::string("c05:") + kind + ":over-limit-not-rejected", jdetail(s, r, "\"promise\":" + std::to_string(r.promise)));
        if (!r.wire.empty())
            ctx.violation(std::string("c05:") + kind + ":over-limit-bytes-emitted", jdetail(s, r, "\"promise\":" + std::to_string(r.promise)));
        return 0;
    }
    if (!r.threw.empty())
    {
        ctx.violation(std::string("c05:") + kind + ":handler-threw", jdetail(s, r, "\"what\":" + vr::jstr(r.threw)));
        return 0;
    }
    rfc::Message m = rfc::parse(r.wire, true);
    if (!m.ok)
    {
        ctx.violation(std::string("c05:") + kind + ":not-wellformed", jdetail(s, r, "\"reader\":" + vr::jstr(m.error)));
        return 0;
    }
    if (m.consumed != r.wire.size())
        ctx.violation(std::string("c05:") + kind + ":bytes-after-message", jdetail(s, r, "\"message_bytes\":" + std::to_string(m.consumed)));
    if (m.status != s.code)
        ctx.violation(std::string("c05:") + kind + ":wrong-status", jdetail(s, r, "\"status\":" + std::to_string(m.status)));
    std::string framing = s.fileSize >= 0 ? "content-length: " + std::to_string(s.fileSize) : s.stream ? "transfer-encoding: chunked" : "content-length: " + std::to_string(s.bodyLen);
    auto exp            = expected_rsp_headers(s, framing);
    if (s.fileSize >= 0 && *file_exts()[s.fileExt].mime)
    {
        // a Content-Type derived from the file name replaces one the handler chose
        bool had = false;
        for (auto& x : exp)
            if (x.compare(0, 13, "content-type:") == 0)
            {
                x   = std::string("content-type: ") + file_exts()[s.fileExt].mime;
                had = true;
            }
        if (!had)
            exp.push_back(std::string("content-type: ") + file_exts()[s.fileExt].mime);
        std::sort(exp.begin(), exp.end());
    }
    auto got            = wire_headers(m);
    if (exp != got)
        ctx.violation(std::string("c05:") + kind + ":header-set-differs", jdetail(s, r, "\"expected\":" + vr::jstr(join(exp)) + ",\"got\":" + vr::jstr(join(got))));
    if (m.body != r.written)
        ctx.violation(std::string("c05:") + kind + ":body-differs", jdetail(s, r, "\"decoded_body_bytes\":" + std::to_string(m.body.size()) + ",\"written_bytes\":" + std::to_string(r.written.size())));
    if (s.fileSize >= 0)
    {
        if (r.promise != 1)
            ctx.violation("c05:file:promise-not-fulfilled", jdetail(s, r, "\"promise\":" + std::to_string(r.promise)));
        else if (r.fulfilled != (ssize_t)s.fileSize)
            ctx.violation("c05:file:promise-value-differs-from-the-file-size", jdetail(s, r, "\"value\":" + std::to_string(r.fulfilled)));
    }
    else if (!s.stream)
    {
        if (r.promise != 1)
            ctx.violation("c05:send:promise-not-fulfilled", jdetail(s, r, "\"promise\":" + std::to_string(r.promise)));
        else if ((size_t)r.fulfilled != r.wire.size())
            ctx.violation("c05:send:promise-value-differs-from-bytes-sent", jdetail(s, r, "\"value\":" + std::to_string(r.fulfilled)));
        if (r.reportedSize != (ssize_t)r.wire.size())
            ctx.violation("c05:send:reported-size-differs", jdetail(s, r, "\"getResponseSize\":" + std::to_string(r.reportedSize)));
    }
    return r.wire.size();
}

// ---- A ------------------------------------------------------------------------------------------------
static void caseA(uint64_t i, vr::Ctx& ctx)
{
    uint64_t nH = gHdrSets.size(), nC2 = gCookieSets.size();
    RspSpec s;
    s.code       = gCodes[i / (nH * nC2)];
    s.headers    = gHdrSets[(i / nC2) % nH];
    s.cookies    = gCookieSets[i % nC2];
    s.useMimeArg = (i % 3) == 1;
    uint64_t steps = 0;
    for (size_t len : gLens)
    {
        s.bodyLen     = len;
        s.salt        = int(len % 7);
        s.maxResponse = 0;
        ctx.note("A " + spec_desc(s));
        RspResult r  = run_response(s, &steps);
        size_t total = check_response(s, r, ctx, false);
        ctx.count("evaluations", 1);
        ctx.state(vr::hash_str(std::to_string(total) + "|" + std::to_string(r.promise)));
        if (len % 8 == 0 || (len >= 400 && len <= 530))
        {
            // the same length with a binary body (0xFF / 0x00 / 0x80 at every offset)
            s.salt = 100 + int(len / 8) % 3;
            ctx.note("A " + spec_desc(s));
            RspResult rb = run_response(s, &steps);
            check_response(s, rb, ctx, false);
            ctx.count("evaluations", 1);
            s.salt = int(len % 7);
        }
        if (len == 999 || len == 1000 || len == 1024 || len == 2048)
        {
            // (round 6) the same response while the process-wide C++ locale groups digits: a length of four digits and more
            for (int loc = 1; loc <= 2; ++loc)
            {
                s.locale = loc;
                ctx.note("A " + spec_desc(s));
                RspResult rl = run_response(s, &steps);
                check_response(s, rl, ctx, false);
                ctx.count("evaluations", 1);
                ctx.nontrivial(vr::hash_str(spec_desc(s)));
            }
            s.locale = 0;
        }
        if (!total)
            continue;
        // limits around the exact size: only on a thinned set of lengths (each costs a full cycle)
        if (len % 16 != 0 && len != 1 && !(len >= 500 && len <= 530) && !(len >= 1010 && len <= 1040) && !(len >= 2040 && len <= 2060))
            continue;
        size_t limits[] = { total - 1, total, total + 1, 512, 1024 };
        for (size_t lim : limits)
        {
            s.maxResponse = lim;
            ctx.note("A " + spec_desc(s));
            RspResult r2 = run_response(s, &steps);
            check_response(s, r2, ctx, total > lim);
            ctx.count("evaluations", 1);
            ctx.nontrivial(vr::hash_str(spec_desc(s)));
            ctx.outcome(std::string("send limit ") + (total > lim ? "refused" : "accepted"));
        }
        if (ctx.case_violations > 8)
            break;
    }
    ctx.count("transitions", steps);
}

// ---- B ------------------------------------------------------------------------------------------------
static void caseB(uint64_t i, vr::Ctx& ctx)
{
    static const size_t streamSizes[] = { 1, 64, 512 };
    RspSpec s;
    s.stream       = true;
    s.ops          = gPrograms[i / 9];
    s.moveStream   = int((i / 3) % 3);
    s.streamSize   = streamSizes[i % 3];
    s.code         = gCodes[i % gCodes.size()];
    s.headers      = gHdrSets[i % gHdrSets.size()];
    if ((i / 9) % 4 == 3)
        s.headers.push_back(8);
    if ((i / 9) % 4 == 1)
        s.locale = 1 + int(i / 36 % 2); // a quarter of the programs run under a digit-grouping process-wide locale // a quarter of the programs: the handler announces a transfer coding of its own as well
    s.cookies      = gCookieSets[i % gCookieSets.size()];
    s.salt         = (i % 11 == 10) ? 100 + int(i / 11) % 3 : int(i % 5); // every 11th: binary payloads
    uint64_t steps = 0;
    ctx.note("B " + spec_desc(s));
    RspResult r = run_response(s, &steps);
    check_response(s, r, ctx, false);
    ctx.count("evaluations", 1);
    ctx.count("transitions", steps);
    ctx.state(vr::hash_str(std::to_string(r.wire.size()) + "|" + std::to_string(s.ops.size())));
    ctx.nontrivial(vr::hash_str(spec_desc(s)));
    ctx.outcome("stream ops=" + std::to_string(s.ops.size()));
    if (i % 997 == 0)
        ctx.sample("{\"spec\":" + vr::jstr(spec_desc(s)) + ",\"wire_bytes\":" + std::to_string(r.wire.size()) + "}");
}

// ---- C ------------------------------------------------------------------------------------------------
static void caseC(uint64_t i, vr::Ctx& ctx)
{
    const ReqSpec& s = gReqs[i];
    ctx.note("C request #" + std::to_string(i));
    BuiltRequest b = build_request(s, gBodies);
    ctx.count("evaluations", 1);
    ctx.count("transitions", 1);
    std::string d = "{\"wire\":" + vr::jstr(vr::show(b.wire.size() > 500 ? b.wire.substr(0, 500) : b.wire)) + "}";
    rfc::Message m = rfc::parse(b.wire, false);
    if (!m.ok)
    {
        ctx.violation("c05:request:not-wellformed:" + m.error.substr(0, m.error.find(':')), d);
        return;
    }
    if (m.consumed != b.wire.size())
        ctx.violation("c05:request:bytes-after-message", d);
    if (m.method != Http::methodString(methods()[s.method]))
        ctx.violation("c05:request:wrong-method", d);
    {
        // origin-form target: the resource's path, then its own query and/or the params() query
        const Res& rs       = resources()[s.resource];
        std::string wantPath = rs.path;
        size_t qm           = m.target.find('?');
        std::string gotPath = m.target.substr(0, qm);
        if (m.target.empty() || m.target[0] != '/' || gotPath != wantPath)
            ctx.violation("c05:request:target-not-origin-form-of-the-resource", "{\"given\":" + vr::jstr(rs.given) + ",\"target\":" + vr::jstr(m.target) + ",\"expected_path\":" + vr::jstr(wantPath) + "}");
        else if (*rs.ownQuery && m.target.find(rs.ownQuery) == std::string::npos)
            ctx.violation("c05:request:query-of-the-resource-lost", "{\"given\":" + vr::jstr(rs.given) + ",\"target\":" + vr::jstr(m.target) + "}");
    }
    const std::string& body = gBodies[s.body];
    if (m.body != body)
        ctx.violation("c05:request:body-differs", d);
    if (!body.empty() && (!m.hasLength || m.length != body.size()))
        ctx.violation("c05:request:content-length-wrong", d);
    // each header set by the caller exactly once, plus the framework's own
    std::vector<std::string> exp;
    for (int h : s.headers)
        exp.push_back(rfc::lower(req_headers()[h].name) + ": " + req_headers()[h].text);
    // the framework's own User-Agent / Host lines follow the caller's (a duplicate line when the caller set one)
    exp.push_back("user-agent: pistache/0.1");
    std::string host = resources()[s.resource].host;
    bool ownHost     = false;
    for (int h : s.headers)
        ownHost |= !strcmp(req_headers()[h].name, "Host");
    if (!ownHost) // exactly one Host field: the caller's, or the one derived from the URL
        exp.push_back("host: " + host + (host.find(':') != std::string::npos ? "" : ":80")); // no port given: the writer spells out 80
    if (!body.empty())
        exp.push_back("content-length: " + std::to_string(body.size()));
    auto got = wire_headers(m);
    std::vector<std::string> gotNoCookie;
    std::string cookieLine;
    int cookieLines = 0;
    for (auto& g : got)
        if (g.compare(0, 7, "cookie:") == 0)
        {
            cookieLine = g;
            ++cookieLines;
        }
        else
            gotNoCookie.push_back(g);
    std::sort(exp.begin(), exp.end());
    if (exp != gotNoCookie)
        ctx.violation("c05:request:header-set-differs", "{\"expected\":" + vr::jstr(join(exp)) + ",\"got\":" + vr::jstr(join(gotNoCookie)) + "}");
    if (cookieLines > 1)
        ctx.violation("c05:request:cookie-header-repeated", d);
    ctx.state(vr::hash_str(b.wire));
    ctx.nontrivial(vr::hash_str(b.wire, 3));
    ctx.outcome("request ok");
}

// ---- F: file responses (Http::serveFile) -------------------------------------------------------------------------
// file sizes x name extensions x handler header / cookie sets x every answer plan of the socket with at most one (thorough:
// two) non-default answers among the first 4 write calls (accept 1 / half / all but one, would-block released after 0 or 1
// loop steps): head and file body are separate writes (send with MSG_MORE, then sendfile)
static const long kFileSizes[] = { 0, 1, 5, 4096, 70000 };
static std::vector<std::vector<lp::Answer>> gFilePlans;
static void build_file_plans(int maxDev)
{
    const lp::Answer alts[] = { { lp::ACCEPT, 1 }, { lp::ACCEPT, lp::kHalf }, { lp::ACCEPT, lp::kAllButOne }, { lp::BLOCK, 0 }, { lp::BLOCK, 1 } };
    gFilePlans.push_back({});
    for (int i = 0; i < 4; ++i)
        for (auto& a : alts)
        {
            std::vector<lp::Answer> p(i, lp::Answer { lp::FULL, 0 });
            p.push_back(a);
            gFilePlans.push_back(p);
            if (maxDev >= 2)
                for (int j = i + 1; j < 4; ++j)
                    for (auto& b : alts)
                    {
                        std::vector<lp::Answer> q = p;
                        q.resize(j, lp::Answer { lp::FULL, 0 });
                        q.push_back(b);
                        gFilePlans.push_back(q);
                    }
        }
}
static void caseF(uint64_t i, vr::Ctx& ctx)
{
    const uint64_t nE = file_exts().size(), nP = gFilePlans.size(), nS = sizeof kFileSizes / sizeof kFileSizes[0];
    RspSpec s;
    s.plan     = gFilePlans[i % nP];
    s.fileExt  = int((i / nP) % nE);
    s.fileSize = kFileSizes[(i / nP / nE) % nS];
    uint64_t k = i / nP / nE / nS;
    s.headers  = gHdrSets[k % gHdrSets.size()];
    s.cookies  = gCookieSets[(k / gHdrSets.size()) % gCookieSets.size()];
    s.salt     = int(i % 5);
    s.code     = 200;
    uint64_t steps = 0;
    ctx.note("F " + spec_desc(s));
    RspResult r = run_response(s, &steps);
    check_response(s, r, ctx, false);
    ctx.count("evaluations", 1);
    if (s.plan.empty() && s.fileSize <= 5 && r.wire.size() > (size_t)s.fileSize)
    {
        // the response head goes through the size-limited response buffer: limits around the head's exact size
        size_t head = r.wire.size() - (size_t)s.fileSize;
        for (size_t lim : { head - 1, head, head + 1 })
        {
            s.maxResponse = lim;
            ctx.note("F " + spec_desc(s));
            RspResult r2 = run_response(s, &steps);
            check_response(s, r2, ctx, head > lim);
            ctx.count("evaluations", 1);
            ctx.outcome(std::string("file head limit ") + (head > lim ? "refused" : "accepted"));
        }
        s.maxResponse = 0;
    }
    ctx.count("transitions", steps);
    ctx.state(vr::hash_str(std::to_string(r.wire.size()) + "|" + std::to_string(lp::W().sends.size())));
    ctx.nontrivial(vr::hash_str(spec_desc(s)));
    ctx.outcome(std::string("file response, ") + (s.plan.empty() ? "all writes accepted" : "one or more short / would-block writes"));
    if (i % 499 == 0)
        ctx.sample("{\"spec\":" + vr::jstr(spec_desc(s)) + ",\"wire_bytes\":" + std::to_string(r.wire.size()) + "}");
}

int main(int argc, char** argv)
{
    vr::Options opt = vr::parse_args(argc, argv);
    bool thorough   = opt.geti("thorough", 0);
    int Kops        = opt.geti("Kops", 2);
    build_space(thorough, Kops);
    nA = (uint64_t)gCodes.size() * gHdrSets.size() * gCookieSets.size();
    nB = (uint64_t)gPrograms.size() * 9;
    nC = gReqs.size();
    build_file_plans(thorough ? 2 : 1);
    nF = (uint64_t)gFilePlans.size() * file_exts().size() * (sizeof kFileSizes / sizeof kFileSizes[0]) * gHdrSets.size() * gCookieSets.size();
    return vr::run(opt, nA + nB + nC + nF, [](uint64_t idx, vr::Ctx& ctx) {
        ctx.count("executions", 1);
        if (idx < nA)
            caseA(idx, ctx);
        else if (idx < nA + nB)
            caseB(idx - nA, ctx);
        else if (idx < nA + nB + nC)
            caseC(idx - nA - nB, ctx);
        else
            caseF(idx - nA - nB - nC, ctx);
    });
}
