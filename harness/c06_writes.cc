// C06: queued writes reach the peer completely, in order and exactly once.
// C07: a peer that cannot be written to does not stall other connections (mode=c07).
//
// Real Tcp::Transport + reactor stepped single-threaded over socketpairs (common/loop.h); send()/sendfile()
// are interposed and answer according to an enumerated plan: full / accept k bytes / would-block (held for r
// further loop steps, then released through a real epoll re-arm).
//   C06: all write lists x issue schedules (how many loop steps before each write is issued) x all plans with at
//        most D non-default answers over the first 8 socket write calls x (optionally) client input arriving
//        while a write is blocked.
//   C07: connection A with 1..3 pending writes blocked at write-call i for d steps x a request on connection B
//        arriving at step j x kernel event order.
#include "common/loop.h"
#include "common/parser_common.h"
#include "common/rfc7230.h"

using namespace Pistache;

class EchoHandler : public Http::Handler
{
public:
    HTTP_PROTOTYPE(EchoHandler)
    void onRequest(const Http::Request& req, Http::ResponseWriter w) override
    {
        if (req.resource() == "/stream")
        {
            // a streamed answer flushed from inside the handler: the flush drains the connection's write queue at once
            auto s = w.stream(Http::Code::Ok);
            s << "streamed";
            s.flush();
            s.ends();
            return;
        }
        w.send(Http::Code::Ok, "echo:" + req.resource());
    }
};

struct Kind
{
    bool file;
    size_t size;
    const char* name;
};
static const Kind kKinds[] = { { false, 1, "raw1" }, { false, 2, "raw2" }, { false, 5, "raw5" }, { false, 4097, "raw4097" },
                               { true, 1, "file1" }, { true, 5, "file5" }, { true, 70000, "file70000" },
                               // empty buffers: the socket call for them returns 0, which is success
                               { false, 0, "raw0" }, { true, 0, "file0" } };
static std::string gFileDir;
static bool gReportBusyWait = false; // the busy-wait verdict belongs to C07
static std::string content(int kind, int slot)
{
    std::string s(kKinds[kind].size, 0);
    for (size_t i = 0; i < s.size(); ++i)
        s[i] = char('A' + slot * 7 + (i * 13 + kind) % 23);
    return s;
}

enum AnsSpec { A_FULL, A_ACC1, A_HALF, A_LEN1, A_BLOCK0, A_BLOCK1, A_BLOCK2, N_ANS };
static const char* kAnsNames[] = { "full", "accept1", "accept-half", "accept-all-but-1", "block(release+0)", "block(release+1)", "block(release+2)" };

struct Exec
{
    std::vector<int> kinds;      // write list
    std::vector<int> issueAt;    // loop steps before each write is issued
    int plan[8];                 // AnsSpec per socket write call index
    int clientInputAtBlock = 0;  // the client sends bytes on the same connection while a write is blocked
    unsigned foreign       = 0;  // bit i: write i is issued as if from a thread other than the event loop's
    bool chain             = false; // two writes: the second is issued by the completion of the first, which then flushes the transport
};

struct PromiseObs
{
    int settled = 0, fulfilled = 0, rejected = 0;
    ssize_t value = -1;
    size_t acceptedAtFulfil = 0;
};

static std::string exec_desc(const Exec& e)
{
    std::string d = "writes=[";
    for (size_t i = 0; i < e.kinds.size(); ++i)
        d += std::string(i ? "," : "") + kKinds[e.kinds[i]].name + "@step" + std::to_string(e.issueAt[i]);
    d += "] plan=[";
    for (int i = 0; i < 8; ++i)
        if (e.plan[i] != A_FULL)
            d += "call" + std::to_string(i) + ":" + kAnsNames[e.plan[i]] + " ";
    d += "]";
    if (e.clientInputAtBlock)
        d += e.clientInputAtBlock == 2 ? " +client-request-while-blocked(handler streams and flushes)" : " +client-input-while-blocked";
    if (e.chain)
        d += " [write 1 is issued by the completion of write 0, which then calls flush()]";
    if (e.foreign)
    {
        d += " issued-from-another-thread=[";
        for (size_t i = 0; i < e.kinds.size(); ++i)
            if (e.foreign >> i & 1)
                d += std::to_string(i) + " ";
        d += "]";
    }
    return d;
}

// the plan is interpreted lazily: the answer to write call #i depends on the length asked
static std::vector<int>* gPlan   = nullptr;
static int gCallIdx              = 0;
static int gReleaseIn            = -1; // steps until release of the held fd (-1: not held by plan)

static size_t accepted_bytes(int fd)
{
    size_t n = 0;
    for (auto& s : lp::W().sends)
        if (s.fd == fd && s.result > 0)
            n += s.result;
    return n;
}

static void run_exec(const Exec& e, vr::Ctx& ctx, uint64_t& steps)
{
    auto handler = std::make_shared<EchoHandler>();
    lp::Loop loop(handler);
    std::shared_ptr<Tcp::Peer> peer;
    int cfd = loop.connect_peer(&peer);
    loop.settle();
    const int sfd = peer->fd();
    lp::World& W  = lp::W();
    std::vector<PromiseObs> obs(e.kinds.size());
    std::string expected, received;
    std::vector<size_t> endOffset;
    for (size_t i = 0; i < e.kinds.size(); ++i)
    {
        expected += content(e.kinds[i], (int)i);
        endOffset.push_back(expected.size());
    }
    size_t issued = 0;
    bool clientInputSent = false;
    // the streaming handler flushes twice (flush(), ends()): each flush is one more write attempt on the blocked
    // socket within the batch, which is not a busy-wait
    W.extra_attempts_allowed = e.clientInputAtBlock == 2 ? 2 : e.chain ? 1 : 0;
    for (int i = 0; i < 8; ++i)
    {
        switch (e.plan[i])
        {
        case A_FULL:
            W.plan[sfd].push_back({ lp::FULL, 0 });
            break;
        case A_ACC1:
            W.plan[sfd].push_back({ lp::ACCEPT, 1 });
            break;
        case A_HALF:
            W.plan[sfd].push_back({ lp::ACCEPT, lp::kHalf });
            break;
        case A_LEN1:
            W.plan[sfd].push_back({ lp::ACCEPT, lp::kAllButOne });
            break;
        default:
            W.plan[sfd].push_back({ lp::BLOCK, (size_t)(e.plan[i] - A_BLOCK0) });
        }
    }
    int idle = 0;
    std::function<void(size_t)> issue_one;
    issue_one = [&](size_t i)
        {
            ++issued;
            PromiseObs* o   = &obs[i];
            Tcp::Transport* tr = loop.transport.get();
            bool chainHere  = e.chain && i == 0;
            auto* issueNext = &issue_one;
            auto onOk       = [o, sfd, chainHere, issueNext, tr](ssize_t v) {
                o->settled++; o->fulfilled++; o->value = v; o->acceptedAtFulfil = accepted_bytes(sfd);
                if (chainHere)
                {
                    (*issueNext)(1);
                    tr->flush();
                }
            };
            auto onErr      = [o](std::exception_ptr) { o->settled++; o->rejected++; };
            const Kind& k   = kKinds[e.kinds[i]];
            std::string dat = content(e.kinds[i], (int)i);
            // "from another thread": the transport decides by comparing thread ids, so the loop's recorded id is
            // changed for the duration of the call (the cross-thread hand-off itself is the mailbox of C13)
            struct OtherThread
            {
                Tcp::Transport* t;
                std::thread::id saved;
                bool on;
                OtherThread(Tcp::Transport* t_, bool on_)
                    : t(t_)
                    , saved(t_->context_.tid)
                    , on(on_)
                {
                    if (on)
                        t->context_.tid = std::thread::id();
                }
                ~OtherThread()
                {
                    if (on)
                        t->context_.tid = saved;
                }
            } other(loop.transport.get(), (e.foreign >> i & 1) != 0);
            if (k.file)
            {
                std::string path = gFileDir + "/w" + std::to_string(getpid()) + "_" + std::to_string(e.kinds[i]) + "_" + std::to_string(i);
                if (access(path.c_str(), R_OK) != 0)
                {
                    FILE* f = fopen(path.c_str(), "w");
                    fwrite(dat.data(), 1, dat.size(), f);
                    fclose(f);
                }
                loop.transport->asyncWrite(sfd, FileBuffer(path)).then(onOk, onErr);
            }
            else
            {
                // a buffer object may hold more than it is asked to send (a partly filled fixed-size chunk): every other
                // raw write carries slack behind its length
                bool slack = ((e.kinds[i] + i) & 1) != 0;
                loop.transport->asyncWrite(sfd, RawBuffer(slack ? dat + "~SLACK~" : dat, dat.size())).then(onOk, onErr);
            }
        };
    for (int s = 0; s < 120; ++s)
    {
        while (issued < (e.chain ? 1u : e.kinds.size()) && e.issueAt[issued] <= s)
            issue_one(issued);
        bool progressed = loop.step();
        ++steps;
        if (W.held.count(sfd) && W.held[sfd])
        {
            if (e.clientInputAtBlock && !clientInputSent)
            {
                // 1: a byte of a request; 2: a whole request whose handler streams its answer and flushes it
                lp::client_send(cfd, e.clientInputAtBlock == 2 ? "GET /stream HTTP/1.1\r\nHost: h\r\n\r\n" : "x");
                clientInputSent = true;
            }
            if (W.release_in[sfd] <= 0)
                loop.release(sfd);
            else
                --W.release_in[sfd];
        }
        received += lp::client_recv_all(cfd);
        bool held = W.held.count(sfd) && W.held[sfd];
        if (!progressed && issued == e.kinds.size() && !held)
        {
            if (++idle >= 3)
                break;
        }
        else
            idle = 0;
    }
    received += lp::client_recv_all(cfd);

    std::string d = "{\"execution\":" + vr::jstr(exec_desc(e)) + ",\"write_calls\":" + std::to_string(W.sends.size()) + ",";
    auto viol     = [&](const std::string& sig, const std::string& extra) { ctx.violation(sig, d + extra + "}"); };
    if (W.livelock && gReportBusyWait)
        viol("c07:busy-wait:write-retried-without-returning-to-the-poller", "\"consecutive_would_block\":" + std::to_string(W.max_consecutive_block));
    if (e.clientInputAtBlock == 2 && clientInputSent)
    {
        // the handler's own (contiguous) response is taken out of the stream before the comparison
        size_t at  = received.find("HTTP/1.1 200");
        size_t end = at == std::string::npos ? at : received.find("0\r\n\r\n", at);
        if (end == std::string::npos)
            viol("c06:handler-response-missing-or-incomplete", "\"received\":" + std::to_string(received.size()));
        else
            received.erase(at, end + 5 - at);
    }
    if (received != expected)
    {
        std::string kind = received.size() < expected.size() && expected.compare(0, received.size(), received) == 0 ? "bytes-missing" : received.size() > expected.size() ? "extra-bytes" : "bytes-differ";
        size_t firstDiff = 0;
        while (firstDiff < received.size() && firstDiff < expected.size() && received[firstDiff] == expected[firstDiff])
            ++firstDiff;
        viol("c06:peer-stream:" + kind, "\"received\":" + std::to_string(received.size()) + ",\"expected\":" + std::to_string(expected.size()) + ",\"first_difference_at\":" + std::to_string(firstDiff));
    }
    for (size_t i = 0; i < obs.size(); ++i)
    {
        const auto& o = obs[i];
        std::string w = std::string("\"write\":") + std::to_string(i) + ",\"kind\":\"" + kKinds[e.kinds[i]].name + "\"";
        if (o.settled > 1)
            viol("c06:promise:settled-more-than-once", w);
        else if (o.settled == 0)
            viol(std::string("c06:promise:never-settled:") + (kKinds[e.kinds[i]].file ? "file" : "raw"), w);
        else if (o.rejected)
            viol("c06:promise:rejected-although-peer-connected", w);
        else
        {
            if (o.value != (ssize_t)kKinds[e.kinds[i]].size)
                viol(std::string("c06:promise:fulfilled-with-wrong-byte-count:") + (kKinds[e.kinds[i]].file ? "file" : "raw"), w + ",\"value\":" + std::to_string(o.value) + ",\"size\":" + std::to_string(kKinds[e.kinds[i]].size));
            if (o.acceptedAtFulfil < endOffset[i])
                viol("c06:promise:fulfilled-before-last-byte-accepted", w + ",\"accepted\":" + std::to_string(o.acceptedAtFulfil) + ",\"needed\":" + std::to_string(endOffset[i]));
        }
    }
    int nonDefault = (int)W.plan_used;
    ctx.outcome("writes=" + std::to_string(e.kinds.size()) + " calls=" + std::to_string(std::min<size_t>(W.sends.size(), 12)) + " deviations-hit=" + std::to_string(nonDefault));
    if (nonDefault)
        ctx.nontrivial(vr::hash_str(exec_desc(e)));
    ctx.state(vr::hash_str(exec_desc(e), W.sends.size()));
}

// ---- enumeration --------------------------------------------------------------------------------------
static std::vector<std::vector<int>> gWriteLists;
static std::vector<std::vector<int>> gPlans; // 8 entries each
static int D = 2;
static bool gDeep = false; // single writes, more deviations, reduced answer alphabet

static void gen_plans()
{
    std::vector<int> p(8, A_FULL);
    gPlans.push_back(p);
    std::function<void(int, int)> rec = [&](int from, int left) {
        if (!left)
            return;
        for (int i = from; i < 8; ++i)
            for (int a = 1; a < N_ANS; ++a)
            {
                if (gDeep && a != A_ACC1 && a != A_HALF && a != A_BLOCK0)
                    continue;
                p[i] = a;
                gPlans.push_back(p);
                rec(i + 1, left - 1);
                p[i] = A_FULL;
            }
    };
    rec(0, D);
}

static std::vector<std::vector<int>> schedules(int n)
{
    std::vector<std::vector<int>> out;
    std::vector<int> s(n);
    std::function<void(int, int)> rec = [&](int i, int lo) {
        if (i == n)
        {
            out.push_back(s);
            return;
        }
        for (int v = lo; v <= 2; ++v)
        {
            s[i] = v;
            rec(i + 1, v);
        }
    };
    rec(0, 0);
    return out;
}

struct Case
{
    int list;
    int sched;
};
static std::vector<Case> gCases;
static std::vector<std::vector<std::vector<int>>> gSchedCache(4);

static void case_c06(uint64_t idx, vr::Ctx& ctx)
{
    const Case& c = gCases[idx];
    Exec e;
    e.kinds   = gWriteLists[c.list];
    e.issueAt = gSchedCache[e.kinds.size()][c.sched];
    uint64_t steps = 0, execs = 0;
    for (auto& plan : gPlans)
    {
        bool hasBlock = false;
        for (int i = 0; i < 8; ++i)
        {
            e.plan[i] = plan[i];
            hasBlock |= plan[i] >= A_BLOCK0;
        }
        int deviations = 0;
        for (int i = 0; i < 8; ++i)
            deviations += plan[i] != A_FULL;
        // every subset of the writes issued from another thread, for the plans with at most one deviation
        for (unsigned fm = 0; fm < (deviations <= 1 && !gDeep ? 1u << e.kinds.size() : 1u); ++fm)
        {
            e.foreign = fm;
            for (int ci = 0; ci <= (hasBlock ? 2 : 0); ++ci)
            {
                if (ci == 2 && (fm != 0 || deviations > 1))
                    continue; // (the streaming-handler variant: loop-thread writes, plans with one deviation)
                e.clientInputAtBlock = ci;
                ctx.note("c06 " + exec_desc(e));
                run_exec(e, ctx, steps);
                ++execs;
                ctx.poll_reports();
                if (ctx.case_violations > 6)
                    break;
            }
        }
        e.foreign = 0;
        // two writes, the second issued (and the transport flushed) by the completion of the first: one schedule per list
        if (e.kinds.size() == 2 && c.sched == 0 && !gDeep)
        {
            e.chain              = true;
            e.clientInputAtBlock = 0;
            ctx.note("c06 " + exec_desc(e));
            run_exec(e, ctx, steps);
            ++execs;
            ctx.poll_reports();
            e.chain = false;
        }
        if (ctx.case_violations > 6)
            break;
    }
    ctx.count("executions", execs);
    ctx.count("transitions", steps);
    if (idx % 37 == 0)
        ctx.sample("{\"last_execution\":" + vr::jstr(exec_desc(e)) + ",\"executions_in_case\":" + std::to_string(execs) + "}");
}

// ---- C07 ------------------------------------------------------------------------------------------------
struct C07
{
    int pending, blockAt, releaseAfter, arriveAt, order, split;
    int closer; // a third connection of the same worker goes away in the very batch in which A becomes writable again
    int fileAt = -1; // which of A's pending writes is a file (sendfile) instead of a raw buffer; -1: none
    int stale  = 0;  // a write for a connection that is already gone sits in the write queue ahead of B's response
    int again  = 0;  // after its release A accepts 3 more bytes and would-blocks a second time
    int reenter = 0; // the completion of A's first write calls back into the transport (flush), as the idle check's 408 does
    // > 0 (round 6): B sends no request; while A is blocked, flushq further writes for A and then B's answer are put into the
    // worker's write queue (as handler threads do), and the loop thread then flushes the transport (as a streaming handler of
    // A does with its chunk): a flush that meets a blocked connection must still deliver what is queued behind it
    int flushq = 0;
};
static std::vector<C07> gC07;

static void case_c07(uint64_t idx, vr::Ctx& ctx)
{
    const C07 c = gC07[idx];
    std::string desc = std::string(c.flushq ? "[while A is blocked: " + std::to_string(c.flushq) + " more write(s) for A and B's answer are queued from outside the loop, then the loop thread flushes] " : std::string()) + std::string(c.reenter ? "[the completion of A's first write re-enters the transport] " : "") + std::string(c.again ? "[A would-blocks a second time after its release] " : "") + std::string(c.stale ? "[a write for a vanished connection is queued ahead of B's response] " : "") + std::string(c.closer ? "[third connection closes when A is released] " : "") + (c.fileAt >= 0 ? "[A's write " + std::to_string(c.fileAt) + " is a file] " : std::string()) + "A: " + std::to_string(c.pending) + " pending writes, would-block at write call " + std::to_string(c.blockAt) + " released after " + std::to_string(c.releaseAfter) + " steps; B: request at step " + std::to_string(c.arriveAt) + (c.split ? " (in two reads)" : "") + "; event order " + (c.order ? "B first" : "A first");
    ctx.note("c07 " + desc);
    auto handler = std::make_shared<EchoHandler>();
    lp::Loop loop(handler);
    std::shared_ptr<Tcp::Peer> pa, pb;
    std::shared_ptr<Tcp::Peer> pc;
    int cc = c.closer ? loop.connect_peer(&pc) : -1; // created first: its descriptor number is the lowest
    std::shared_ptr<Tcp::Peer> pd;
    int cd     = c.stale ? loop.connect_peer(&pd) : -1;
    int fdGone = c.stale ? pd->fd() : -1;
    int ca = loop.connect_peer(&pa), cb = loop.connect_peer(&pb);
    loop.settle();
    if (c.stale)
    {
        // the fourth connection goes away now; the application still holds its Peer and will write to it later
        ::close(cd);
        for (auto& f : loop.clientFds)
            if (f == cd)
                f = -1;
        loop.settle();
    }
    const int fa = pa->fd(), fb = pb->fd();
    lp::World& W = lp::W();
    W.event_order = c.order ? std::vector<int> { fb, fa } : std::vector<int> { fa, fb };
    if (c.closer)
        W.event_order.insert(W.event_order.begin(), pc->fd()); // the departing peer's event is handled first
    for (int i = 0; i < c.blockAt; ++i)
        W.plan[fa].push_back({ lp::ACCEPT, 3 });
    W.plan[fa].push_back({ lp::BLOCK, 0 });
    if (c.again)
    {
        W.plan[fa].push_back({ lp::ACCEPT, 3 });
        W.plan[fa].push_back({ lp::BLOCK, 0 });
    }
    std::string expectA, gotA, gotB;
    std::vector<int> settledA(c.pending, 0);
    for (int i = 0; i < c.pending; ++i)
    {
        std::string dat = content(2 + (i % 2), i) + content(3, i).substr(0, 40);
        expectA += dat;
        int* sp = &settledA[i];
        if (i == c.fileAt)
        {
            std::string path = gFileDir + "/s" + std::to_string(getpid()) + "_" + std::to_string(i);
            FILE* f          = fopen(path.c_str(), "w");
            fwrite(dat.data(), 1, dat.size(), f);
            fclose(f);
            loop.transport->asyncWrite(fa, FileBuffer(path)).then([sp](ssize_t) { ++*sp; }, [sp](std::exception_ptr) { *sp += 100; });
            unlink(path.c_str()); // (the descriptor stays open inside the FileBuffer)
        }
        else if (c.reenter && i == 0)
        {
            Tcp::Transport* tr = loop.transport.get();
            loop.transport->asyncWrite(fa, RawBuffer(dat, dat.size())).then([sp, tr](ssize_t) { ++*sp; tr->flush(); }, [sp](std::exception_ptr) { *sp += 100; });
        }
        else
            loop.transport->asyncWrite(fa, RawBuffer(dat, dat.size())).then([sp](ssize_t) { ++*sp; }, [sp](std::exception_ptr) { *sp += 100; });
    }
    const std::string req = "GET /b HTTP/1.1\r\nHost: h\r\n\r\n";
    int heldSince = -1, arrived = -1, answeredAt = -1;
    uint64_t steps = 0;
    bool released  = false;
    for (int s = 0; s < 80; ++s)
    {
        if (s == c.arriveAt && c.flushq)
        {
            for (int k = 0; k < c.flushq; ++k)
            {
                std::string dat = "<extra" + std::to_string(k) + ">";
                expectA += dat;
                loop.transport->asyncWrite(fa, RawBuffer(dat, dat.size())).then([](ssize_t) {}, [](std::exception_ptr) {});
            }
            const std::string ans = "HTTP/1.1 200 OK\r\nContent-Length: 7\r\n\r\necho:/b";
            loop.transport->asyncWrite(fb, RawBuffer(ans, ans.size())).then([](ssize_t) {}, [](std::exception_ptr) {});
            loop.transport->flush();
            arrived = s;
        }
        else if (s == c.arriveAt)
        {
            if (c.stale)
                loop.transport->asyncWrite(fdGone, RawBuffer("gone", 4)).then([](ssize_t) {}, [](std::exception_ptr) {});
            lp::client_send(cb, c.split ? req.substr(0, 9) : req);
            arrived = s;
        }
        if (c.split && s == c.arriveAt + 1)
            lp::client_send(cb, req.substr(9));
        bool progressed = loop.step();
        ++steps;
        gotA += lp::client_recv_all(ca);
        gotB += lp::client_recv_all(cb);
        if (answeredAt < 0 && rfc::parse(gotB, true).ok)
            answeredAt = s;
        bool held = W.held.count(fa) && W.held[fa];
        if (held && heldSince < 0)
            heldSince = s;
        if (held && (!released || c.again) && s - heldSince >= c.releaseAfter)
        {
            if (c.closer && !released)
            {
                ::close(cc);                      // EOF on the third connection ...
                for (auto& f : loop.clientFds)
                    if (f == cc)
                        f = -1;
            }
            loop.release(fa);                     // ... in the same batch as A's writable edge
            released  = true;
            heldSince = -1;                       // (a second would-block period is timed on its own)
            continue;
        }
        if (!progressed && s > c.arriveAt + 2 && (released || heldSince < 0) && !held)
            break;
    }
    gotA += lp::client_recv_all(ca);
    std::string d = "{\"scenario\":" + vr::jstr(desc) + ",";
    if (W.livelock)
        ctx.violation("c07:busy-wait:write-retried-without-returning-to-the-poller", d + "\"consecutive_would_block\":" + std::to_string(W.max_consecutive_block) + "}");
    int limit = 4 + (c.split ? 1 : 0);
    if (answeredAt < 0)
        ctx.violation("c07:other-connection-not-answered", d + "\"response_bytes\":" + std::to_string(gotB.size()) + "}");
    else if (answeredAt - arrived > limit)
        ctx.violation("c07:other-connection-answered-late", d + "\"steps\":" + std::to_string(answeredAt - arrived) + "}");
    else
    {
        auto m = rfc::parse(gotB, true);
        if (m.status != 200 || m.body != "echo:/b" || m.consumed != gotB.size())
            ctx.violation("c07:other-connection-wrong-response", d + "\"response\":" + vr::jstr(vr::show(gotB.substr(0, 200))) + "}");
    }
    if (gotA != expectA)
        ctx.violation("c07:stalled-connection-data-not-delivered-after-release", d + "\"received\":" + std::to_string(gotA.size()) + ",\"expected\":" + std::to_string(expectA.size()) + "}");
    for (int i = 0; i < c.pending; ++i)
        if (settledA[i] != 1)
            ctx.violation("c07:stalled-connection-promise-not-fulfilled-once", d + "\"write\":" + std::to_string(i) + ",\"settled\":" + std::to_string(settledA[i]) + "}");
    ctx.count("executions", 1);
    ctx.count("transitions", steps);
    ctx.outcome("B answered after " + std::to_string(answeredAt - arrived) + " steps");
    ctx.nontrivial(vr::hash_str(desc));
    ctx.state(vr::hash_str(desc, answeredAt));
    if (idx % 101 == 0)
        ctx.sample("{\"scenario\":" + vr::jstr(desc) + ",\"B_answered_after_steps\":" + std::to_string(answeredAt - arrived) + "}");
    ctx.poll_reports();
}

int main(int argc, char** argv)
{
    vr::Options opt  = vr::parse_args(argc, argv);
    std::string mode = opt.get("mode", "c06");
    D                = opt.geti("D", 2);
    gReportBusyWait  = opt.geti("busywait", 0);
    bool thorough    = opt.geti("thorough", 0);
    gDeep            = opt.geti("deep", 0);
    gFileDir         = "/var/tmp/c06-files";
    mkdir(gFileDir.c_str(), 0755);
    if (mode == "c07")
    {
        for (int p = 1; p <= (thorough ? 4 : 3); ++p)
            for (int i = 0; i <= (thorough ? 6 : 4); ++i)
                for (int d = 1; d <= (thorough ? 6 : 4); ++d)
                    for (int j = 0; j <= (thorough ? 9 : 6); ++j)
                        for (int o = 0; o < 2; ++o)
                            for (int sp = 0; sp < 2; ++sp)
                                for (int cl = 0; cl < 2; ++cl)
                                {
                                    gC07.push_back({ p, i, d, j, o, sp, cl });
                                    // one of A's pending writes is a file body (first / last of them)
                                    if (!cl && !sp)
                                    {
                                        gC07.push_back({ p, i, d, j, o, sp, cl, -1, 1 });
                                        gC07.push_back({ p, i, d, j, o, sp, cl, -1, 0, 1 });
                                        if (p > 1)
                                            gC07.push_back({ p, i, d, j, o, sp, cl, -1, 0, 0, 1 });
                                        gC07.push_back({ p, i, d, j, o, sp, cl, 0 });
                                        if (p > 1)
                                            gC07.push_back({ p, i, d, j, o, sp, cl, p - 1 });
                                    }
                                }
        // a flush on the loop thread while A is blocked and entries for A and for B are queued from outside the loop
        for (int p = 1; p <= 2; ++p)
            for (int i = 0; i <= 2; ++i)
                for (int d = 1; d <= 3; ++d)
                    for (int j = 1; j <= 4; ++j)
                        for (int fq = 1; fq <= 2; ++fq)
                        {
                            C07 c { p, i, d, j, 0, 0, 0 };
                            c.flushq = fq;
                            gC07.push_back(c);
                        }
        // long queues behind the stall: far more pending writes than any per-turn batch
        for (int p : { 17, 33, 65 })
            for (int i : { 0, 2 })
                for (int j : { 0, 3 })
                    for (int o = 0; o < 2; ++o)
                        gC07.push_back({ p, i, 1, j, o, 0, 0 });
        return vr::run(opt, gC07.size(), case_c07);
    }
    const int nk = sizeof kKinds / sizeof kKinds[0];
    for (int a = 0; a < nk; ++a)
        gWriteLists.push_back({ a });
    for (int a = 0; a < nk && !gDeep; ++a)
        for (int b = 0; b < nk; ++b)
            gWriteLists.push_back({ a, b });
    if (!gDeep)
    {
        std::vector<int> three = thorough ? std::vector<int> { 1, 2, 3, 5, 6 } : std::vector<int> { 1, 2, 5 };
        for (int a : three)
            for (int b : three)
                for (int c : three)
                    gWriteLists.push_back({ a, b, c });
    }
    for (int n = 1; n <= 3; ++n)
        gSchedCache[n] = schedules(n);
    gen_plans();
    for (size_t l = 0; l < gWriteLists.size(); ++l)
        for (size_t s = 0; s < gSchedCache[gWriteLists[l].size()].size(); ++s)
            gCases.push_back({ (int)l, (int)s });
    if (opt.kv.count("print"))
    {
        printf("%zu cases x %zu plans\n", gCases.size(), gPlans.size());
        return 0;
    }
    return vr::run(opt, gCases.size(), case_c06);
}
