// C07, stalls measured in time: a connection whose socket does not accept data while the clock runs.
//
// Real Http::Endpoint (acceptor + 1 worker gated at epoll_wait, virtual time, header/body time-outs 1 s / 2 s, idle scan
// every 500 ms), scripted loopback clients A (stalled) and B (bystander), both served by the one worker.
//   A connects; the harness holds A's server-side socket in would-block; A sends a request whose response (small, or
//   70 000 bytes) therefore stays queued; the stall lasts k half-second ticks, k = 0..6 - shorter than, equal to and longer
//   than the idle time-out, which queues a 408 for A behind what is pending; during the stall, at tick i, A may send the
//   first half of a further request (input on the stalled connection that queues no write); at tick j, B connects, sends a
//   request and must be answered at once; then the socket accepts data again.
// Oracle: B is answered 200 in the very step its request arrives, whatever A's state; once A's socket accepts data again,
// everything that was pending for A arrives: the complete 200 response to its request first (a 408 and the close by the
// idle time-out may follow; if the server did not time A out, the further request is answered once A completes it); the
// endpoint's threads terminate.
#include "common/netsim.h"
#include "common/runner.h"

using namespace Pistache;

static std::vector<int> gPeerFds; // server-side descriptors in connection order
static size_t gBig = 70000;

class H : public Http::Handler
{
public:
    HTTP_PROTOTYPE(H)
    void onConnection(const std::shared_ptr<Tcp::Peer>& peer) override
    {
        gPeerFds.push_back(peer->fd());
        Http::Handler::onConnection(peer);
    }
    void onRequest(const Http::Request& req, Http::ResponseWriter w) override
    {
        if (req.resource() == "/big")
            w.send(Http::Code::Ok, std::string(gBig, 'B'));
        else
            w.send(Http::Code::Ok, "small:" + req.resource());
    }
};

struct Case
{
    int big;       // A's response: 0 small, 1 big
    int stall;     // ticks of 500 ms the socket stays blocked
    int inputAt;   // tick at which A sends half a further request during the stall (-1: never)
    int bAt;       // tick at which B makes its request (-1: never)
};
static std::vector<Case> gCases;

// first complete response in `in` (Content-Length framing): status, body; returns bytes consumed, 0 if incomplete
static size_t take_response(const std::string& in, int& status, std::string& body)
{
    size_t he = in.find("\r\n\r\n");
    if (he == std::string::npos || in.compare(0, 9, "HTTP/1.1 ") != 0)
        return 0;
    status     = atoi(in.c_str() + 9);
    size_t cl  = in.find("Content-Length: ");
    size_t len = (cl == std::string::npos || cl > he) ? 0 : strtoul(in.c_str() + cl + 16, nullptr, 10);
    if (in.size() < he + 4 + len)
        return 0;
    body = in.substr(he + 4, len);
    return he + 4 + len;
}

static void after(uint64_t& steps, bool expect)
{
    if (expect)
        sim::await_readiness();
    steps += sim::settle();
}

static void run_case(const Case& c, vr::Ctx& ctx)
{
    std::string what = std::string("A's response ") + (c.big ? "70000 bytes" : "small") + ", socket blocked for " + std::to_string(c.stall * 500) + " ms" + (c.inputAt >= 0 ? ", A sends half a further request at +" + std::to_string(c.inputAt * 500) + " ms" : "") + (c.bAt >= 0 ? ", B's request at +" + std::to_string(c.bAt * 500) + " ms" : "");
    ctx.note("stall " + what);
    gPeerFds.clear();
    sim::Server srv;
    auto handler = Http::make_handler<H>();
    auto opts    = Http::Endpoint::options().flags(Tcp::Options::ReuseAddr | Tcp::Options::NoDelay).maxRequestSize(4096).maxResponseSize(1 << 20).headerTimeout(std::chrono::seconds(1)).bodyTimeout(std::chrono::seconds(2));
    srv.start(handler, opts, 1);
    uint64_t steps = sim::settle();
    std::string d  = "{\"scenario\":" + vr::jstr(what) + ",";
    sim::ClientConn A, B;
    A.connect_to(srv.port);
    after(steps, true);
    if (gPeerFds.size() != 1)
    {
        ctx.violation("c07:harness:no-connection", d + "\"x\":0}");
        srv.stop();
        return;
    }
    const int afd = gPeerFds[0];
    sim::hold(afd);
    A.send_bytes(std::string("GET ") + (c.big ? "/big" : "/a") + " HTTP/1.1\r\nHost: h\r\n\r\n");
    after(steps, true);
    A.pump();
    bool bOk = true, bDone = false;
    auto b_request = [&] {
        B.connect_to(srv.port);
        after(steps, true);
        B.send_bytes("GET /b HTTP/1.1\r\nHost: h\r\n\r\n");
        after(steps, true);
        B.pump();
        int st = 0;
        std::string body;
        size_t n = take_response(B.received, st, body);
        bOk      = n && st == 200 && body == "small:/b" && n == B.received.size();
        bDone    = true;
        if (!bOk)
            ctx.violation("c07:idle:other-connection-not-answered-while-one-is-stalled", d + "\"b_received\":" + vr::jstr(vr::show(B.received.substr(0, 80))) + "}");
    };
    for (int t = 0; t <= c.stall; ++t)
    {
        if (t == c.inputAt)
        {
            A.send_bytes("GET /a2 HT");
            after(steps, true);
        }
        if (t == c.bAt)
            b_request();
        if (t < c.stall)
        {
            sim::tick(500);
            after(steps, false);
        }
    }
    // the socket accepts data again
    sim::release(afd);
    for (int r = 0; r < 40; ++r)
    {
        after(steps, false);
        A.pump();
    }
    int st1 = 0;
    std::string body1;
    size_t n1          = take_response(A.received, st1, body1);
    std::string expect = c.big ? std::string(gBig, 'B') : std::string("small:/a");
    std::string dd     = d + "\"a_received_bytes\":" + std::to_string(A.received.size()) + ",\"a_head\":" + vr::jstr(vr::show(A.received.substr(0, 60))) + ",\"closed_by_server\":" + (A.peerClosed ? "true" : "false") + "}";
    if (!n1 || st1 != 200 || body1 != expect)
        ctx.violation(std::string("c07:idle:pending-response-not-delivered-after-the-stall:") + (A.received.empty() ? "nothing-arrived" : n1 ? "wrong-response" : "incomplete"), dd);
    else
    {
        std::string rest = A.received.substr(n1);
        int st2          = 0;
        std::string body2;
        size_t n2 = take_response(rest, st2, body2);
        if (!rest.empty() && (!n2 || st2 != 408))
            ctx.violation("c07:idle:unexpected-bytes-after-the-pending-response", dd);
        if (!A.peerClosed && rest.empty() && c.inputAt >= 0)
        {
            // not timed out: the further request is completed now and must be answered (or timed out, not ignored)
            A.received.clear();
            A.send_bytes("TP/1.1\r\nHost: h\r\n\r\n");
            after(steps, true);
            A.pump();
            int st3 = 0;
            std::string body3;
            size_t n3 = take_response(A.received, st3, body3);
            if (!n3 || !((st3 == 200 && body3 == "small:/a2") || st3 == 408))
                ctx.violation("c07:idle:request-completed-after-the-stall-not-answered", d + "\"a_received\":" + vr::jstr(vr::show(A.received.substr(0, 80))) + "}");
            ctx.outcome("further request after the stall -> " + std::to_string(st3));
        }
        ctx.outcome(std::string("pending response delivered") + (rest.empty() ? "" : ", then 408") + (A.peerClosed ? ", closed" : ""));
    }
    ctx.state(vr::hash_str(what + "|" + std::to_string(A.received.size()) + "|" + (A.peerClosed ? "c" : "o") + (bDone ? (bOk ? "b1" : "b0") : "b-")));
    ctx.nontrivial(vr::hash_str(what));
    A.close_orderly();
    if (B.fd >= 0)
        B.close_orderly();
    after(steps, true);
    if (!srv.stop())
        ctx.violation("c07:idle:endpoint-threads-did-not-terminate", d + "\"x\":0}");
    ctx.count("executions", 1);
    ctx.count("transitions", steps);
    if ((vr::hash_str(what) & 15) == 0)
        ctx.sample("{\"stall_case\":" + vr::jstr(what) + ",\"a_received_bytes\":" + std::to_string(A.received.size()) + "}");
}

int main(int argc, char** argv)
{
    vr::Options opt = vr::parse_args(argc, argv);
    int maxStall    = opt.geti("max-stall", 6);
    for (int big = 0; big < 2; ++big)
        for (int stall = 0; stall <= maxStall; ++stall)
            for (int in = -1; in <= stall; ++in)
                for (int b = -1; b <= stall; ++b)
                    gCases.push_back({ big, stall, in, b });
    return vr::run(opt, gCases.size(), [](uint64_t idx, vr::Ctx& ctx) {
        try
        {
            run_case(gCases[idx], ctx);
        }
        catch (const sim::HarnessError& e)
        {
            ctx.violation("c07:harness:" + e.what.substr(0, 40), "{\"x\":0}");
            _exit(77);
        }
        ctx.poll_reports();
    });
}
