// C08: connection lifecycle is balanced - nothing leaks, nothing is released twice.
//
// A real Http::Endpoint (acceptor thread + 1 worker, both gated at epoll_wait, virtual time, header/body
// time-outs 1 s / 2 s) is driven by scripted loopback TCP clients. Every history of client events up to a
// depth bound over 1..2 connections is executed:
//   connect | send first half of a request | send the rest | send a whole request | read | close |
//   shutdown(WR) | abortive close (RST) | tick(+500 ms)   [thorough: + hold / release of the server's writes]
// followed by "all clients close; 6 ticks; run to quiescence". Oracle: per accepted connection onConnection
// exactly once and first, no input after onDisconnection, onDisconnection exactly once by quiescence; no
// close() of a descriptor that is not open; at quiescence the descriptor count is back at the idle baseline
// and the transport holds no peer, pending write or timer; a fresh connection is then still served; the
// endpoint's threads terminate on shutdown.
#include "common/netsim.h"
#include "common/runner.h"

using namespace Pistache;

enum EvKind { E_CONN,
              E_INPUT,
              E_DISC,
              E_REQUEST };
struct Ev
{
    size_t peer;
    int kind;
    int fd;
};
static std::vector<Ev> gLog;
static std::string gServeFile; // non-empty: every request is answered with this file (Http::serveFile)
static int gHandlerTimeoutMs = 0; // > 0: the handler arms a response time-out (ResponseWriter::timeoutAfter) before answering
static bool gPark = false;        // the handler does not answer: it keeps the ResponseWriter (time-out armed) until the end of the history
static bool gParkNow = true;      // (off for the probe connections after the history)
static std::vector<std::shared_ptr<Http::ResponseWriter>> gParked;

class RecHandler : public Http::Handler
{
public:
    HTTP_PROTOTYPE(RecHandler)
    void onConnection(const std::shared_ptr<Tcp::Peer>& peer) override
    {
        gLog.push_back(Ev { peer->getID(), E_CONN, peer->fd() });
        Http::Handler::onConnection(peer);
    }
    void onInput(const char* buffer, size_t len, const std::shared_ptr<Tcp::Peer>& peer) override
    {
        gLog.push_back(Ev { peer->getID(), E_INPUT, peer->fd() });
        Http::Handler::onInput(buffer, len, peer);
    }
    void onDisconnection(const std::shared_ptr<Tcp::Peer>& peer) override
    {
        gLog.push_back(Ev { peer->getID(), E_DISC, peer->fd() });
    }
    void onRequest(const Http::Request& req, Http::ResponseWriter w) override
    {
        gLog.push_back(Ev { (size_t)-1, E_REQUEST, 0 });
        if (gPark && gParkNow)
        {
            // an asynchronous handler: the writer moves to the heap, the time-out is armed there, nothing is sent
            auto pw = std::make_shared<Http::ResponseWriter>(std::move(w));
            if (gHandlerTimeoutMs > 0)
                pw->timeoutAfter(std::chrono::milliseconds(gHandlerTimeoutMs));
            gParked.push_back(pw);
            return;
        }
        if (gHandlerTimeoutMs > 0)
            w.timeoutAfter(std::chrono::milliseconds(gHandlerTimeoutMs));
        if (!gServeFile.empty())
            Http::serveFile(w, gServeFile);
        else
            w.send(Http::Code::Ok, "ok:" + req.resource());
    }
};

enum Act { A_CONNECT,
           A_SEND_A,
           A_SEND_B,
           A_SEND_W,
           A_READ,
           A_CLOSE,
           A_SHUTWR,
           A_RST,
           A_HOLD,
           A_RELEASE,
           A_TICK,
           // two client actions before the server's loops run again (data and FIN / RST in one wake-up)
           A_SEND_A_CLOSE,
           A_SEND_W_CLOSE,
           A_SEND_W_SHUTWR,
           A_SEND_W_RST,
           // time passes and the client acts before the server's loops run again (scan tick and socket event in one wake-up)
           A_TICK_SEND_W,
           A_TICK_SEND_B,
           A_TICK_CLOSE,
           A_TICK_RST,
           // environment fault: the next write of the server on that connection fails with ECONNRESET (a reset that
           // reaches the socket between the readiness report and the write)
           A_FAIL_WRITE,
           // environment fault: the server's next read on that connection fails with ETIMEDOUT (the peer vanished); the
           // client then sends a byte so that the server does read
           A_FAIL_READ,
           // composites (round 6): the connection is reset / closed by the client while it still sits in the listen backlog -
           // the acceptor gets it from accept4() only afterwards
           A_CONNECT_RST,
           A_CONNECT_CLOSE,
           // parked-response part only: the application answers, from its own thread (not the connection's worker), the
           // responses it has kept so far - their armed time-outs are disarmed from that thread
           A_APP_ANSWER };
static const char* kActNames[] = { "connect", "send-first-half", "send-rest", "send-request", "read", "close", "shutdown-wr", "rst", "hold-writes", "release-writes", "tick", "send-first-half+close", "send-request+close", "send-request+shutdown-wr", "send-request+rst", "tick+send-request", "tick+send-rest", "tick+close", "tick+rst", "next-write-fails", "next-read-fails+send-byte", "connect+rst", "connect+close", "application-answers-the-kept-responses" };
struct Step
{
    int8_t act, conn;
};
using History = std::vector<Step>;
static std::vector<History> gHistories;
static bool gFaults = false;
static int gTickMs  = 500;

struct CState
{
    int st       = 0; // 0 none, 1 open, 2 half-closed (WR shut), 3 gone
    bool partial = false;
    bool held    = false;
    bool failArmed = false;
};

static void gen(History& h, CState c[2], int nconn, int depth, int maxDepth)
{
    if (!h.empty())
        gHistories.push_back(h);
    if (depth == maxDepth)
        return;
    auto push = [&](int act, int conn, std::function<void(CState&)> apply) {
        CState saved[2] = { c[0], c[1] };
        if (conn >= 0)
            apply(c[conn]);
        h.push_back({ (int8_t)act, (int8_t)conn });
        gen(h, c, nconn, depth + 1, maxDepth);
        h.pop_back();
        c[0] = saved[0];
        c[1] = saved[1];
    };
    for (int k = 0; k < nconn; ++k)
    {
        CState& s = c[k];
        if (s.st == 0)
        {
            if (k == 0 || c[k - 1].st != 0) // symmetry: connection 1 only after connection 0
            {
                push(A_CONNECT, k, [](CState& x) { x.st = 1; });
                push(A_CONNECT_RST, k, [](CState& x) { x.st = 3; });
                push(A_CONNECT_CLOSE, k, [](CState& x) { x.st = 3; });
            }
            continue;
        }
        if (s.st == 1)
        {
            if (!s.partial)
            {
                push(A_SEND_A, k, [](CState& x) { x.partial = true; });
                push(A_SEND_W, k, [](CState&) {});
                push(A_SEND_A_CLOSE, k, [](CState& x) { x.st = 3; });
                push(A_SEND_W_CLOSE, k, [](CState& x) { x.st = 3; });
                push(A_SEND_W_SHUTWR, k, [](CState& x) { x.st = 2; });
                push(A_SEND_W_RST, k, [](CState& x) { x.st = 3; });
                push(A_TICK_SEND_W, k, [](CState&) {});
            }
            else
            {
                push(A_SEND_B, k, [](CState& x) { x.partial = false; });
                push(A_TICK_SEND_B, k, [](CState& x) { x.partial = false; });
            }
            push(A_SHUTWR, k, [](CState& x) { x.st = 2; });
        }
        if (s.st == 1 || s.st == 2)
        {
            push(A_READ, k, [](CState&) {});
            push(A_CLOSE, k, [](CState& x) { x.st = 3; });
            push(A_RST, k, [](CState& x) { x.st = 3; });
            push(A_TICK_CLOSE, k, [](CState& x) { x.st = 3; });
            push(A_TICK_RST, k, [](CState& x) { x.st = 3; });
            if (gFaults)
            {
                if (!s.failArmed)
                    push(A_FAIL_WRITE, k, [](CState& x) { x.failArmed = true; });
                if (s.st == 1)
                    push(A_FAIL_READ, k, [](CState& x) { x.st = 3; });
                if (!s.held)
                    push(A_HOLD, k, [](CState& x) { x.held = true; });
                else
                    push(A_RELEASE, k, [](CState& x) { x.held = false; });
            }
        }
    }
    bool any = c[0].st != 0;
    if (any)
        push(A_TICK, -1, [](CState&) {});
    if (any && gPark && (h.empty() || h.back().act != A_APP_ANSWER))
        push(A_APP_ANSWER, -1, [](CState&) {});
}

static std::string hist_str(const History& h)
{
    std::string s;
    for (auto& st : h)
        s += std::string(s.empty() ? "" : " ; ") + kActNames[st.act] + (st.conn >= 0 ? "#" + std::to_string(st.conn) : "");
    return s;
}

static const std::string kReqA = "GET /lifecycle HTTP/1.1\r\nHo";
static const std::string kReqB = "st: h\r\nConnection: keep-alive\r\n\r\n";

struct Run
{
    sim::Server srv;
    sim::ClientConn cl[2];
    int serverFd[2] = { -1, -1 };
    size_t peerId[2] = { 0, 0 };
    size_t baselineFds = 0;
    std::vector<int> zombies; // client ends of connections whose peer "vanished": kept open (no FIN, no RST) until the end
    ~Run()
    {
        static auto cl0 = sim::real<int (*)(int)>("close");
        for (int fd : zombies)
            cl0(fd);
    }
};

static int server_fd_of_latest_peer(size_t* id)
{
    for (size_t i = gLog.size(); i-- > 0;)
        if (gLog[i].kind == E_CONN)
        {
            *id = gLog[i].peer;
            return gLog[i].fd;
        }
    return -1;
}
// the server-side descriptor still belongs to that connection (descriptor numbers are reused)
static bool still_that_peer(sim::Server& srv, int fd, size_t id)
{
    for (auto& t : srv.transports())
    {
        auto it = t->peers.find(fd);
        if (it != t->peers.end() && it->second->getID() == id)
            return true;
    }
    return false;
}

static void run_history(const History& h, vr::Ctx& ctx, uint64_t& steps)
{
    gLog.clear();
    gParked.clear();
    gParkNow = true;
    Run r;
    auto handler = Http::make_handler<RecHandler>();
    auto opts    = Http::Endpoint::options().flags(Tcp::Options::ReuseAddr | Tcp::Options::NoDelay).maxRequestSize(4096).headerTimeout(std::chrono::seconds(1)).bodyTimeout(std::chrono::seconds(2));
    r.srv.start(handler, opts, 1);
    sim::S().hold_spares_send = !gServeFile.empty(); // file mode: "hold" stalls the file body, the header goes out
    steps += sim::settle();
    r.baselineFds = sim::list_fds().size();
    std::string d = "{\"history\":" + vr::jstr(hist_str(h)) + ",";
    auto after    = [&](bool expectEffect) {
        if (expectEffect)
            sim::await_readiness();
        steps += sim::settle();
        for (auto& c : r.cl)
            c.pump();
    };
    for (auto& st : h)
    {
        sim::ClientConn* c = st.conn >= 0 ? &r.cl[st.conn] : nullptr;
        switch (st.act)
        {
        case A_CONNECT:
            if (!c->connect_to(r.srv.port))
            {
                ctx.violation("c08:harness:connect-failed", d + "\"x\":0}");
                break;
            }
            after(true);
            r.serverFd[st.conn] = server_fd_of_latest_peer(&r.peerId[st.conn]);
            break;
        case A_CONNECT_RST:
        case A_CONNECT_CLOSE:
            if (!c->connect_to(r.srv.port))
            {
                ctx.violation("c08:harness:connect-failed", d + "\"x\":0}");
                break;
            }
            if (st.act == A_CONNECT_RST)
                c->reset();
            else
                c->close_orderly();
            after(true);
            r.serverFd[st.conn] = -1;
            break;
        case A_SEND_A:
            c->send_bytes(kReqA);
            after(true);
            break;
        case A_SEND_B:
            c->send_bytes(kReqB);
            after(true);
            break;
        case A_SEND_W:
            c->send_bytes(kReqA + kReqB);
            after(true);
            break;
        case A_SEND_A_CLOSE:
            c->send_bytes(kReqA);
            c->close_orderly();
            after(true);
            break;
        case A_SEND_W_CLOSE:
            c->send_bytes(kReqA + kReqB);
            c->close_orderly();
            after(true);
            break;
        case A_SEND_W_SHUTWR:
            c->send_bytes(kReqA + kReqB);
            c->shutdown_wr();
            after(true);
            break;
        case A_SEND_W_RST:
            c->send_bytes(kReqA + kReqB);
            c->reset();
            after(true);
            break;
        case A_READ:
            after(false);
            break;
        case A_CLOSE:
            c->close_orderly();
            after(true);
            break;
        case A_SHUTWR:
            c->shutdown_wr();
            after(true);
            break;
        case A_RST:
            c->reset();
            after(true);
            break;
        case A_HOLD:
            if (r.serverFd[st.conn] >= 0 && still_that_peer(r.srv, r.serverFd[st.conn], r.peerId[st.conn]))
                sim::hold(r.serverFd[st.conn]);
            break;
        case A_RELEASE:
            if (r.serverFd[st.conn] >= 0 && sim::S().held.count(r.serverFd[st.conn]) && still_that_peer(r.srv, r.serverFd[st.conn], r.peerId[st.conn]))
                sim::release(r.serverFd[st.conn]);
            after(false);
            break;
        case A_TICK:
            sim::tick(gTickMs);
            after(false);
            break;
        case A_APP_ANSWER: {
            bool sent = false;
            for (auto& pw : gParked)
            {
                try
                {
                    pw->send(Http::Code::Ok, "late");
                    sent = true;
                }
                catch (const std::exception&)
                {
                    // the connection is gone: nothing to answer
                }
            }
            gParked.clear();
            after(sent);
            break;
        }
        case A_TICK_SEND_W:
            sim::tick(gTickMs);
            c->send_bytes(kReqA + kReqB);
            after(true);
            break;
        case A_TICK_SEND_B:
            sim::tick(gTickMs);
            c->send_bytes(kReqB);
            after(true);
            break;
        case A_TICK_CLOSE:
            sim::tick(gTickMs);
            c->close_orderly();
            after(true);
            break;
        case A_TICK_RST:
            sim::tick(gTickMs);
            c->reset();
            after(true);
            break;
        case A_FAIL_WRITE:
            if (r.serverFd[st.conn] >= 0 && still_that_peer(r.srv, r.serverFd[st.conn], r.peerId[st.conn]))
                sim::fail_next_write(r.serverFd[st.conn], ECONNRESET);
            break;
        case A_FAIL_READ:
            if (r.serverFd[st.conn] >= 0 && still_that_peer(r.srv, r.serverFd[st.conn], r.peerId[st.conn]))
            {
                sim::fail_next_read(r.serverFd[st.conn], ETIMEDOUT);
                c->send_bytes("G");
                after(true);
                // the peer has vanished: nothing more comes from it, not even a FIN or RST (its descriptor stays open,
                // unused, until the end of the history)
                r.zombies.push_back(c->fd);
                c->fd = -1;
            }
            break;
        }
    }
    // epilogue: everybody leaves, time passes, loops run dry
    for (int k = 0; k < 2; ++k)
        if (r.cl[k].fd >= 0)
        {
            if (r.serverFd[k] >= 0 && sim::S().held.count(r.serverFd[k]) && sim::S().held[r.serverFd[k]])
                sim::release(r.serverFd[k]);
            r.cl[k].close_orderly();
            after(true);
        }
    // every client is gone (orderly close or reset) and the loops have run dry: the connections must have been
    // released by now - not only later, when the idle time-out happens to reap them
    {
        size_t peersNow = 0;
        for (auto& t : r.srv.transports())
            peersNow += t->peers.size();
        size_t fdsNow0 = sim::list_fds().size() - r.zombies.size();
        if (gPark) // (the responses the application still holds own their armed timers: descriptors are compared at the end)
            fdsNow0 = std::min(fdsNow0, r.baselineFds);
        if (peersNow || fdsNow0 > r.baselineFds)
            ctx.violation("c08:connection-not-released-when-the-client-is-gone:only-the-time-out-would-reap-it", d + "\"peers\":" + std::to_string(peersNow) + ",\"descriptors_over_baseline\":" + std::to_string((long)fdsNow0 - (long)r.baselineFds) + "}");
    }
    for (int t = 0; t < 6; ++t)
    {
        sim::tick(500);
        after(false);
    }
    // the application lets go of the responses it kept (their time-outs have fired or are disarmed here)
    gParked.clear();
    gParkNow = false;
    steps += sim::settle();

    // ---- oracle -----------------------------------------------------------------------------------------
    std::map<size_t, std::vector<int>> perPeer;
    for (auto& e : gLog)
        if (e.kind != E_REQUEST)
            perPeer[e.peer].push_back(e.kind);
    int accepted = 0;
    for (auto& kv : perPeer)
    {
        ++accepted;
        const auto& v = kv.second;
        int conns = 0, discs = 0;
        bool inputAfterDisc = false, connFirst = !v.empty() && v[0] == E_CONN;
        for (int k : v)
        {
            if (k == E_CONN)
                ++conns;
            if (k == E_DISC)
                ++discs;
            if (k == E_INPUT && discs > 0)
                inputAfterDisc = true;
        }
        std::string seq;
        for (int k : v)
            seq += k == E_CONN ? "C" : k == E_INPUT ? "I" : "D";
        std::string dd = d + "\"handler_events\":" + vr::jstr(seq) + "}";
        if (conns != 1 || !connFirst)
            ctx.violation("c08:onConnection-not-exactly-once-and-first", dd);
        if (inputAfterDisc)
            ctx.violation("c08:input-after-onDisconnection", dd);
        if (discs == 0)
            ctx.violation("c08:onDisconnection-never-called", dd);
        else if (discs > 1)
            ctx.violation("c08:onDisconnection-called-more-than-once", dd);
        ctx.outcome("peer events " + seq);
    }
    if (!sim::S().bad_closes.empty())
        ctx.violation("c08:close-of-a-descriptor-that-is-not-open", d + "\"fd\":" + std::to_string(sim::S().bad_closes[0]) + "}");
    size_t fdsNow = sim::list_fds().size() - r.zombies.size();
    auto ts       = r.srv.transports();
    size_t peers = 0, towrite = 0, timers = 0;
    for (auto& t : ts)
    {
        peers += t->peers.size();
        towrite += t->toWrite.size();
        timers += t->timers.size();
    }
    if (peers)
        ctx.violation("c08:peers-left-after-all-clients-gone", d + "\"peers\":" + std::to_string(peers) + "}");
    if (towrite)
        ctx.violation("c08:write-queues-left-after-all-clients-gone", d + "\"entries\":" + std::to_string(towrite) + "}");
    if (timers)
        ctx.violation("c08:timers-left-after-all-clients-gone", d + "\"timers\":" + std::to_string(timers) + "}");
    if (fdsNow != r.baselineFds)
        ctx.violation(fdsNow > r.baselineFds ? "c08:descriptors-leaked" : "c08:descriptors-below-baseline", d + "\"now\":" + std::to_string(fdsNow) + ",\"baseline\":" + std::to_string(r.baselineFds) + "}");
    // the server must still serve
    {
        sim::ClientConn probe;
        bool ok = probe.connect_to(r.srv.port);
        if (ok)
        {
            sim::await_readiness();
            steps += sim::settle();
            probe.send_bytes(kReqA + kReqB);
            sim::await_readiness();
            steps += sim::settle();
            probe.pump();
            ok = probe.received.compare(0, 12, "HTTP/1.1 200") == 0;
            // exactly one response, and it is the answer to the probe's own request
            {
                size_t bodyAt = probe.received.find("\r\n\r\n");
                ok            = ok && bodyAt != std::string::npos && probe.received.substr(bodyAt + 4) == (gServeFile.empty() ? std::string("ok:/lifecycle") : std::string(3000, 'f')) && probe.received.find("HTTP/1.1", 8) == std::string::npos;
            }
            probe.close_orderly();
            sim::await_readiness();
            steps += sim::settle();
        }
        if (!ok)
            ctx.violation("c08:server-does-not-serve-a-fresh-connection-afterwards", d + "\"response\":" + vr::jstr(vr::show(probe.received.substr(0, 80))) + "}");
    }
    // ... and must still reap a connection that stays silent: answered 408 and closed by the idle time-out (1 s, scanned
    // every 500 ms), told to the handler, everything released again (whatever the history left behind for that
    // descriptor number)
    {
        sim::ClientConn silent;
        if (silent.connect_to(r.srv.port))
        {
            sim::await_readiness();
            steps += sim::settle();
            size_t discBefore = 0;
            for (auto& e : gLog)
                discBefore += e.kind == E_DISC;
            int waited = 0;
            for (; waited < 2500 && !silent.peerClosed; waited += 500)
            {
                sim::tick(500);
                steps += sim::settle();
                silent.pump();
            }
            size_t discAfter = 0;
            for (auto& e : gLog)
                discAfter += e.kind == E_DISC;
            std::string dd = d + "\"waited_ms\":" + std::to_string(waited) + ",\"received\":" + vr::jstr(vr::show(silent.received.substr(0, 40))) + ",\"closed_by_server\":" + (silent.peerClosed ? "true" : "false") + "}";
            if (!silent.peerClosed || silent.received.compare(0, 12, "HTTP/1.1 408") != 0)
                ctx.violation("c08:silent-connection-afterwards-not-reaped-by-the-idle-time-out", dd);
            else if (discAfter != discBefore + 1)
                ctx.violation("c08:silent-connection-afterwards:disconnection-not-told-exactly-once", dd);
            silent.close_orderly();
            sim::await_readiness();
            steps += sim::settle();
            if (sim::list_fds().size() - r.zombies.size() != r.baselineFds)
                ctx.violation("c08:silent-connection-afterwards:descriptors-not-back-at-baseline", dd);
        }
    }
    if (sim::S().livelock)
        ctx.violation("c08:busy-wait-observed", d + "\"x\":0}");
    bool stopped = r.srv.stop();
    if (!stopped)
        ctx.violation("c08:endpoint-threads-did-not-terminate-on-shutdown", d + "\"x\":0}");
    ctx.state(vr::hash_str(hist_str(h) + "|" + std::to_string(accepted) + "|" + std::to_string(fdsNow - r.baselineFds)));
    ctx.nontrivial(vr::hash_str(hist_str(h)));
}

static const uint64_t kBlock = 16;

// ---- connection bursts: n clients connect while the worker does not run; the acceptor takes them all, then the worker
// wakes up once for the whole lot. Every one of them must be announced, served, told of its disconnection and released
// (sizes around powers of two: internal batch sizes and backlog constants are of that kind) ------------------------
static const int kBursts[] = { 1, 2, 63, 64, 65, 127, 128, 129, 255, 256, 257 };
static void run_burst(int n, vr::Ctx& ctx, uint64_t& steps)
{
    gLog.clear();
    sim::Server srv;
    auto handler = Http::make_handler<RecHandler>();
    auto opts    = Http::Endpoint::options().flags(Tcp::Options::ReuseAddr | Tcp::Options::NoDelay).maxRequestSize(4096).headerTimeout(std::chrono::seconds(60)).bodyTimeout(std::chrono::seconds(60));
    srv.start(handler, opts, 1);
    steps += sim::settle();
    size_t baseline = sim::list_fds().size();
    std::string d   = "{\"burst\":" + std::to_string(n) + ",";
    {
        std::vector<std::unique_ptr<sim::ClientConn>> cl;
        for (int i = 0; i < n; ++i)
        {
            cl.emplace_back(new sim::ClientConn());
            if (!cl.back()->connect_to(srv.port))
                throw sim::HarnessError { "burst: connect failed" };
            // only the acceptor runs: the connections pile up in the worker's queue
            sim::await_readiness(20);
            for (int k = 0; k < 4 && sim::actor_ready(0); ++k)
            {
                sim::step_actor(0);
                ++steps;
            }
        }
        sim::await_readiness();
        steps += sim::settle(4000);
        size_t conns = 0;
        for (auto& e : gLog)
            conns += e.kind == E_CONN;
        if ((int)conns != n)
            ctx.violation("c08:burst:accepted-connections-not-announced-to-the-handler", d + "\"announced\":" + std::to_string(conns) + "}");
        for (auto& c : cl)
            c->send_bytes(kReqA + kReqB);
        sim::await_readiness();
        steps += sim::settle(8000);
        int answered = 0;
        for (auto& c : cl)
        {
            c->pump();
            answered += c->received.compare(0, 12, "HTTP/1.1 200") == 0;
        }
        if (answered != n)
            ctx.violation("c08:burst:connections-not-served", d + "\"answered\":" + std::to_string(answered) + "}");
        for (auto& c : cl)
            c->close_orderly();
        sim::await_readiness();
        steps += sim::settle(8000);
    }
    size_t discs = 0;
    for (auto& e : gLog)
        discs += e.kind == E_DISC;
    size_t peers = 0;
    for (auto& t : srv.transports())
        peers += t->peers.size();
    size_t fdsNow = sim::list_fds().size();
    if ((int)discs != n)
        ctx.violation("c08:burst:disconnections-not-told", d + "\"told\":" + std::to_string(discs) + "}");
    if (peers)
        ctx.violation("c08:peers-left-after-all-clients-gone", d + "\"peers\":" + std::to_string(peers) + "}");
    if (fdsNow != baseline)
        ctx.violation(fdsNow > baseline ? "c08:descriptors-leaked" : "c08:descriptors-below-baseline", d + "\"now\":" + std::to_string(fdsNow) + ",\"baseline\":" + std::to_string(baseline) + "}");
    if (!srv.stop())
        ctx.violation("c08:endpoint-threads-did-not-terminate-on-shutdown", d + "\"x\":0}");
    ctx.outcome("burst served");
    ctx.state(vr::hash_str("burst" + std::to_string(n)));
    ctx.nontrivial(vr::hash_str("burst" + std::to_string(n)));
}

int main(int argc, char** argv)
{
    vr::Options opt = vr::parse_args(argc, argv);
    int d1          = opt.geti("d1", 5);
    int d2          = opt.geti("d2", 4);
    gFaults         = opt.geti("faults", 0);
    gTickMs           = opt.geti("tick", 500);
    gHandlerTimeoutMs = opt.geti("handler-timeout-ms", 0);
    gPark             = opt.geti("park", 0) != 0;
    if (opt.geti("files", 0))
    {
        // responses are files: a response in flight holds one more descriptor, which has to go with the connection
        gServeFile = "/var/tmp/c08-body-" + std::to_string(getpid());
        FILE* f    = fopen(gServeFile.c_str(), "w");
        std::string body(3000, 'f');
        fwrite(body.data(), 1, body.size(), f);
        fclose(f);
        atexit([] { unlink(gServeFile.c_str()); });
    }
    {
        History h;
        CState c[2];
        gen(h, c, 1, 0, d1);
    }
    size_t n1 = gHistories.size();
    {
        History h;
        CState c[2];
        std::vector<History> keep;
        keep.swap(gHistories);
        gen(h, c, 2, 0, d2);
        // keep only histories that really use the second connection
        for (auto& x : gHistories)
        {
            bool uses1 = false;
            for (auto& s : x)
                uses1 |= s.conn == 1;
            if (uses1)
                keep.push_back(x);
        }
        gHistories.swap(keep);
    }
    if (opt.kv.count("history"))
    {
        // debugging aid: run only the histories whose text equals the argument
        std::vector<History> keep;
        for (auto& x : gHistories)
            if (hist_str(x) == opt.get("history", ""))
                keep.push_back(x);
        gHistories.swap(keep);
    }
    if (opt.kv.count("print"))
    {
        printf("%zu histories (%zu single-connection)\n", gHistories.size(), n1);
        for (size_t i = 0; i < gHistories.size(); i += 97)
            printf("  %s\n", hist_str(gHistories[i]).c_str());
        return 0;
    }
    static uint64_t nHist;
    static bool bursts;
    nHist           = (gHistories.size() + kBlock - 1) / kBlock;
    bursts          = !gFaults && gServeFile.empty() && gHandlerTimeoutMs == 0 && !gPark && !opt.kv.count("history"); // (plain part only)
    uint64_t ncases = nHist + (bursts ? sizeof kBursts / sizeof kBursts[0] : 0);
    return vr::run(opt, ncases, [](uint64_t idx, vr::Ctx& ctx) {
        uint64_t steps = 0, execs = 0;
        if (idx >= nHist)
        {
            int n = kBursts[idx - nHist];
            ctx.note("burst of " + std::to_string(n) + " connections");
            try
            {
                run_burst(n, ctx, steps);
            }
            catch (const sim::HarnessError& e)
            {
                ctx.violation("c08:harness:" + e.what.substr(0, 40), "{\"burst\":" + std::to_string(n) + "}");
                _exit(77);
            }
            ctx.poll_reports();
            ctx.count("executions", 1);
            ctx.count("transitions", steps);
            ctx.sample("{\"burst\":" + std::to_string(n) + "}");
            return;
        }
        for (uint64_t i = idx * kBlock; i < (idx + 1) * kBlock && i < gHistories.size(); ++i)
        {
            ctx.note("history " + hist_str(gHistories[i]));
            try
            {
                run_history(gHistories[i], ctx, steps);
            }
            catch (const sim::HarnessError& e)
            {
                ctx.violation("c08:harness:" + e.what.substr(0, 40), "{\"history\":" + vr::jstr(hist_str(gHistories[i])) + "}");
                _exit(77);
            }
            ++execs;
            ctx.poll_reports();
            if (ctx.case_violations > 8)
                break;
        }
        ctx.count("executions", execs);
        ctx.count("transitions", steps);
        if (idx % 53 == 0)
            ctx.sample("{\"history\":" + vr::jstr(hist_str(gHistories[idx * kBlock])) + "}");
    });
}
