// C09: multi-threaded serving is race-free and shuts down cleanly.
//
// Real Http::Endpoint with w gated workers + acceptor, one Rest::Router SHARED by all workers (routes under
// GET/POST/PUT, none under DELETE/PATCH), c scripted keep-alive clients issuing r tagged requests each.
// Deviation-bounded DFS over the orders of {acceptor step, worker_i step, client_j next action}: the default
// schedule runs the loops dry before a client moves; a deviation is any other enabled choice. For every prefix of
// every explored schedule (mode=shutdown) shutdown() is issued there and all threads must terminate.
// Oracle: every request gets exactly one response computed from that request alone (tag, method, parameter),
// unknown-method requests get 405 with the exact Allow set; the TSan build of the same harness (raw-futex gate:
// no happens-before from the scheduler) must raise no race report.
#include "common/netsim.h"
#include "common/rfc7230.h"
#include "common/runner.h"

#include <pistache/router.h>

using namespace Pistache;

static int W = 2, C = 2, R = 1, D = 1;
static bool gSelfTestRace = false;
static int gRacyCounter    = 0;

struct ReqSpec
{
    const char* method;
    std::string path;
    std::string body;
};
static std::vector<std::vector<ReqSpec>> gScripts; // per client

// expected response for a request (what a correct server computes from that request alone)
static std::string expected_body(const ReqSpec& q)
{
    std::string m = q.method;
    if (m == "GET")
        return "get:" + q.path.substr(3);
    if (m == "POST")
        return "post:" + q.path.substr(3) + ":" + q.body;
    if (m == "PUT")
        return "put:" + q.path.substr(3);
    return "";
}

// asyncReply: the handler hands the response writer to a thread of its own, which answers later (a handler that
// completes asynchronously); the thread is captured by the gate and scheduled like the framework's threads
static bool gAsyncReply = false;
static std::vector<std::thread> gResponders[NG_MAX_ACTORS]; // one list per creating thread (no lock: no extra ordering)
// splitReply: the answer is written through the transport in two raw pieces - the first queued by the handler on the
// event-loop thread, the second written and flushed by a thread of the handler's own - while the connection accepts
// one write and then answers would-block until it is released
static bool gSplitReply = false;
// flushReply: PUT requests are answered on the event-loop thread by streaming the body and flushing it (the flush drains
// the worker's mailbox on the handler's initiative); every other request is answered later by a thread of the handler's
// own, through that mailbox. Threads also yield before every read of an eventfd.
static bool gFlushReply = false;
static void reply(Http::ResponseWriter& w, const std::string& body)
{
    if (gFlushReply && body.compare(0, 4, "put:") == 0)
    {
        auto s = w.stream(Http::Code::Ok);
        s << body.c_str();
        s << Http::flush;
        s << Http::ends;
        return;
    }
    if (gSplitReply)
    {
        std::string wire = "HTTP/1.1 200 OK\r\nConnection: Keep-Alive\r\nContent-Length: " + std::to_string(body.size()) + "\r\n\r\n" + body;
        size_t cut       = wire.size() - body.size() / 2 - 1;
        std::string head = wire.substr(0, cut), tail = wire.substr(cut);
        Tcp::Transport* tr = w.transport_;
        int fd             = w.peer()->fd();
        tr->asyncWrite(fd, RawBuffer(head, head.size())).then([](ssize_t) {}, [](std::exception_ptr) {});
        // (the second piece goes through the transport's mailbox like any write from another thread; the handler's
        // thread does not call Transport::flush(): that would make it a second consumer of the single-consumer mailbox,
        // which races with the loop's own drain on the unchanged tree already)
        auto body2 = [tr, fd, tail]() { tr->asyncWrite(fd, RawBuffer(tail, tail.size())).then([](ssize_t) {}, [](std::exception_ptr) {}); };
        {
            sim::TsanIgnore ign; // the harness's own bookkeeping, joined from the controller
            gResponders[ng_self() < 0 ? 0 : ng_self()].emplace_back(body2);
        }
        return;
    }
    if (!gAsyncReply && !gFlushReply)
    {
        w.send(Http::Code::Ok, body);
        return;
    }
    auto shared = std::make_shared<Http::ResponseWriter>(std::move(w));
    auto body1  = [shared, body]() { shared->send(Http::Code::Ok, body); };
    sim::TsanIgnore ign; // the harness's own bookkeeping, joined from the controller
    gResponders[ng_self() < 0 ? 0 : ng_self()].emplace_back(body1);
}

static std::shared_ptr<Rest::Router> make_router()
{
    auto router = std::make_shared<Rest::Router>();
    Rest::Routes::Get(*router, "/g/:tag", [](const Rest::Request& req, Http::ResponseWriter w) {
        if (gSelfTestRace)
            ++gRacyCounter; // (self-test) second site of the deliberate race, reached through a different Route object
        reply(w, "get:" + req.param(":tag").as<std::string>());
        return Rest::Route::Result::Ok;
    });
    Rest::Routes::Post(*router, "/p/:tag", [](const Rest::Request& req, Http::ResponseWriter w) {
        reply(w, "post:" + req.param(":tag").as<std::string>() + ":" + req.body());
        return Rest::Route::Result::Ok;
    });
    Rest::Routes::Put(*router, "/u/:tag", [](const Rest::Request& req, Http::ResponseWriter w) {
        if (gSelfTestRace)
        {
            ++gRacyCounter;
            if (getenv("C09_DEBUG"))
                fprintf(stderr, "racy++ by actor %d -> %d\n", ng_self(), gRacyCounter);
        } // deliberate unsynchronised access from two workers: the TSan pass must see it
        reply(w, "put:" + req.param(":tag").as<std::string>());
        return Rest::Route::Result::Ok;
    });
    Rest::Routes::Get(*router, "/u/:tag", [](const Rest::Request& req, Http::ResponseWriter w) {
        reply(w, "getu:" + req.param(":tag").as<std::string>());
        return Rest::Route::Result::Ok;
    });
    return router;
}

static std::string wire(const ReqSpec& q)
{
    std::string s = std::string(q.method) + " " + q.path + " HTTP/1.1\r\nHost: h\r\nConnection: keep-alive\r\n";
    if (!q.body.empty())
        s += "Content-Length: " + std::to_string(q.body.size()) + "\r\n";
    return s + "\r\n" + q.body;
}

struct ClientState
{
    sim::ClientConn conn;
    int next       = -1;   // -1: not connected; k: about to send request k; scripts.size(): done
    bool awaiting  = false;
    std::vector<std::string> responses; // raw, one per request
};

struct Exec
{
    std::vector<uint8_t> choices;
    std::vector<uint8_t> nEnabled;
    std::vector<uint8_t> isDeviation;
    bool ok = true;
};

// one execution following `prefix`, then default choices; shutdownAt >= 0: issue shutdown() before that point
static bool gPollReports = true;
static int gAcceptFaults = 0;     // the first n accepts fail for lack of descriptors (EMFILE), then succeed
static bool gGatedStart  = false; // the endpoint's threads wait for the scheduler before their first instruction
static bool gSlowAcceptor = false; // (with gFine) an acceptor parked before a lock acquisition - in the middle of handing a
                                   // connection over - comes last in the order: by default everything else runs first
static bool gFine        = false; // server threads also park before every mutex acquisition (finer than one epoll batch)
static Exec run_one(const std::vector<uint8_t>& prefix, int shutdownAt, vr::Ctx& ctx, uint64_t& steps, const std::string& label)
{
    Exec x;
    sim::Server srv;
    auto router  = make_router();
    auto handler = Rest::Router::handler(router);
    auto opts    = Http::Endpoint::options().flags(Tcp::Options::ReuseAddr | Tcp::Options::NoDelay).maxRequestSize(4096);
    srv.start(handler, opts, W, gGatedStart);
    if (gFine)
        for (int a = 0; a < 1 + W; ++a)
            ng_set_fine(a, 1);
    sim::S().accept_failures = gAcceptFaults;
    if (gFlushReply)
    {
        sim::TsanIgnore ign;
        sim::S().eventfd_read_is_a_point = true;
    }
    if (gAsyncReply || gSplitReply || gFlushReply)
    {
        sim::TsanIgnore ign;
        sim::S().park_threads_at_start = true; // threads created from now on (the handlers' own) wait to be scheduled
    }
    if (gSplitReply)
    {
        sim::TsanIgnore ign;
        sim::S().block_after_sends    = 1;    // a connection takes one write, then answers would-block until released
        sim::S().epoll_ctl_is_a_point = true; // the window between a critical section and the change of poller interest
    }
    std::vector<ClientState> cl(C);
    std::string trace;
    auto detail = [&](const std::string& extra) {
        return "{\"scenario\":" + vr::jstr(label) + ",\"schedule\":" + vr::jstr(trace) + "," + extra + "}";
    };
    auto collect = [&](ClientState& c) {
        c.conn.pump();
        // split complete responses off the stream
        for (;;)
        {
            rfc::Message m = rfc::parse(c.conn.received, true);
            if (!m.ok)
                break;
            c.responses.push_back(c.conn.received.substr(0, m.consumed));
            c.conn.received.erase(0, m.consumed);
            c.awaiting = false;
        }
    };
    bool shutDown = false;
    int lastActor = -1;
    for (int point = 0; point < (gFine ? 4000 : 400); ++point)
    {
        if (point == shutdownAt)
        {
            shutDown = true;
            break;
        }
        for (auto& c : cl)
            collect(c);
        // enabled actors in canonical order: loops first (acceptor, workers), then clients
        std::vector<int> en;
        // (splitReply) the thread that ran last comes first while it stays ready: switching away from it is the
        // deviation, letting it run on is not
        if (gSplitReply && lastActor >= 0 && sim::actor_ready(lastActor))
            en.push_back(lastActor);
        bool acceptorLast = gSlowAcceptor && sim::actor_ready(0) && ng_is_parked(0) && ng_kind(0) == 1;
        for (int a = 0; a < ng_count(); ++a) // acceptor, workers, and (asyncReply) the handlers' own threads
            if (sim::actor_ready(a) && !(gSplitReply && a == lastActor) && !(acceptorLast && a == 0) && !(gFlushReply && a > W))
                en.push_back(a);
        for (int j = 0; j < C; ++j)
        {
            auto& c = cl[j];
            if (c.next < (int)gScripts[j].size() && !c.awaiting)
                en.push_back(100 + j);
        }
        if (acceptorLast)
            en.push_back(0);
        // (flushReply) the handlers' own threads are slow: by default they answer when nothing else can move; a deviation
        // lets one of them answer at any earlier point, e.g. in the middle of another connection's flush
        if (gFlushReply)
            for (int a = W + 1; a < ng_count(); ++a)
                if (sim::actor_ready(a))
                    en.push_back(a);
        // a connection that answers would-block starts accepting data again (last in the order: everything else first)
        std::vector<int> heldFds;
        if (gSplitReply)
        {
            sim::TsanIgnore ign;
            for (auto& kv : sim::S().held)
                if (kv.second)
                    heldFds.push_back(kv.first);
            for (size_t k = 0; k < heldFds.size(); ++k)
                en.push_back(300 + (int)k);
        }
        if (en.empty())
        {
            // nothing enabled: give the kernel a moment in case a client action has not landed yet
            bool pending = false;
            for (auto& c : cl)
                pending |= c.awaiting;
            if (pending && sim::await_readiness(40))
                continue;
            break;
        }
        size_t i   = x.choices.size();
        int choice = i < prefix.size() ? prefix[i] : 0;
        if (choice >= (int)en.size())
        {
            ctx.violation("c09:harness:nondeterministic-replay", detail("\"point\":" + std::to_string(i)));
            x.ok = false;
            break;
        }
        x.choices.push_back((uint8_t)choice);
        x.nEnabled.push_back((uint8_t)en.size());
        int act = en[choice];
        trace += (act >= 300 ? "release" + std::to_string(act - 300) : act >= 100 ? "c" + std::to_string(act - 100) : act == 0 ? std::string("A") : act <= W ? "w" + std::to_string(act) : "t" + std::to_string(act)) + " ";
        lastActor = act < 100 ? act : -1;
        if (act >= 300)
        {
            sim::release(heldFds[act - 300]);
            sim::await_readiness(20);
        }
        else if (act < 100)
        {
            sim::step_actor(act);
            ++steps;
        }
        else
        {
            auto& c = cl[act - 100];
            if (c.next < 0)
            {
                c.conn.connect_to(srv.port);
                c.next = 0;
            }
            else
            {
                c.conn.send_bytes(wire(gScripts[act - 100][c.next]));
                c.next++;
                c.awaiting = true;
            }
            sim::await_readiness(40);
        }
    }
    if (!shutDown)
    {
        for (auto& c : cl)
            collect(c);
        // every request answered exactly once with its own response
        for (int j = 0; j < C && x.ok; ++j)
        {
            auto& c = cl[j];
            if (c.responses.size() != gScripts[j].size() || !c.conn.received.empty())
            {
                ctx.violation("c09:responses-missing-or-extra", detail("\"client\":" + std::to_string(j) + ",\"responses\":" + std::to_string(c.responses.size()) + ",\"requests\":" + std::to_string(gScripts[j].size()) + ",\"leftover\":" + vr::jstr(vr::show(c.conn.received.substr(0, 80)))));
                x.ok = false;
                break;
            }
            for (size_t k = 0; k < c.responses.size(); ++k)
            {
                const ReqSpec& q = gScripts[j][k];
                rfc::Message m   = rfc::parse(c.responses[k], true);
                std::string exp  = expected_body(q);
                if (!exp.empty())
                {
                    if (m.status != 200 || m.body != exp)
                    {
                        ctx.violation("c09:response-not-computed-from-its-request", detail("\"client\":" + std::to_string(j) + ",\"request\":" + vr::jstr(std::string(q.method) + " " + q.path) + ",\"status\":" + std::to_string(m.status) + ",\"body\":" + vr::jstr(m.body) + ",\"expected\":" + vr::jstr(exp)));
                        x.ok = false;
                    }
                }
                else
                {
                    // DELETE /u/x: no DELETE routes, /u/:tag exists under PUT and GET => 405, Allow = {GET, PUT}
                    std::set<std::string> allow;
                    for (auto& h : m.headers)
                        if (rfc::lower(h.first) == "allow")
                        {
                            size_t p = 0;
                            while (p < h.second.size())
                            {
                                size_t e = h.second.find(", ", p);
                                if (e == std::string::npos)
                                    e = h.second.size();
                                allow.insert(h.second.substr(p, e - p));
                                p = e + 2;
                            }
                        }
                    std::set<std::string> want = { "GET", "PUT" };
                    if (m.status != 405 || allow != want)
                    {
                        ctx.violation("c09:405-or-allow-wrong", detail("\"status\":" + std::to_string(m.status)));
                        x.ok = false;
                    }
                }
            }
        }
    }
    if (ctx.verbose)
    {
        printf("trace[%s]: %s\n", label.c_str(), trace.c_str());
        for (int j = 0; j < C; ++j)
            for (auto& r : cl[j].responses)
                printf("  client %d got: %s\n", j, vr::show(r.substr(0, 60)).c_str());
    }
    for (auto& c : cl)
        c.conn.close_orderly();
    if (!shutDown)
    {
        sim::await_readiness(20);
        steps += sim::settle();
    }
    // the handlers' own threads hold the transport: they are run to their end and joined before the endpoint goes
    if (gAsyncReply || gSplitReply || gFlushReply)
    {
        for (int round = 0; round < 400; ++round)
        {
            bool all = true;
            for (int a = 1 + W; a < ng_count(); ++a)
                if (!ng_has_exited(a))
                {
                    all = false;
                    if (ng_is_parked(a) && sim::actor_ready(a))
                        sim::step_actor(a);
                    else if (ng_is_parked(a))
                    {
                        // blocked behind a lock held by a framework thread: let that one move
                        for (int b = 0; b <= W; ++b)
                            if (sim::actor_ready(b))
                            {
                                sim::step_actor(b);
                                break;
                            }
                    }
                    else
                        ng_wait_parked(a, 50);
                }
            if (all)
                break;
        }
        bool allExited = true;
        for (int a = 1 + W; a < ng_count(); ++a)
            allExited &= ng_has_exited(a) != 0;
        if (allExited)
        {
            sim::TsanIgnore ign;
            for (auto& list : gResponders)
            {
                for (auto& t : list)
                    if (t.joinable())
                        t.join();
                list.clear();
            }
        }
    }
    bool stopped = srv.stop();
    for (auto& list : gResponders)
    {
        for (auto& t : list)
            if (t.joinable())
                t.join();
        list.clear();
    }
    if (!stopped)
    {
        ctx.violation(std::string("c09:threads-did-not-terminate-after-shutdown") + (shutDown ? ":mid-load" : ":idle"), detail("\"shutdown_at_point\":" + std::to_string(shutdownAt)));
        x.ok = false;
    }
    if (sim::livelock_seen())
        ctx.violation("c09:busy-wait-observed", detail("\"x\":0"));
    if (gPollReports)
        ctx.poll_reports();
    uint64_t h = vr::hash_str(label);
    for (uint8_t ch : x.choices)
    {
        h = h * 1099511628211ull + ch + 1;
        ctx.state(h);
    }
    return x;
}

struct Case
{
    int w, c, r, d;
    bool shutdowns;
    bool fine        = false;
    int acceptFaults = 0;
    bool gatedStart  = false;
    bool asyncReply  = false;
    bool splitReply  = false;
    bool slowAcceptor = false;
    bool flushReply   = false;
};
static void run_one_noreport(const std::vector<uint8_t>& prefix, vr::Ctx& ctx, uint64_t& steps)
{
    gPollReports = false;
    run_one(prefix, -1, ctx, steps, "tsan self-test");
    gPollReports = true;
}
static std::vector<Case> gCases;

static void build_scripts()
{
    gScripts.clear();
    static const char* tags[] = { "a", "b", "c", "d", "e", "f" };
    for (int j = 0; j < C; ++j)
    {
        std::vector<ReqSpec> s;
        for (int k = 0; k < R; ++k)
        {
            std::string tag = std::string(tags[(j * 2 + k) % 6]) + std::to_string(j) + std::to_string(k);
            // both method tables that do not exist (DELETE, PATCH) are hit, from different connections
            // (asyncReply: only requests that reach a handler; otherwise the mix includes the two absent method tables)
            switch (gSelfTestRace ? (j % 2 ? 0 : 4) : gFlushReply ? ((j + k) % 2 ? 4 : 0) : (gAsyncReply || gSplitReply) ? 2 * ((j + k) % 3) : (2 * j + 3 * k + 1) % 5)
            {
            case 0:
                s.push_back({ "GET", "/g/" + tag, "" });
                break;
            case 1:
                s.push_back({ "DELETE", "/u/" + tag, "" }); // no DELETE table: exercises the 405 probe
                break;
            case 2:
                s.push_back({ "POST", "/p/" + tag, "body-" + tag });
                break;
            case 3:
                s.push_back({ "PATCH", "/u/" + tag, "" }); // no PATCH table either
                break;
            default:
                s.push_back({ "PUT", "/u/" + tag, "" });
            }
        }
        gScripts.push_back(s);
    }
}

static void run_case(uint64_t idx, vr::Ctx& ctx)
{
    const Case c = gCases[idx];
#if defined(__SANITIZE_THREAD__)
    if (c.d < 0)
    {
        // vacuity guard of the TSan pass: a deliberate unsynchronised counter incremented by two workers (through
        // two different routes) MUST be reported, otherwise the pass is blind (e.g. an accidental happens-before
        // edge from the harness) and its silence means nothing
        W = 2, C = 2, R = 1, D = 0;
        gSelfTestRace = true;
        build_scripts();
        uint64_t st = 0;
        ctx.poll_reports();
        // whether two accesses are ordered depends on the schedule (an accept between them synchronises the
        // workers through the listener): try the default schedule and its single deviations until one shows it
        bool seen = false;
        size_t reports = 0;
        std::vector<std::vector<uint8_t>> todo;
        todo.push_back({});
        bool expanded = false;
        while (!todo.empty() && !seen)
        {
            auto prefix = todo.back();
            todo.pop_back();
            gPollReports = false;
            Exec x       = run_one(prefix, -1, ctx, st, "tsan self-test");
            gPollReports = true;
            auto sigs    = ctx.take_reports();
            reports += sigs.size();
            for (auto& sg : sigs)
                seen |= sg.find("tsan:data race") == 0;
            if (!expanded)
            {
                expanded = true;
                for (size_t i = 0; i < x.choices.size(); ++i)
                    for (int alt = 1; alt < x.nEnabled[i]; ++alt)
                    {
                        std::vector<uint8_t> np(x.choices.begin(), x.choices.begin() + i);
                        np.push_back((uint8_t)alt);
                        todo.push_back(np);
                    }
            }
        }
        struct
        {
            size_t n;
            size_t size() const { return n; }
        } sigs { reports };
        gSelfTestRace = false;
        if (!seen)
            ctx.violation("c09:harness:tsan-self-test-saw-no-race", "{\"reports\":" + std::to_string(sigs.size()) + "}");
        ctx.count("executions", 1);
        ctx.outcome("tsan self-test: deliberate race reported");
        return;
    }
#else
    if (c.d < 0)
        return;
#endif
    W            = c.w;
    C            = c.c;
    R            = c.r;
    D            = c.d;
    gFine        = c.fine;
    gSlowAcceptor = c.slowAcceptor;
    gAcceptFaults = c.acceptFaults;
    gGatedStart   = c.gatedStart;
    gAsyncReply   = c.asyncReply;
    gSplitReply   = c.splitReply;
    gFlushReply   = c.flushReply;
    build_scripts();
    std::string label = std::string(c.splitReply ? "[answer in two raw writes: loop thread, then a thread of the handler; connection blocks after one write] " : "") + std::string(c.asyncReply ? "[handlers answer from threads of their own] " : "") + std::string(c.flushReply ? "[PUT answered by a streamed, flushed response on the loop thread, the others by threads of the handler; threads also yield before every eventfd read] " : "") + std::string(c.gatedStart ? "[start-up: threads begin when scheduled] " : "") + std::string(c.fine ? "[threads also yield before every lock] " : "") + std::string(c.slowAcceptor ? "[an acceptor in the middle of a hand-over runs last] " : "") + (c.acceptFaults ? "[first " + std::to_string(c.acceptFaults) + " accepts fail with EMFILE] " : std::string()) + "w=" + std::to_string(W) + " c=" + std::to_string(C) + " r=" + std::to_string(R) + " D<=" + std::to_string(D) + (c.shutdowns ? " +shutdown-at-every-prefix" : "");
    ctx.note(label);
    uint64_t steps = 0, execs = 0, shutdownExecs = 0;
    std::vector<std::vector<uint8_t>> stack;
    stack.push_back({});
    try
    {
        while (!stack.empty() && ctx.case_violations < 4 && !ctx.stopping())
        {
            auto prefix = stack.back();
            stack.pop_back();
            Exec x = run_one(prefix, -1, ctx, steps, label);
            ++execs;
            if (!x.ok)
                continue;
            int cost = 0;
            for (size_t i = 0; i < x.choices.size(); ++i)
            {
                if (i >= prefix.size())
                    for (int alt = 1; alt < x.nEnabled[i]; ++alt)
                    {
                        if (cost + 1 > D)
                            continue;
                        std::vector<uint8_t> np(x.choices.begin(), x.choices.begin() + i);
                        np.push_back((uint8_t)alt);
                        stack.push_back(np);
                    }
                if (x.choices[i] != 0)
                    ++cost;
            }
            if (x.choices.size() > 0)
                ctx.nontrivial(vr::hash_bytes(x.choices.data(), x.choices.size(), idx));
            if (c.shutdowns)
                for (size_t at = 0; at <= x.choices.size() && ctx.case_violations < 4; ++at)
                {
                    // shutdown before point `at` of this schedule (prefix replayed, then stop)
                    std::vector<uint8_t> full(x.choices.begin(), x.choices.begin() + std::min(at, x.choices.size()));
                    run_one(full, (int)at, ctx, steps, label + " shutdown@" + std::to_string(at));
                    ++shutdownExecs;
                }
        }
    }
    catch (const sim::HarnessError& e)
    {
        ctx.violation("c09:harness:" + e.what.substr(0, 50), "{\"scenario\":" + vr::jstr(label) + "}");
        _exit(77);
    }
    if (!stack.empty() && ctx.case_violations == 0)
        ctx.count("incomplete_cases", 1); // deadline: the scenario's schedule tree was not finished
    ctx.count("executions", execs + shutdownExecs);
    ctx.count("shutdown_executions", shutdownExecs);
    ctx.count("transitions", steps);
    ctx.outcome(label + " completed");
    ctx.sample("{\"scenario\":" + vr::jstr(label) + ",\"schedules\":" + std::to_string(execs) + ",\"shutdown_runs\":" + std::to_string(shutdownExecs) + "}");
}

int main(int argc, char** argv)
{
    vr::Options opt = vr::parse_args(argc, argv);
    bool thorough   = opt.geti("thorough", 0);
    gSelfTestRace   = opt.geti("selftest-race", 0);
    // small scenarios, one per case so that they run in parallel
    gCases.push_back({ 2, 2, 1, -1, false }); // TSan self-test (no-op in the ASan flavour)
    gCases.push_back({ 2, 2, 1, 0, true });
    gCases.push_back({ 2, 2, 1, 1, false });
    gCases.push_back({ 2, 2, 2, 1, false });
    gCases.push_back({ 2, 3, 1, 1, false });
    gCases.push_back({ 3, 3, 1, 1, false });
    // finer than one epoll batch: acceptor and workers yield before every lock acquisition, so that another thread
    // can run between two critical sections of one batch (two connections of one worker: w=1 c=2, w=2 c=3)
    gCases.push_back({ 1, 2, 1, 1, false, true });
    gCases.push_back({ 2, 3, 1, 1, false, true });
    // shutdown while the acceptor cannot accept (out of descriptors) and a connection waits in the backlog
    gCases.push_back({ 2, 2, 1, 1, true, false, 2 });
    // shutdown while a thread is in the middle of a batch (before any of its lock acquisitions)
    gCases.push_back({ 2, 2, 1, 0, true, true });
    // start-up: acceptor and workers begin only when scheduled; a client may connect and shutdown() may come before a
    // worker has entered its loop
    gCases.push_back({ 2, 1, 1, 1, true, false, 0, true });
    // handlers that answer from another thread (asynchronous completion), also with shutdown at every point
    gCases.push_back({ 2, 2, 1, 1, false, false, 0, false, true });
    gCases.push_back({ 1, 2, 1, 0, true, false, 0, false, true });
    // the answer is completed by a thread of the handler's own (second raw write through the mailbox) while the
    // connection blocks after one write; all threads yield before every lock and every epoll_ctl, and the thread that
    // ran last runs on for free
    gCases.push_back({ 1, 1, 1, 1, false, true, 0, false, false, true });
    gCases.push_back({ 1, 2, 1, 1, false, true, 0, false, false, true });
    // the acceptor is slow in the middle of handing a connection over (parked before one of its lock acquisitions) while the
    // worker already serves that connection; one deviation lets it finish at any earlier point
    gCases.push_back({ 1, 1, 1, 1, false, true, 0, false, false, false, true });
    gCases.push_back({ 1, 2, 1, 1, false, true, 0, false, false, false, true });
    // a handler flushes a streamed response on the loop thread (which drains the worker's mailbox there and then) while
    // another connection's answer arrives through that mailbox from a thread of its handler
    gCases.push_back({ 1, 2, 1, 1, false, true, 0, false, false, false, false, true });
    gCases.push_back({ 1, 2, 2, 1, false, true, 0, false, false, false, false, true });
    gCases.push_back({ 2, 2, 2, 0, true });
    gCases.push_back({ 3, 3, 1, 0, true });
    if (thorough)
    {
        gCases.push_back({ 2, 2, 1, 1, true });
        gCases.push_back({ 2, 2, 2, 2, false });
        gCases.push_back({ 2, 3, 2, 2, false });
        gCases.push_back({ 3, 3, 2, 2, false });
        gCases.push_back({ 3, 3, 2, 1, true });
        gCases.push_back({ 2, 3, 1, 2, false });
    }
    return vr::run(opt, gCases.size(), run_case);
}
