// C10: routing invokes the handler that the route table prescribes.
//
// Exhaustive sweep: every route table of up to T patterns (as sets) over the segment alphabet
// {a, b, :x, :y, :o?, :p?, *} (patterns of 1..3 segments) x every request path of up to 4 segments over
// {a, b, c}; the real SegmentTreeNode::findRoute against an independent reference matcher written from the
// property's wording (depth-first, fixed > parameter > optional > wildcard, with backtracking). Where the
// property does not fix an order (same-kind siblings with different names; own route vs. absent trailing
// optional) the reference is nondeterministic and the implementation must return ONE OF its results.
// Add/remove: for every table and member p, add-all-then-remove-p must behave as the table without p.
// End-to-end part (mode=e2e): Router::route with a real ResponseWriter behind the transport loop: exactly one
// handler invocation with the right bindings, else 405 + exact Allow set, else 404 / not-found handler once.
#include "common/loop.h"
#include "common/parser_common.h"

#include <pistache/router.h>

using namespace Pistache;

static const char* kSegs[] = { "a", "b", ":x", ":y", ":o?", ":p?", "*" };
using Pattern = std::vector<int>;
static std::vector<Pattern> gPatterns;
static std::vector<std::string> gPatternText;
static std::vector<std::vector<std::string>> gPaths; // segment lists
static int T = 2;

static int kind_of(int seg) { return seg < 2 ? 0 : seg < 4 ? 1 : seg < 6 ? 2 : 3; }
static std::string name_of(int seg)
{
    std::string s = kSegs[seg];
    if (kind_of(seg) == 2)
        s.pop_back();
    return s;
}

static void gen_patterns()
{
    for (int len = 1; len <= 3; ++len)
    {
        Pattern p(len);
        std::function<void(int)> rec = [&](int i) {
            if (i == len)
            {
                // no parameter name twice in a pattern
                for (int a = 0; a < len; ++a)
                    for (int b = a + 1; b < len; ++b)
                        if (p[a] == p[b] && kind_of(p[a]) != 0 && kind_of(p[a]) != 3)
                            return;
                gPatterns.push_back(p);
                std::string t;
                for (int s : p)
                    t += std::string("/") + kSegs[s];
                gPatternText.push_back(t);
                return;
            }
            for (int s = 0; s < 7; ++s)
            {
                p[i] = s;
                rec(i + 1);
            }
        };
        rec(0);
    }
    const char* alpha[] = { "a", "b", "c" };
    gPaths.push_back({});
    for (int len = 1; len <= 4; ++len)
    {
        int n = 1;
        for (int i = 0; i < len; ++i)
            n *= 3;
        for (int code = 0; code < n; ++code)
        {
            std::vector<std::string> segs;
            int c = code;
            for (int i = 0; i < len; ++i)
            {
                segs.push_back(alpha[c % 3]);
                c /= 3;
            }
            gPaths.push_back(segs);
        }
    }
}

// ---- reference matcher ----------------------------------------------------------------------------
struct RNode
{
    std::map<std::string, RNode> fixed;
    std::map<std::string, RNode> params, optionals;
    std::unique_ptr<RNode> splat;
    int route = -1;
};
static void radd(RNode& n, const Pattern& p, size_t i, int id)
{
    if (i == p.size())
    {
        n.route = id;
        return;
    }
    int s = p[i];
    switch (kind_of(s))
    {
    case 0:
        radd(n.fixed[kSegs[s]], p, i + 1, id);
        break;
    case 1:
        radd(n.params[name_of(s)], p, i + 1, id);
        break;
    case 2:
        radd(n.optionals[name_of(s)], p, i + 1, id);
        break;
    default:
        if (!n.splat)
            n.splat.reset(new RNode());
        radd(*n.splat, p, i + 1, id);
    }
}
using ResultSet = std::set<std::string>; // "id|name=val,...|splat,..."
static ResultSet rmatch(const RNode& n, const std::vector<std::string>& segs, size_t i, std::vector<std::pair<std::string, std::string>>& params, std::vector<std::string>& splats)
{
    ResultSet out;
    auto merge = [&](const ResultSet& r) { out.insert(r.begin(), r.end()); };
    if (i == segs.size())
    {
        if (n.route >= 0)
        {
            std::string r = std::to_string(n.route) + "|";
            for (auto& p : params)
                r += p.first + "=" + p.second + ",";
            r += "|";
            for (auto& s : splats)
                r += s + ",";
            out.insert(r);
        }
        // a trailing run of optional parameters may be absent
        for (auto& o : n.optionals)
            merge(rmatch(o.second, segs, i, params, splats));
        return out;
    }
    const std::string& s = segs[i];
    auto f               = n.fixed.find(s);
    if (f != n.fixed.end())
    {
        merge(rmatch(f->second, segs, i + 1, params, splats));
        if (!out.empty())
            return out;
    }
    for (auto& p : n.params)
    {
        params.emplace_back(p.first, s);
        merge(rmatch(p.second, segs, i + 1, params, splats));
        params.pop_back();
    }
    if (!out.empty())
        return out;
    for (auto& o : n.optionals)
    {
        params.emplace_back(o.first, s);
        merge(rmatch(o.second, segs, i + 1, params, splats));
        params.pop_back();
    }
    if (!out.empty())
        return out;
    if (n.splat)
    {
        splats.push_back(s);
        merge(rmatch(*n.splat, segs, i + 1, params, splats));
        splats.pop_back();
    }
    return out;
}
static ResultSet reference(const std::vector<int>& table, const std::vector<std::string>& segs)
{
    RNode root;
    for (int id : table)
        radd(root, gPatterns[id], 0, id);
    std::vector<std::pair<std::string, std::string>> params;
    std::vector<std::string> splats;
    return rmatch(root, segs, 0, params, splats);
}

// ---- implementation side ----------------------------------------------------------------------------
static const Rest::Route* node_route(const Rest::SegmentTreeNode& root, const Pattern& p)
{
    const Rest::SegmentTreeNode* n = &root;
    for (int s : p)
    {
        std::string nm = name_of(s);
        const std::unordered_map<std::string_view, std::shared_ptr<Rest::SegmentTreeNode>>* coll = nullptr;
        switch (kind_of(s))
        {
        case 0:
            coll = &n->fixed_;
            break;
        case 1:
            coll = &n->param_;
            break;
        case 2:
            coll = &n->optional_;
            break;
        default:
            n = n->splat_.get();
            if (!n)
                return nullptr;
            continue;
        }
        auto it = coll->find(std::string_view(nm));
        if (it == coll->end())
            return nullptr;
        n = it->second.get();
    }
    return n->route_.get();
}

static std::string path_text(const std::vector<std::string>& segs)
{
    std::string t;
    for (auto& s : segs)
        t += "/" + s;
    return t.empty() ? "/" : t;
}

static std::string impl_result(Rest::Router& router, const std::vector<int>& table, const std::vector<std::string>& segs)
{
    auto& root         = router.routes[Http::Method::Get];
    std::string san    = Rest::SegmentTreeNode::sanitizeResource(path_text(segs));
    auto res           = root.findRoute(std::string_view(san.data(), san.size()));
    const auto& route  = std::get<0>(res);
    if (!route)
        return "";
    int id = -1;
    for (int t : table)
        if (node_route(root, gPatterns[t]) == route.get())
            id = t;
    std::string r = std::to_string(id) + "|";
    for (auto& p : std::get<1>(res))
        r += p.name() + "=" + p.as<std::string>() + ",";
    r += "|";
    for (auto& s : std::get<2>(res))
        r += s.as<std::string>() + ",";
    return r;
}

static std::string table_text(const std::vector<int>& table)
{
    std::string t = "{";
    for (size_t i = 0; i < table.size(); ++i)
        t += (i ? ", " : "") + gPatternText[table[i]];
    return t + "}";
}

static std::string join_set(const ResultSet& s)
{
    std::string o;
    for (auto& x : s)
        o += x + " ; ";
    return o;
}

// classify a disagreement for the signature
static std::string classify(const std::vector<int>& table, const std::string& got, const ResultSet& ref)
{
    if (got.empty() && !ref.empty())
    {
        // which pattern should have matched, and is there a pattern with a non-trailing optional in the table?
        bool nonTrailingOpt = false;
        for (int t : table)
        {
            const Pattern& p = gPatterns[t];
            for (size_t i = 0; i + 1 < p.size(); ++i)
                if (kind_of(p[i]) == 2)
                {
                    bool restAllOpt = true;
                    for (size_t j = i + 1; j < p.size(); ++j)
                        restAllOpt &= kind_of(p[j]) == 2;
                    if (!restAllOpt)
                        nonTrailingOpt = true;
                }
        }
        return nonTrailingOpt ? "no-match-but-route-exists:table-has-non-trailing-optional" : "no-match-but-route-exists";
    }
    if (!got.empty() && ref.empty())
        return "match-but-no-route-should";
    if (got.compare(0, 2, "-1") == 0)
        return "unknown-route-object";
    // same pattern, other bindings?
    std::string gid = got.substr(0, got.find('|'));
    for (auto& r : ref)
        if (r.substr(0, r.find('|')) == gid)
            return "wrong-bindings";
    return "wrong-route";
}

static Rest::Route::Result dummy(const Rest::Request&, Http::ResponseWriter) { return Rest::Route::Result::Ok; }

static void check_table(const std::vector<int>& table, vr::Ctx& ctx, uint64_t& lookups)
{
    Rest::Router router;
    for (int t : table)
        router.addRoute(Http::Method::Get, gPatternText[t], dummy);
    for (auto& segs : gPaths)
    {
        ResultSet ref   = reference(table, segs);
        std::string got = impl_result(router, table, segs);
        ++lookups;
        bool ok = got.empty() ? ref.empty() : ref.count(got) > 0;
        if (!ok)
        {
            ctx.violation("c10:find:" + classify(table, got, ref), "{\"table\":" + vr::jstr(table_text(table)) + ",\"path\":" + vr::jstr(path_text(segs)) + ",\"implementation\":" + vr::jstr(got) + ",\"reference_allows\":" + vr::jstr(join_set(ref)) + "}");
            return;
        }
        if (ref.size() > 1)
            ctx.count("ambiguous_lookups", 1);
    }
    // add/remove differential
    if (table.size() >= 2)
        for (size_t k = 0; k < table.size(); ++k)
        {
            Rest::Router r2;
            for (int t : table)
                r2.addRoute(Http::Method::Get, gPatternText[t], dummy);
            try
            {
                r2.removeRoute(Http::Method::Get, gPatternText[table[k]]);
            }
            catch (const std::exception& e)
            {
                ctx.violation("c10:remove:threw", "{\"table\":" + vr::jstr(table_text(table)) + ",\"removed\":" + vr::jstr(gPatternText[table[k]]) + ",\"what\":" + vr::jstr(e.what()) + "}");
                return;
            }
            std::vector<int> rest;
            for (size_t j = 0; j < table.size(); ++j)
                if (j != k)
                    rest.push_back(table[j]);
            for (auto& segs : gPaths)
            {
                ResultSet ref   = reference(rest, segs);
                std::string got = impl_result(r2, rest, segs);
                ++lookups;
                bool ok = got.empty() ? ref.empty() : ref.count(got) > 0;
                if (!ok)
                {
                    ctx.violation("c10:remove:" + classify(rest, got, ref), "{\"table\":" + vr::jstr(table_text(table)) + ",\"removed\":" + vr::jstr(gPatternText[table[k]]) + ",\"path\":" + vr::jstr(path_text(segs)) + ",\"implementation\":" + vr::jstr(got) + ",\"reference_allows\":" + vr::jstr(join_set(ref)) + "}");
                    return;
                }
            }
        }
}

// ---- table enumeration: case = first pattern index i; tables {i}, {i,j>i}, {i,j,k} --------------------
static void case_find(uint64_t i, vr::Ctx& ctx)
{
    uint64_t lookups = 0, tables = 0;
    const int n      = (int)gPatterns.size();
    auto run         = [&](const std::vector<int>& t) {
        ctx.note("table " + table_text(t));
        check_table(t, ctx, lookups);
        ++tables;
        ctx.state(vr::hash_str(table_text(t)));
    };
    run({ (int)i });
    if (T >= 2)
        for (int j = (int)i + 1; j < n && ctx.case_violations < 5; ++j)
        {
            run({ (int)i, j });
            if (T >= 3)
                for (int k = j + 1; k < n && ctx.case_violations < 5; ++k)
                    run({ (int)i, j, k });
        }
    ctx.count("transitions", lookups);
    ctx.count("evaluations", tables);
    ctx.nontrivial(vr::hash_str("first" + std::to_string(i)));
    if (i % 50 == 0)
        ctx.sample("{\"first_pattern\":" + vr::jstr(gPatternText[i]) + ",\"tables\":" + std::to_string(tables) + ",\"lookups\":" + std::to_string(lookups) + "}");
}

// ---- end to end through Router::route ---------------------------------------------------------------
struct E2E
{
    std::map<int, int> hits;                 // pattern id -> invocations
    std::string lastBinding;
    int notFoundHits = 0;
};
static E2E* gE = nullptr;

class NullHandler : public Http::Handler
{
public:
    HTTP_PROTOTYPE(NullHandler)
    void onRequest(const Http::Request&, Http::ResponseWriter) override { }
};

static const Http::Method kMethods[] = { Http::Method::Get, Http::Method::Post, Http::Method::Put };
static const char* kDecor[][2]       = { { "/", "" }, { "//", "" }, { "/", "/" }, { "///", "//" } };

static void case_e2e(uint64_t idx, vr::Ctx& ctx)
{
    // tables: pattern i under GET, pattern j (j>=i, may be equal) under POST, optionally the same j under PUT
    const int n = (int)gPatterns.size();
    int i       = int(idx);
    auto handler = std::make_shared<NullHandler>();
    uint64_t steps = 0, evals = 0;
    for (int j = i; j < n && ctx.case_violations < 4; j += 1)
    {
        // thin the second dimension deterministically: all j sharing a first segment kind pattern with i, plus every 7th
        if (j != i && gPatterns[j][0] != gPatterns[i][0] && (j % 7) != (i % 7))
            continue;
        for (int withPut = 0; withPut < 2; ++withPut)
        {
            Rest::Router router;
            E2E e;
            gE        = &e;
            auto bind = [&](Http::Method m, int id) {
                router.addRoute(m, gPatternText[id], [id](const Rest::Request& req, Http::ResponseWriter w) {
                    gE->hits[id]++;
                    std::string b;
                    for (int s : gPatterns[id])
                        if (kind_of(s) == 1 || kind_of(s) == 2)
                        {
                            std::string nm = name_of(s);
                            b += nm + "=" + (req.hasParam(nm) ? req.param(nm).as<std::string>() : std::string("<absent>")) + ",";
                        }
                    b += "|";
                    for (auto& sp : req.splat())
                        b += sp.as<std::string>() + ",";
                    gE->lastBinding = b;
                    w.send(Http::Code::Ok, "h" + std::to_string(id));
                    return Rest::Route::Result::Ok;
                });
            };
            bind(Http::Method::Get, i);
            bind(Http::Method::Post, j);
            if (withPut)
                bind(Http::Method::Put, j);
            bool customNotFound = (j % 2) == 0;
            if (customNotFound)
                router.addNotFoundHandler([](const Rest::Request&, Http::ResponseWriter w) {
                    gE->notFoundHits++;
                    w.send(Http::Code::Not_Found, "custom");
                    return Rest::Route::Result::Ok;
                });
            lp::Loop loop(handler);
            std::shared_ptr<Tcp::Peer> peer;
            int cfd = loop.connect_peer(&peer);
            loop.settle();
            for (size_t pi = 0; pi < gPaths.size(); ++pi)
            {
                const auto& segs = gPaths[pi];
                if (segs.size() > 3)
                    continue;
                for (int mi = 0; mi < 3; ++mi)
                {
                    const char** dec = kDecor[(pi + mi) % 4];
                    std::string res  = dec[0];
                    for (size_t k = 0; k < segs.size(); ++k)
                        res += (k ? (pi % 3 == 0 ? "//" : "/") : "") + segs[k];
                    if (!segs.empty())
                        res += dec[1];
                    Http::Request req;
                    req.method_   = kMethods[mi];
                    req.resource_ = res;
                    e.hits.clear();
                    e.notFoundHits = 0;
                    e.lastBinding.clear();
                    ctx.note("e2e GET:" + gPatternText[i] + " POST" + (withPut ? "+PUT:" : ":") + gPatternText[j] + " request " + Http::methodString(kMethods[mi]) + " " + res);
                    Http::ResponseWriter w(Http::Version::Http11, loop.transport.get(), handler.get(), peer);
                    router.route(req, std::move(w));
                    steps += loop.settle();
                    std::string rsp = lp::client_recv_all(cfd);
                    ++evals;
                    // expectation from the reference
                    std::vector<int> tab[3] = { { i }, { j }, {} };
                    if (withPut)
                        tab[2] = { j };
                    ResultSet ref = reference(tab[mi], segs);
                    int status    = rsp.size() > 12 ? atoi(rsp.c_str() + 9) : -1;
                    int totalHits = 0;
                    for (auto& h : e.hits)
                        totalHits += h.second;
                    std::string d = "{\"get\":" + vr::jstr(gPatternText[i]) + ",\"post\":" + vr::jstr(gPatternText[j]) + ",\"put\":" + vr::jstr(withPut ? gPatternText[j] : "") + ",\"request\":" + vr::jstr(std::string(Http::methodString(kMethods[mi])) + " " + res) + ",\"status\":" + std::to_string(status) + ",\"handler_hits\":" + std::to_string(totalHits) + ",\"binding\":" + vr::jstr(e.lastBinding) + ",\"reference_allows\":" + vr::jstr(join_set(ref)) + ",\"response\":" + vr::jstr(vr::show(rsp.substr(0, 160))) + "}";
                    if (!ref.empty())
                    {
                        // exactly one invocation of the prescribed handler with the reference's bindings
                        bool ok = totalHits == 1 && status == 200;
                        if (ok)
                        {
                            int id         = e.hits.begin()->first;
                            bool bindingOk = false;
                            for (auto& r : ref)
                            {
                                if (atoi(r.c_str()) != id)
                                    continue;
                                // rebuild the binding text the handler reports from the reference result
                                std::string ps = r.substr(r.find('|') + 1);
                                std::string params = ps.substr(0, ps.find('|')), splats = ps.substr(ps.find('|') + 1);
                                std::map<std::string, std::string> pm;
                                size_t p = 0;
                                while (p < params.size())
                                {
                                    size_t c2 = params.find(',', p);
                                    std::string kv = params.substr(p, c2 - p);
                                    pm[kv.substr(0, kv.find('='))] = kv.substr(kv.find('=') + 1);
                                    p = c2 + 1;
                                }
                                std::string b;
                                for (int s : gPatterns[id])
                                    if (kind_of(s) == 1 || kind_of(s) == 2)
                                    {
                                        std::string nm = name_of(s);
                                        b += nm + "=" + (pm.count(nm) ? pm[nm] : std::string("<absent>")) + ",";
                                    }
                                b += "|" + splats;
                                if (b == e.lastBinding)
                                    bindingOk = true;
                            }
                            ok = bindingOk;
                        }
                        if (!ok)
                            ctx.violation(std::string("c10:e2e:") + (totalHits == 0 ? "no-handler-ran" : totalHits > 1 ? "several-handlers-ran" : "wrong-handler-or-bindings"), d);
                    }
                    else
                    {
                        std::set<std::string> allow;
                        for (int m2 = 0; m2 < 3; ++m2)
                            if (m2 != mi && !tab[m2].empty() && !reference(tab[m2], segs).empty())
                                allow.insert(Http::methodString(kMethods[m2]));
                        if (totalHits != 0)
                            ctx.violation("c10:e2e:handler-ran-without-match", d);
                        else if (!allow.empty())
                        {
                            std::set<std::string> got;
                            size_t a = rsp.find("Allow: ");
                            if (a != std::string::npos)
                            {
                                std::string v = rsp.substr(a + 7, rsp.find("\r\n", a) - a - 7);
                                size_t p      = 0;
                                while (p < v.size())
                                {
                                    size_t c2 = v.find(", ", p);
                                    if (c2 == std::string::npos)
                                        c2 = v.size();
                                    got.insert(v.substr(p, c2 - p));
                                    p = c2 + 2;
                                }
                            }
                            if (status != 405 || got != allow)
                                ctx.violation("c10:e2e:405-or-allow-wrong", d);
                        }
                        else if (status != 404 || (customNotFound && e.notFoundHits != 1) || (!customNotFound && e.notFoundHits != 0))
                            ctx.violation("c10:e2e:404-wrong", d);
                    }
                    ctx.outcome("e2e status " + std::to_string(status));
                }
            }
        }
    }
    gE = nullptr;
    ctx.count("transitions", steps);
    ctx.count("evaluations", evals);
    ctx.nontrivial(vr::hash_str("e2e" + std::to_string(idx)));
    ctx.state(vr::hash_str("e2e-case" + std::to_string(idx)));
}

int main(int argc, char** argv)
{
    vr::Options opt = vr::parse_args(argc, argv);
    T               = opt.geti("T", 2);
    std::string mode = opt.get("mode", "find");
    gen_patterns();
    if (opt.kv.count("print"))
    {
        printf("%zu patterns, %zu paths\n", gPatterns.size(), gPaths.size());
        return 0;
    }
    if (mode == "find")
        return vr::run(opt, gPatterns.size(), [](uint64_t idx, vr::Ctx& ctx) {
            ctx.count("executions", 1);
            case_find(idx, ctx);
        });
    return vr::run(opt, gPatterns.size(), [](uint64_t idx, vr::Ctx& ctx) {
        ctx.count("executions", 1);
        case_e2e(idx, ctx);
    });
}
