// C11: promise chains deliver every outcome exactly once to the right continuation.
//
// Every program of exactly K operations over the promise API (a program is already a linearisation of its
// create / attach / settle events) is run against the real templates of async.h and compared with a
// reference interpreter written from the property text. Operations:
//   NEW | RESOLVED | REJECTED                      create Promise<int> (pending / settled)
//   THEN(h, kind, rej)                             kind: value-returning, void-returning, promise-returning with
//                                                  inner {resolved, rejected, pending}; rej: IgnoreException,
//                                                  Throw (rethrow), custom (logs)
//   ALL(h..) | ALLIT(h..) | ANY(h..)               whenAll (variadic / iterator form), whenAny over 1..3 handles
//   RESOLVE(h) | REJECT(h)                         settle a pending promise (roots and pending inner promises)
// Oracle: multiset of (continuation, outcome) log entries equals the reference's for every continuation whose
// promise the property determines; no continuation twice; never a fulfilment continuation below a rejection;
// no exception escapes from any operation the program performs.
#include <pistache/async.h>

#include "common/runner.h"

#include <optional>

using namespace Pistache;

enum OpKind { NEW,
              RESOLVED,
              REJECTED,
              THEN,
              ALL,
              ALLIT,
              ANY,
              RESOLVE,
              REJECT };
enum ThenKind { TV,
                TN,
                TP_RES,
                TP_REJ,
                TP_PEND };
enum RejKind { IGN,
               THROW,
               CUSTOM };
static const char* kOpNames[]   = { "new", "resolved", "rejected", "then", "whenAll", "whenAllRange", "whenAny", "resolve", "reject" };
static const char* kThenNames[] = { "value", "void", "promise(resolved)", "promise(rejected)", "promise(pending)" };
static const char* kRejNames[]  = { "Ignore", "Throw", "custom" };

struct Op
{
    uint8_t kind;
    uint8_t h[4]  = { 0, 0, 0, 0 }; // handles
    uint8_t n     = 0;           // number of handles (ALL/ANY)
    uint8_t tk    = 0, rk = 0;
    std::string str() const
    {
        std::string s = kOpNames[kind];
        if (kind == THEN)
            s += "(h" + std::to_string(h[0]) + "," + kThenNames[tk] + "," + kRejNames[rk] + ")";
        else if (kind == ALL || kind == ALLIT || kind == ANY)
        {
            s += "(";
            for (int i = 0; i < n; ++i)
                s += std::string(i ? "," : "") + "h" + std::to_string(h[i]);
            s += ")";
        }
        else if (kind == RESOLVE || kind == REJECT)
            s += "(h" + std::to_string(h[0]) + ")";
        return s;
    }
};

// ---- reference model ------------------------------------------------------------------------------
enum MS { M_NONE, // handle announced but promise not created yet (pending inner before its callback ran)
          M_PENDING,
          M_FULFILLED,
          M_REJECTED,
          M_OPEN }; // the property does not determine it

struct MCont
{
    int id;       // = index of the op that attached it
    int kind;     // ThenKind, or 100 + OpKind for ALL/ALLIT/ANY terminal continuations
    int rej;
    int derived;  // handle of the derived promise (-1 none)
    int inner;    // handle of the pending inner promise (TP_PEND)
};
struct MH
{
    MS st      = M_NONE;
    int val    = 0;
    int exc    = 0;
    bool root  = false;          // settled by the program (NEW or pending inner)
    bool openSubtree = false;    // below an undetermined promise
    std::vector<int> conts;      // indices into Model::conts
    int follows = -1;            // (unused)
};
struct MComb
{
    int id;
    int kind;                    // ALL / ALLIT / ANY
    std::vector<int> inputs;
    int got      = 0;
    bool done    = false;
    bool open    = false;
    std::vector<int> vals;
};

struct Model
{
    std::vector<MH> h;
    std::vector<MCont> conts;
    std::vector<MComb> combs;
    std::vector<std::vector<int>> combsOf; // handle -> combs listening
    std::vector<std::pair<int, int>> links; // (inner handle, derived handle)
    std::multiset<std::string> expect;     // determined log entries
    std::set<int> openConts;               // continuations whose reject-side log is undetermined

    int newHandle()
    {
        h.emplace_back();
        combsOf.emplace_back();
        return (int)h.size() - 1;
    }
    void log(const std::string& s) { expect.insert(s); }

    void fulfil(int hi, int v)
    {
        MH& x = h[hi];
        if (x.st != M_PENDING)
            return;
        x.st  = M_FULFILLED;
        x.val = v;
        auto cs = x.conts;
        for (int c : cs)
            runFulfil(c, v);
        auto cb = combsOf[hi];
        for (int c : cb)
            combInput(c, hi);
        for (size_t i = 0; i < links.size(); ++i) // by index: a continuation run below may append a link
            if (links[i].first == hi)
                fulfil(links[i].second, v);
    }
    void reject(int hi, int e)
    {
        MH& x = h[hi];
        if (x.st != M_PENDING)
            return;
        x.st  = M_REJECTED;
        x.exc = e;
        auto cs = x.conts;
        for (int c : cs)
            runReject(c, e);
        auto cb = combsOf[hi];
        for (int c : cb)
            combInput(c, hi);
        for (size_t i = 0; i < links.size(); ++i)
            if (links[i].first == hi)
                reject(links[i].second, e);
    }
    void makeOpen(int hi)
    {
        MH& x = h[hi];
        if (x.st != M_PENDING)
            return;
        x.st = M_OPEN;
        for (int c : x.conts)
        {
            openConts.insert(conts[c].id);
            if (conts[c].derived >= 0)
                makeOpen(conts[c].derived);
        }
        for (int c : combsOf[hi])
            if (!combs[c].done)
                combs[c].open = true;
    }
    void runFulfil(int ci, int v)
    {
        MCont c = conts[ci];
        log("c" + std::to_string(c.id) + ":ok:" + std::to_string(v));
        switch (c.kind)
        {
        case TV:
            fulfil(c.derived, v + 1);
            break;
        case TN:
            break;
        case TP_RES:
            fulfil(c.derived, v * 10);
            break;
        case TP_REJ:
            reject(c.derived, 1000 + c.id);
            break;
        case TP_PEND:
            h[c.inner].st   = M_PENDING; // the inner promise exists from now on
            h[c.inner].root = true;
            links.emplace_back(c.inner, c.derived);
            break;
        }
    }
    void runReject(int ci, int e)
    {
        MCont c = conts[ci];
        if (c.rej == CUSTOM)
            log("c" + std::to_string(c.id) + ":rej:" + std::to_string(e));
        if (c.derived < 0)
            return;
        if (c.rej == THROW)
            reject(c.derived, e); // forwarded with the same exception
        else
            makeOpen(c.derived);  // state after a non-rethrowing handler is left open by the property
    }
    void combInput(int ci, int hi)
    {
        MComb& c = combs[ci];
        if (c.open || c.done)
            return;
        MH& x = h[hi];
        if (x.st == M_REJECTED)
        {
            c.done = true;
            log("k" + std::to_string(c.id) + ":rej:" + std::to_string(x.exc));
            return;
        }
        if (c.kind == ANY)
        {
            c.done = true;
            log("k" + std::to_string(c.id) + ":any:" + std::to_string(x.val));
            return;
        }
        c.got++;
        if (c.got == (int)c.inputs.size())
        {
            c.done        = true;
            std::string s = "k" + std::to_string(c.id) + ":all:";
            for (int in : c.inputs)
                s += std::to_string(h[in].val) + ",";
            log(s);
        }
    }
    // attach-time behaviour for an already settled parent
    void attach(int ci, int hi)
    {
        h[hi].conts.push_back(ci);
        MH& x = h[hi];
        if (x.st == M_FULFILLED)
            runFulfil(ci, x.val);
        else if (x.st == M_REJECTED)
            runReject(ci, x.exc);
        else if (x.st == M_OPEN)
        {
            openConts.insert(conts[ci].id);
            if (conts[ci].derived >= 0)
                makeOpen(conts[ci].derived);
        }
    }

    void apply(const Op& op, int opIndex)
    {
        switch (op.kind)
        {
        case NEW: {
            int n     = newHandle();
            h[n].st   = M_PENDING;
            h[n].root = true;
            break;
        }
        case RESOLVED: {
            int n    = newHandle();
            h[n].st  = M_FULFILLED;
            h[n].val = 10 * n + 1;
            break;
        }
        case REJECTED: {
            int n    = newHandle();
            h[n].st  = M_REJECTED;
            h[n].exc = n;
            break;
        }
        case THEN: {
            MCont c;
            c.id      = opIndex;
            c.kind    = op.tk;
            c.rej     = op.rk;
            c.derived = -1;
            c.inner   = -1;
            if (op.tk != TN)
            {
                c.derived       = newHandle();
                h[c.derived].st = M_PENDING;
            }
            if (op.tk == TP_PEND)
                c.inner = newHandle(); // M_NONE until the callback runs
            conts.push_back(c);
            attach((int)conts.size() - 1, op.h[0]);
            break;
        }
        case ALL:
        case ALLIT:
        case ANY: {
            MComb c;
            c.id   = opIndex;
            c.kind = op.kind == ANY ? ANY : ALL;
            for (int i = 0; i < op.n; ++i)
                c.inputs.push_back(op.h[i]);
            combs.push_back(c);
            int ci = (int)combs.size() - 1;
            for (int i = 0; i < op.n; ++i)
                combsOf[op.h[i]].push_back(ci);
            // an undetermined input makes the combination undetermined
            for (int i = 0; i < op.n; ++i)
                if (h[op.h[i]].st == M_OPEN)
                    combs[ci].open = true;
            // inputs are subscribed in argument order; settled ones report at once
            for (int i = 0; i < op.n; ++i)
            {
                MH& x = h[op.h[i]];
                if (x.st == M_FULFILLED || x.st == M_REJECTED)
                    combInput(ci, op.h[i]);
            }
            break;
        }
        case RESOLVE:
            h[op.h[0]].root = false;
            fulfil(op.h[0], 10 * op.h[0] + 1);
            break;
        case REJECT:
            h[op.h[0]].root = false;
            reject(op.h[0], op.h[0]);
            break;
        }
    }

    std::vector<Op> enabled(int maxComb) const
    {
        std::vector<Op> out;
        Op o;
        o.kind = NEW;
        out.push_back(o);
        o.kind = RESOLVED;
        out.push_back(o);
        o.kind = REJECTED;
        out.push_back(o);
        std::vector<int> ints; // handles on which then()/when*() can be called: the promise object exists
        for (int i = 0; i < (int)h.size(); ++i)
            if (h[i].st != M_NONE && !isInner(i))
                ints.push_back(i);
        for (int hi : ints)
            for (int tk = 0; tk < 5; ++tk)
                for (int rk = 0; rk < 3; ++rk)
                {
                    Op t;
                    t.kind = THEN;
                    t.h[0] = hi;
                    t.tk   = tk;
                    t.rk   = rk;
                    out.push_back(t);
                }
        for (int kind : { ALL, ALLIT, ANY })
        {
            for (size_t a = 0; a < ints.size(); ++a)
            {
                Op c;
                c.kind = kind;
                c.n    = 1;
                c.h[0] = ints[a];
                out.push_back(c);
                if (maxComb < 2)
                    continue;
                for (size_t b = 0; b < ints.size(); ++b)
                {
                    if (b == a)
                        continue;
                    c.n    = 2;
                    c.h[1] = ints[b];
                    out.push_back(c);
                    if (maxComb < 3 || b < a)
                        continue;
                    for (size_t d = b + 1; d < ints.size(); ++d)
                    {
                        c.n    = 3;
                        c.h[2] = ints[d];
                        out.push_back(c);
                    }
                }
            }
        }
        for (int i = 0; i < (int)h.size(); ++i)
            if (h[i].root && h[i].st == M_PENDING)
            {
                Op s;
                s.kind = RESOLVE;
                s.h[0] = i;
                out.push_back(s);
                s.kind = REJECT;
                out.push_back(s);
            }
        return out;
    }
    // inner promises are returned (moved) into the library: the program keeps only their resolvers
    bool isInner(int hi) const
    {
        for (auto& c : conts)
            if (c.inner == hi)
                return true;
        return false;
    }
};

// ---- real execution ---------------------------------------------------------------------------------
struct Slot
{
    std::optional<Async::Resolver> res;
    std::optional<Async::Rejection> rej;
};
struct RH
{
    std::shared_ptr<Async::Promise<int>> p;
    std::shared_ptr<Slot> slot;
};
struct Real
{
    std::vector<RH> h;
    std::vector<std::string> log;
    std::vector<std::string> escaped;
    std::vector<std::shared_ptr<void>> keep; // combinator result promises
};
static Real* gR = nullptr;

static int exc_id(std::exception_ptr p)
{
    if (!p)
        return -1;
    try
    {
        std::rethrow_exception(p);
    }
    catch (const std::runtime_error& e)
    {
        return atoi(e.what());
    }
    catch (...)
    {
        return -2;
    }
}
static void rlog(const std::string& s) { gR->log.push_back(s); }

static std::shared_ptr<Async::Promise<int>> new_pending(std::shared_ptr<Slot> slot)
{
    return std::make_shared<Async::Promise<int>>([slot](Async::Resolver& r, Async::Rejection& j) {
        slot->res.emplace(std::move(r));
        slot->rej.emplace(std::move(j));
    });
}

template <typename Rej>
static void do_then(Real& R, const Op& op, int id, int derived, int inner, Rej rej)
{
    auto& src = *R.h[op.h[0]].p;
    switch (op.tk)
    {
    case TV: {
        auto d = src.then([id](int v) { rlog("c" + std::to_string(id) + ":ok:" + std::to_string(v)); return v + 1; }, rej);
        R.h[derived].p = std::make_shared<Async::Promise<int>>(std::move(d));
        break;
    }
    case TN:
        src.then([id](int v) { rlog("c" + std::to_string(id) + ":ok:" + std::to_string(v)); }, rej);
        break;
    case TP_RES: {
        auto d = src.then([id](int v) { rlog("c" + std::to_string(id) + ":ok:" + std::to_string(v)); return Async::Promise<int>::resolved(v * 10); }, rej);
        R.h[derived].p = std::make_shared<Async::Promise<int>>(std::move(d));
        break;
    }
    case TP_REJ: {
        auto d = src.then([id](int v) { rlog("c" + std::to_string(id) + ":ok:" + std::to_string(v)); return Async::Promise<int>::rejected(std::runtime_error(std::to_string(1000 + id))); }, rej);
        R.h[derived].p = std::make_shared<Async::Promise<int>>(std::move(d));
        break;
    }
    case TP_PEND: {
        auto d = src.then([id, inner](int v) {
            rlog("c" + std::to_string(id) + ":ok:" + std::to_string(v));
            auto slot            = std::make_shared<Slot>();
            gR->h[inner].slot    = slot;
            return Async::Promise<int>([slot](Async::Resolver& r, Async::Rejection& j) {
                slot->res.emplace(std::move(r));
                slot->rej.emplace(std::move(j));
            });
        },
                          rej);
        R.h[derived].p = std::make_shared<Async::Promise<int>>(std::move(d));
        break;
    }
    }
}

static std::string tuple_str(const std::tuple<int>& t) { return std::to_string(std::get<0>(t)) + ","; }
static std::string tuple_str(const std::tuple<int, int>& t) { return std::to_string(std::get<0>(t)) + "," + std::to_string(std::get<1>(t)) + ","; }
static std::string tuple_str(const std::tuple<int, int, int>& t) { return std::to_string(std::get<0>(t)) + "," + std::to_string(std::get<1>(t)) + "," + std::to_string(std::get<2>(t)) + ","; }
static std::string tuple_str(const std::tuple<int, int, int, int>& t) { return std::to_string(std::get<0>(t)) + "," + std::to_string(std::get<1>(t)) + "," + std::to_string(std::get<2>(t)) + "," + std::to_string(std::get<3>(t)) + ","; }

template <typename Tuple, typename PromiseT>
static void watch_all(Real& R, int id, PromiseT&& pr)
{
    auto sp = std::make_shared<Async::Promise<Tuple>>(std::move(pr));
    sp->then([id](const Tuple& t) { rlog("k" + std::to_string(id) + ":all:" + tuple_str(t)); },
             [id](std::exception_ptr e) { rlog("k" + std::to_string(id) + ":rej:" + std::to_string(exc_id(e))); });
    R.keep.push_back(sp);
}

static void run_real(const std::vector<Op>& prog, Real& R)
{
    gR = &R;
    for (size_t i = 0; i < prog.size(); ++i)
    {
        const Op& op = prog[i];
        try
        {
            switch (op.kind)
            {
            case NEW: {
                RH x;
                x.slot = std::make_shared<Slot>();
                x.p    = new_pending(x.slot);
                R.h.push_back(x);
                break;
            }
            case RESOLVED: {
                RH x;
                int n = (int)R.h.size();
                x.p   = std::make_shared<Async::Promise<int>>(Async::Promise<int>::resolved(10 * n + 1));
                R.h.push_back(x);
                break;
            }
            case REJECTED: {
                RH x;
                int n = (int)R.h.size();
                x.p   = std::make_shared<Async::Promise<int>>(Async::Promise<int>::rejected(std::runtime_error(std::to_string(n))));
                R.h.push_back(x);
                break;
            }
            case THEN: {
                int derived = -1, inner = -1;
                if (op.tk != TN)
                {
                    derived = (int)R.h.size();
                    R.h.emplace_back();
                }
                if (op.tk == TP_PEND)
                {
                    inner = (int)R.h.size();
                    R.h.emplace_back();
                }
                int id = (int)i;
                if (op.rk == IGN)
                    do_then(R, op, id, derived, inner, Async::IgnoreException);
                else if (op.rk == THROW)
                    do_then(R, op, id, derived, inner, Async::Throw);
                else
                    do_then(R, op, id, derived, inner, [id](std::exception_ptr e) { rlog("c" + std::to_string(id) + ":rej:" + std::to_string(exc_id(e))); });
                break;
            }
            case ALL: {
                int id = (int)i;
                if (op.n == 1)
                    watch_all<std::tuple<int>>(R, id, Async::whenAll(*R.h[op.h[0]].p));
                else if (op.n == 2)
                    watch_all<std::tuple<int, int>>(R, id, Async::whenAll(*R.h[op.h[0]].p, *R.h[op.h[1]].p));
                else if (op.n == 3)
                    watch_all<std::tuple<int, int, int>>(R, id, Async::whenAll(*R.h[op.h[0]].p, *R.h[op.h[1]].p, *R.h[op.h[2]].p));
                else
                    watch_all<std::tuple<int, int, int, int>>(R, id, Async::whenAll(*R.h[op.h[0]].p, *R.h[op.h[1]].p, *R.h[op.h[2]].p, *R.h[op.h[3]].p));
                break;
            }
            case ALLIT: {
                int id = (int)i;
                // the range form consumes a container of promises: hand it pass-through promises of the inputs
                std::vector<Async::Promise<int>> v;
                for (int k = 0; k < op.n; ++k)
                    v.push_back(R.h[op.h[k]].p->then([](int x) { return x; }, Async::Throw));
                auto sp = std::make_shared<Async::Promise<std::vector<int>>>(Async::whenAll(v.begin(), v.end()));
                sp->then([id](const std::vector<int>& r) {
                    std::string s = "k" + std::to_string(id) + ":all:";
                    for (int x : r) s += std::to_string(x) + ",";
                    rlog(s); },
                         [id](std::exception_ptr e) { rlog("k" + std::to_string(id) + ":rej:" + std::to_string(exc_id(e))); });
                R.keep.push_back(sp);
                auto hold = std::make_shared<std::vector<Async::Promise<int>>>(std::move(v));
                R.keep.push_back(hold);
                break;
            }
            case ANY: {
                int id = (int)i;
                std::shared_ptr<Async::Promise<Async::Any>> sp;
                if (op.n == 1)
                    sp = std::make_shared<Async::Promise<Async::Any>>(Async::whenAny(*R.h[op.h[0]].p));
                else if (op.n == 2)
                    sp = std::make_shared<Async::Promise<Async::Any>>(Async::whenAny(*R.h[op.h[0]].p, *R.h[op.h[1]].p));
                else if (op.n == 3)
                    sp = std::make_shared<Async::Promise<Async::Any>>(Async::whenAny(*R.h[op.h[0]].p, *R.h[op.h[1]].p, *R.h[op.h[2]].p));
                else
                    sp = std::make_shared<Async::Promise<Async::Any>>(Async::whenAny(*R.h[op.h[0]].p, *R.h[op.h[1]].p, *R.h[op.h[2]].p, *R.h[op.h[3]].p));
                sp->then([id](const Async::Any& a) { rlog("k" + std::to_string(id) + ":any:" + std::to_string(a.cast<int>())); },
                         [id](std::exception_ptr e) { rlog("k" + std::to_string(id) + ":rej:" + std::to_string(exc_id(e))); });
                R.keep.push_back(sp);
                break;
            }
            case RESOLVE: {
                auto& s = R.h[op.h[0]].slot;
                if (!s || !s->res)
                {
                    R.escaped.push_back("op" + std::to_string(i) + ":no-resolver");
                    break;
                }
                (*s->res)(10 * op.h[0] + 1);
                break;
            }
            case REJECT: {
                auto& s = R.h[op.h[0]].slot;
                if (!s || !s->rej)
                {
                    R.escaped.push_back("op" + std::to_string(i) + ":no-rejection");
                    break;
                }
                (*s->rej)(std::runtime_error(std::to_string(op.h[0])));
                break;
            }
            }
        }
        catch (const std::exception& e)
        {
            R.escaped.push_back(std::string(kOpNames[op.kind]) + " threw: " + e.what());
        }
        catch (const Async::Private::InternalRethrow&)
        {
            R.escaped.push_back(std::string(kOpNames[op.kind]) + " threw: InternalRethrow");
        }
        catch (...)
        {
            R.escaped.push_back(std::string(kOpNames[op.kind]) + " threw: unknown");
        }
    }
    gR = nullptr;
}

// ---- comparison -------------------------------------------------------------------------------------
static int K = 4, gMaxComb = 2;
static uint64_t gPrograms = 0, gMax = 0;

static std::string prog_str(const std::vector<Op>& p)
{
    std::string s;
    for (size_t i = 0; i < p.size(); ++i)
        s += (i ? "; " : "") + std::to_string(i) + ":" + p[i].str();
    return s;
}

static std::string shape(const std::vector<Op>& p)
{
    // signature = the op kinds involved after the first settle-relevant op (coarse, stable)
    std::set<std::string> kinds;
    for (auto& o : p)
    {
        std::string k = kOpNames[o.kind];
        if (o.kind == THEN)
            k += std::string(":") + kThenNames[o.tk] + ":" + kRejNames[o.rk];
        kinds.insert(k);
    }
    std::string s;
    for (auto& k : kinds)
        if (k.compare(0, 3, "new") && k.compare(0, 8, "resolved") && k.compare(0, 8, "rejected"))
            s += k + "+";
    return s;
}

static void check_program(const std::vector<Op>& prog, const Model& m, vr::Ctx& ctx)
{
    Real R;
    run_real(prog, R);
    ++gPrograms;
    std::string d = "{\"program\":" + vr::jstr(prog_str(prog)) + ",";
    if (!R.escaped.empty())
    {
        std::string what = R.escaped[0];
        std::string cls  = what.substr(0, what.find(" threw"));
        ctx.violation("c11:exception-escapes:" + cls + ":" + (what.find("reject a fulfilled") != std::string::npos ? "reject-a-settled-promise" : what.find("resolve a fulfilled") != std::string::npos ? "resolve-a-settled-promise" : "other") + (shape(prog).find("whenAny") != std::string::npos ? ":whenAny" : shape(prog).find("whenAll") != std::string::npos ? ":whenAll" : ""),
                      d + "\"escaped\":" + vr::jstr(what) + "}");
        return;
    }
    // at most once
    std::map<std::string, int> perCont;
    std::multiset<std::string> got;
    for (auto& l : R.log)
    {
        std::string key = l.substr(0, l.find(':', l.find(':') + 1)); // "c3:ok" / "c3:rej" / "k2:all"
        std::string cid = l.substr(0, l.find(':'));
        if (++perCont[cid + (l.find(":rej:") != std::string::npos ? "r" : "f")] > 1)
        {
            ctx.violation("c11:continuation-ran-twice", d + "\"log\":" + vr::jstr(l) + "}");
            return;
        }
        (void)key;
        got.insert(l);
    }
    // drop what the property leaves open: rejection-side entries of continuations on undetermined promises
    auto undetermined = [&](const std::string& l) {
        if (l[0] == 'c')
        {
            int id = atoi(l.c_str() + 1);
            return m.openConts.count(id) > 0 && l.find(":rej:") != std::string::npos;
        }
        if (l[0] == 'k')
        {
            int id = atoi(l.c_str() + 1);
            for (auto& c : m.combs)
                if (c.id == id && c.open)
                    return true;
        }
        return false;
    };
    std::multiset<std::string> gotDet;
    for (auto& l : got)
        if (!undetermined(l))
            gotDet.insert(l);
    if (gotDet != m.expect)
    {
        std::string ex, gt, first;
        for (auto& l : m.expect)
        {
            ex += l + " ";
            if (first.empty() && !gotDet.count(l))
                first = "missing:" + l.substr(0, 1) + l.substr(l.find(':'), l.find(':', l.find(':') + 1) - l.find(':'));
        }
        for (auto& l : gotDet)
        {
            gt += l + " ";
            if (first.empty() && !m.expect.count(l))
                first = "unexpected:" + l.substr(0, 1) + l.substr(l.find(':'), l.find(':', l.find(':') + 1) - l.find(':'));
        }
        if (first.empty())
            first = "multiplicity";
        ctx.violation("c11:outcomes-differ:" + first + ":" + shape(prog), d + "\"expected\":" + vr::jstr(ex) + ",\"observed\":" + vr::jstr(gt) + "}");
        return;
    }
    std::string oc;
    for (auto& l : gotDet)
        oc += l.substr(0, 1) + l.substr(l.find(':'), l.find(':', l.find(':') + 1) - l.find(':')) + " ";
    ctx.outcome(oc);
    if (!m.expect.empty())
        ctx.nontrivial(vr::hash_str(prog_str(prog)));
    ctx.state(vr::hash_str(oc + std::to_string(m.h.size())));
}

static void extend(std::vector<Op>& prog, const Model& m, vr::Ctx& ctx)
{
    if ((int)prog.size() == K)
    {
        check_program(prog, m, ctx);
        return;
    }
    if (ctx.case_violations > 3)
        return;
    for (const Op& op : m.enabled(gMaxComb))
    {
        // canonical form: creation ops that nothing can observe within the remaining budget are useless
        Model m2 = m;
        m2.apply(op, (int)prog.size());
        prog.push_back(op);
        extend(prog, m2, ctx);
        prog.pop_back();
    }
}

static std::vector<std::vector<Op>> gPrefixes;
static void gen_prefixes(std::vector<Op>& prog, const Model& m, int depth)
{
    if ((int)prog.size() == depth)
    {
        gPrefixes.push_back(prog);
        return;
    }
    for (const Op& op : m.enabled(gMaxComb))
    {
        Model m2 = m;
        m2.apply(op, (int)prog.size());
        prog.push_back(op);
        gen_prefixes(prog, m2, depth);
        prog.pop_back();
    }
}

// ---- combinator sweep: whenAll (variadic / range) and whenAny over 1..4 inputs, every input either settled before
// the combinator is built or settled afterwards, in every order and with every outcome ------------------------------
struct Sweep
{
    int kind, n, mask; // mask: base-3 digits, per input 0 = pending at creation, 1 = already fulfilled, 2 = already rejected
};
static std::vector<Sweep> gSweeps;

static void sweep_case(const Sweep& sw, vr::Ctx& ctx)
{
    std::vector<Op> head;
    std::vector<int> pending;
    int m3 = sw.mask;
    for (int i = 0; i < sw.n; ++i, m3 /= 3)
    {
        Op o;
        o.kind = m3 % 3 == 0 ? NEW : m3 % 3 == 1 ? RESOLVED : REJECTED;
        head.push_back(o);
        if (m3 % 3 == 0)
            pending.push_back(i);
    }
    Op comb;
    comb.kind = (uint8_t)sw.kind;
    comb.n    = (uint8_t)sw.n;
    for (int i = 0; i < sw.n; ++i)
        comb.h[i] = (uint8_t)i;
    head.push_back(comb);
    ctx.note("sweep " + prog_str(head));
    uint64_t before = gPrograms;
    std::vector<int> order = pending;
    std::sort(order.begin(), order.end());
    do
    {
        for (unsigned outcomes = 0; outcomes < (1u << order.size()); ++outcomes)
        {
            std::vector<Op> prog = head;
            for (size_t k = 0; k < order.size(); ++k)
            {
                Op o;
                o.kind = (outcomes >> k & 1) ? REJECT : RESOLVE;
                o.h[0] = (uint8_t)order[k];
                prog.push_back(o);
            }
            Model m;
            for (size_t i = 0; i < prog.size(); ++i)
                m.apply(prog[i], (int)i);
            check_program(prog, m, ctx);
            if (ctx.case_violations > 3)
                break;
        }
    } while (std::next_permutation(order.begin(), order.end()) && ctx.case_violations <= 3);
    ctx.count("executions", gPrograms - before);
    ctx.count("evaluations", gPrograms - before);
    ctx.count("transitions", (gPrograms - before) * (sw.n + 1 + pending.size()));
    if (sw.mask == 0)
        ctx.sample("{\"sweep\":" + vr::jstr(prog_str(head)) + ",\"orders_x_outcomes\":" + std::to_string(gPrograms - before) + "}");
}

// ---- void-source chains: the promise at the head of the chain is a Promise<void> ------------------------------------
// source: settled before / after the continuation is attached, fulfilled / rejected (4) x continuation returning a
// value, nothing, a fulfilled promise, a rejected promise, a pending promise settled later (5) x a watcher attached to
// the derived promise before the source settles / after everything (2); rejection handlers rethrow.
static void void_family(vr::Ctx& ctx)
{
    static const char* kSrc[]  = { "pending-then-fulfilled", "already-fulfilled", "pending-then-rejected", "already-rejected" };
    static const char* kCont[] = { "returns-value", "returns-nothing", "returns-fulfilled-promise", "returns-rejected-promise", "returns-pending-promise" };
    uint64_t n = 0;
    for (int src = 0; src < 4; ++src)
        for (int cont = 0; cont < 5; ++cont)
            for (int early = 0; early < 2; ++early)
            {
                std::string what = std::string("void source ") + kSrc[src] + ", continuation " + kCont[cont] + ", watcher attached " + (early ? "before the source settles" : "after everything");
                ctx.note(what);
                std::optional<Async::Resolver> res, ires;
                std::optional<Async::Rejection> rej, irej;
                int contRuns = 0, watchOk = 0, watchRej = 0, watchVal = -1, watchExc = -1;
                std::string escaped;
                bool fulfilled = src < 2;
                auto excp      = [](int id) { return std::make_exception_ptr(std::runtime_error(std::to_string(id))); };
                try
                {
                    Async::Promise<void> v = src == 1 ? Async::Promise<void>::resolved() : src == 3 ? Async::Promise<void>::rejected(std::runtime_error("1")) : Async::Promise<void>([&](Async::Resolver& r, Async::Rejection& j) { res.emplace(std::move(r)); rej.emplace(std::move(j)); });
                    std::shared_ptr<Async::Promise<int>> d;
                    auto watch = [&](Async::Promise<int>& p) {
                        p.then([&](int x) { ++watchOk; watchVal = x; }, [&](std::exception_ptr e) { ++watchRej; watchExc = exc_id(e); });
                    };
                    switch (cont)
                    {
                    case 0:
                        d = std::make_shared<Async::Promise<int>>(v.then([&]() { ++contRuns; return 7; }, Async::Throw));
                        break;
                    case 1:
                        v.then([&]() { ++contRuns; }, Async::Throw);
                        break;
                    case 2:
                        d = std::make_shared<Async::Promise<int>>(v.then([&]() { ++contRuns; return Async::Promise<int>::resolved(9); }, Async::Throw));
                        break;
                    case 3:
                        d = std::make_shared<Async::Promise<int>>(v.then([&]() { ++contRuns; return Async::Promise<int>::rejected(std::runtime_error("2")); }, Async::Throw));
                        break;
                    default:
                        d = std::make_shared<Async::Promise<int>>(v.then(
                            [&]() {
                                ++contRuns;
                                return Async::Promise<int>([&](Async::Resolver& r, Async::Rejection& j) { ires.emplace(std::move(r)); irej.emplace(std::move(j)); });
                            },
                            Async::Throw));
                    }
                    if (early && d)
                        watch(*d);
                    if (src == 0)
                        (*res)();
                    else if (src == 2)
                        (*rej)(excp(1));
                    if (cont == 4 && ires)
                        (*ires)(11);
                    if (!early && d)
                        watch(*d);
                }
                catch (const std::exception& e)
                {
                    escaped = e.what();
                }
                ++n;
                ++gPrograms;
                std::string obs = "cont_runs=" + std::to_string(contRuns) + " watcher_ok=" + std::to_string(watchOk) + "(" + std::to_string(watchVal) + ") watcher_rej=" + std::to_string(watchRej) + "(" + std::to_string(watchExc) + ")";
                std::string d2  = "{\"program\":" + vr::jstr(what) + ",\"observed\":" + vr::jstr(obs) + (escaped.empty() ? "" : ",\"exception\":" + vr::jstr(escaped)) + "}";
                static const int kVal[] = { 7, -1, 9, -1, 11 };
                bool ok = escaped.empty() && contRuns == (fulfilled ? 1 : 0);
                if (cont != 1)
                {
                    bool expectOk = fulfilled && cont != 3;
                    int expectExc = fulfilled ? 2 : 1;
                    ok            = ok && (expectOk ? (watchOk == 1 && watchRej == 0 && watchVal == kVal[cont]) : (watchOk == 0 && watchRej == 1 && watchExc == expectExc));
                }
                if (!ok)
                    ctx.violation(!escaped.empty() ? "c11:void-source:exception-escapes" : contRuns > 1 || watchOk + watchRej > 1 ? "c11:void-source:continuation-ran-twice" : "c11:void-source:outcome-differs:" + std::string(kCont[cont]), d2);
                ctx.outcome(std::string("void source: ") + (fulfilled ? "fulfilled" : "rejected") + " / " + kCont[cont]);
                ctx.nontrivial(vr::hash_str(what));
            }
    ctx.count("executions", n);
    ctx.count("evaluations", n);
    ctx.count("transitions", n * 4);
    ctx.sample("{\"void_source_chains\":" + std::to_string(n) + "}");
}

// ---- payload family (round 6): values that can be moved from -----------------------------------------------------------
// A Promise<std::string> / Promise<std::vector<int>> fulfilled with a value that does not fit a small-string buffer; 0..2
// continuations attached before the fulfilment and 1..2 after it (each taking its argument by value or by const reference and
// returning a value, nothing or a promise), optionally an all-of formed over the fulfilled promise: every continuation runs
// once and sees the produced value, whatever ran before it.
template <typename T>
static std::string payload_str(const T& v);
template <>
std::string payload_str(const std::string& v) { return v; }
template <>
std::string payload_str(const std::vector<int>& v)
{
    std::string o;
    for (int x : v)
        o += std::to_string(x) + ",";
    return o;
}
template <typename T>
static void payload_family(vr::Ctx& ctx, const T& original, const char* tname)
{
    static const char* kKind[] = { "by-value->value", "by-value->nothing", "const-ref->value", "by-value->promise" };
    const std::string want     = payload_str(original);
    uint64_t n = 0;
    // sequences of kinds: index 0 = none, 1..4 = one continuation, 5..20 = two
    auto kinds_of = [](int code) {
        std::vector<int> k;
        if (code >= 1 && code <= 4)
            k = { code - 1 };
        else if (code >= 5)
            k = { (code - 5) / 4, (code - 5) % 4 };
        return k;
    };
    for (int pre = 0; pre < 2; ++pre)
        for (int before = 0; before <= 20; ++before)
            for (int after = 1; after <= 20; ++after)
                for (int all = 0; all < 2; ++all)
                {
                    std::vector<int> kb = kinds_of(before), ka = kinds_of(after);
                    std::string what = std::string("Promise<") + tname + "> " + (pre ? "already fulfilled" : "fulfilled through its resolver") + "; before:";
                    for (int k : kb)
                        what += std::string(" ") + kKind[k];
                    what += "; after:";
                    for (int k : ka)
                        what += std::string(" ") + kKind[k];
                    if (all)
                        what += "; whenAll(p, 7) formed after the fulfilment";
                    ctx.note(what);
                    struct Seen
                    {
                        int runs = 0, rejs = 0;
                        std::string val;
                    };
                    std::vector<Seen> seen(kb.size() + ka.size());
                    std::vector<Seen> derived(kb.size() + ka.size()); // what the derived promise of each continuation delivered
                    Seen allSeen;
                    std::string escaped;
                    try
                    {
                        std::optional<Async::Resolver> res;
                        std::optional<Async::Rejection> rej;
                        Async::Promise<T> p = pre ? Async::Promise<T>::resolved(T(original)) : Async::Promise<T>([&](Async::Resolver& r, Async::Rejection& j) { res.emplace(std::move(r)); rej.emplace(std::move(j)); });
                        auto attach = [&](int kind, size_t slot) {
                            Seen* s  = &seen[slot];
                            Seen* ds = &derived[slot];
                            auto onRej = [s](std::exception_ptr) { s->rejs++; };
                            switch (kind)
                            {
                            case 0:
                                p.then([s](T v) { s->runs++; s->val = payload_str(v); return (int)payload_str(v).size(); }, onRej)
                                    .then([ds](int x) { ds->runs++; ds->val = std::to_string(x); }, [ds](std::exception_ptr) { ds->rejs++; });
                                break;
                            case 1:
                                p.then([s](T v) { s->runs++; s->val = payload_str(v); }, onRej);
                                break;
                            case 2:
                                p.then([s](const T& v) { s->runs++; s->val = payload_str(v); return (int)payload_str(v).size(); }, onRej)
                                    .then([ds](int x) { ds->runs++; ds->val = std::to_string(x); }, [ds](std::exception_ptr) { ds->rejs++; });
                                break;
                            default:
                                p.then([s](T v) { s->runs++; s->val = payload_str(v); return Async::Promise<T>::resolved(std::move(v)); }, onRej)
                                    .then([ds](const T& x) { ds->runs++; ds->val = payload_str(x); }, [ds](std::exception_ptr) { ds->rejs++; });
                            }
                        };
                        for (size_t i = 0; i < kb.size(); ++i)
                            attach(kb[i], i);
                        if (!pre)
                            (*res)(T(original));
                        for (size_t i = 0; i < ka.size(); ++i)
                            attach(ka[i], kb.size() + i);
                        auto seven = Async::Promise<int>::resolved(7);
                        if (all)
                            Async::whenAll(p, seven)
                                .then([&](const std::tuple<T, int>& t) { allSeen.runs++; allSeen.val = payload_str(std::get<0>(t)) + "|" + std::to_string(std::get<1>(t)); },
                                      [&](std::exception_ptr) { allSeen.rejs++; });
                    }
                    catch (const std::exception& e)
                    {
                        escaped = e.what();
                    }
                    ++n;
                    ++gPrograms;
                    std::string obs, sig;
                    for (size_t i = 0; i < seen.size(); ++i)
                    {
                        int kind = i < kb.size() ? kb[i] : ka[i - kb.size()];
                        obs += "[" + std::to_string(i) + ":" + kKind[kind] + " runs=" + std::to_string(seen[i].runs) + " saw=" + vr::show(seen[i].val.substr(0, 48)) + " derived_runs=" + std::to_string(derived[i].runs) + " derived=" + vr::show(derived[i].val.substr(0, 48)) + "] ";
                        if (seen[i].runs != 1 || seen[i].rejs != 0)
                            sig = "c11:payload:continuation-not-exactly-once";
                        else if (seen[i].val != want)
                            sig = std::string("c11:payload:continuation-saw-another-value:") + (i < kb.size() ? "attached-before" : "attached-after");
                        else if (kind != 1)
                        {
                            std::string dw = kind == 3 ? want : std::to_string(want.size());
                            if (derived[i].runs != 1 || derived[i].val != dw)
                                sig = "c11:payload:derived-promise-delivered-another-value";
                        }
                    }
                    if (all && sig.empty() && (allSeen.runs != 1 || allSeen.val != want + "|7"))
                        sig = "c11:payload:all-of-over-a-fulfilled-promise-delivered-another-value";
                    if (!escaped.empty())
                        sig = "c11:payload:exception-escapes";
                    if (!sig.empty())
                        ctx.violation(sig, "{\"program\":" + vr::jstr(what) + ",\"observed\":" + vr::jstr(obs) + ",\"all_of\":" + vr::jstr(allSeen.val.substr(0, 60)) + (escaped.empty() ? "" : ",\"exception\":" + vr::jstr(escaped)) + "}");
                    ctx.outcome(std::string("payload ") + tname + ": " + (sig.empty() ? "every continuation saw the value" : "differs"));
                    ctx.nontrivial(vr::hash_str(what));
                    ctx.state(vr::hash_str(what + obs));
                }
    ctx.count("executions", n);
    ctx.count("evaluations", n);
    ctx.count("transitions", n * 5);
    ctx.sample(std::string("{\"payload_programs_") + tname + "\":" + std::to_string(n) + "}");
    ctx.poll_reports();
}

// ---- ownership family: fire-and-forget chains ---------------------------------------------------------------------------
// src.then(f, Throw).then(g, h) where the program keeps or drops each of the three promise objects (source, first derived,
// second derived) right after building the chain, discards or keeps the source's resolver pair after using it, and settles
// the source before or after the chain is built; f returns a value, nothing, or a fulfilled / rejected / still pending
// promise (the pending one is settled last, fulfilled or rejected, after everything else has been dropped). Which objects
// the caller still holds must not change what reaches g / h: exactly one of them, once, with the right outcome.
template <bool VoidSrc>
static void lifetime_family(vr::Ctx& ctx)
{
    using Src = typename std::conditional<VoidSrc, Async::Promise<void>, Async::Promise<int>>::type;
    static const char* kF[] = { "returns-value", "returns-nothing", "returns-fulfilled-promise", "returns-rejected-promise", "returns-pending-promise" };
    uint64_t n = 0;
    for (int f = 0; f < 5; ++f)
        for (int innerRej = 0; innerRej < (f == 4 ? 2 : 1); ++innerRej)
            for (int srcRej = 0; srcRej < 2; ++srcRej)
                for (int presettled = 0; presettled < 2; ++presettled)
                    for (int keep = 0; keep < 8; ++keep)
                        for (int dropResolver = 0; dropResolver < 2; ++dropResolver)
                        {
                            std::string what = std::string(VoidSrc ? "void" : "int") + " source " + (presettled ? "settled before" : "settled after") + " the chain is built, " + (srcRej ? "rejected" : "fulfilled") + "; f " + kF[f] + (f == 4 ? (innerRej ? " (rejected later)" : " (fulfilled later)") : "") + "; caller keeps {" + ((keep & 1) ? "source " : "") + ((keep & 2) ? "derived1 " : "") + ((keep & 4) ? "derived2 " : "") + "}; resolver " + (dropResolver ? "discarded after use" : "kept");
                            ctx.note("lifetime " + what);
                            int fRuns = 0, gRuns = 0, hRuns = 0, gVal = -1, hExc = -1;
                            std::string escaped;
                            auto excp = [](int id) { return std::make_exception_ptr(std::runtime_error(std::to_string(id))); };
                            try
                            {
                                std::optional<Async::Resolver> res, ires;
                                std::optional<Async::Rejection> rej, irej;
                                std::optional<Src> s;
                                std::optional<Async::Promise<int>> d1;
                                auto settleSrc = [&] {
                                    if (srcRej)
                                        (*rej)(excp(1));
                                    else
                                    {
                                        if constexpr (VoidSrc)
                                            (*res)();
                                        else
                                            (*res)(5);
                                    }
                                    if (dropResolver)
                                    {
                                        res.reset();
                                        rej.reset();
                                    }
                                };
                                s.emplace([&](Async::Resolver& r, Async::Rejection& j) { res.emplace(std::move(r)); rej.emplace(std::move(j)); });
                                if (presettled)
                                    settleSrc();
                                auto inner = [&]() {
                                    return Async::Promise<int>([&](Async::Resolver& r, Async::Rejection& j) { ires.emplace(std::move(r)); irej.emplace(std::move(j)); });
                                };
                                auto g = [&](int x) { ++gRuns; gVal = x; };
                                auto h = [&](std::exception_ptr e) { ++hRuns; hExc = exc_id(e); };
                                bool hasD1 = f != 1;
                                if constexpr (VoidSrc)
                                {
                                    switch (f)
                                    {
                                    case 0: d1.emplace(s->then([&]() { ++fRuns; return 7; }, Async::Throw)); break;
                                    case 1: s->then([&]() { ++fRuns; }, Async::Throw); break;
                                    case 2: d1.emplace(s->then([&]() { ++fRuns; return Async::Promise<int>::resolved(9); }, Async::Throw)); break;
                                    case 3: d1.emplace(s->then([&]() { ++fRuns; return Async::Promise<int>::rejected(std::runtime_error("2")); }, Async::Throw)); break;
                                    default: d1.emplace(s->then([&]() { ++fRuns; return inner(); }, Async::Throw));
                                    }
                                }
                                else
                                {
                                    switch (f)
                                    {
                                    case 0: d1.emplace(s->then([&](int) { ++fRuns; return 7; }, Async::Throw)); break;
                                    case 1: s->then([&](int) { ++fRuns; }, Async::Throw); break;
                                    case 2: d1.emplace(s->then([&](int) { ++fRuns; return Async::Promise<int>::resolved(9); }, Async::Throw)); break;
                                    case 3: d1.emplace(s->then([&](int) { ++fRuns; return Async::Promise<int>::rejected(std::runtime_error("2")); }, Async::Throw)); break;
                                    default: d1.emplace(s->then([&](int) { ++fRuns; return inner(); }, Async::Throw));
                                    }
                                }
                                std::optional<Async::Promise<void>> d2;
                                if (hasD1)
                                    d2.emplace(d1->then(g, h));
                                if (!(keep & 1))
                                    s.reset();
                                if (!(keep & 2))
                                    d1.reset();
                                if (!(keep & 4))
                                    d2.reset();
                                if (!presettled)
                                    settleSrc();
                                if (f == 4 && ires)
                                {
                                    if (innerRej)
                                        (*irej)(excp(3));
                                    else
                                        (*ires)(11);
                                    ires.reset();
                                    irej.reset();
                                }
                            }
                            catch (const std::exception& e)
                            {
                                escaped = e.what();
                            }
                            ++n;
                            ++gPrograms;
                            static const int kVal[] = { 7, -1, 9, -1, 11 };
                            bool srcOk   = !srcRej;
                            bool ok      = escaped.empty() && fRuns == (srcOk ? 1 : 0);
                            if (f != 1)
                            {
                                bool expectOk = srcOk && f != 3 && !(f == 4 && innerRej);
                                int expectExc = !srcOk ? 1 : f == 3 ? 2 : 3;
                                ok            = ok && (expectOk ? (gRuns == 1 && hRuns == 0 && gVal == kVal[f]) : (gRuns == 0 && hRuns == 1 && hExc == expectExc));
                            }
                            std::string obs = "f_runs=" + std::to_string(fRuns) + " g_runs=" + std::to_string(gRuns) + "(" + std::to_string(gVal) + ") h_runs=" + std::to_string(hRuns) + "(" + std::to_string(hExc) + ")";
                            if (!ok)
                                ctx.violation(!escaped.empty() ? "c11:lifetime:exception-escapes" : gRuns + hRuns > 1 || fRuns > 1 ? "c11:lifetime:continuation-ran-twice" : gRuns + hRuns == 0 && f != 1 ? "c11:lifetime:outcome-never-delivered:f-" + std::string(kF[f]) : "c11:lifetime:outcome-differs:f-" + std::string(kF[f]),
                                              "{\"program\":" + vr::jstr(what) + ",\"observed\":" + vr::jstr(obs) + (escaped.empty() ? "" : ",\"exception\":" + vr::jstr(escaped)) + "}");
                            ctx.outcome(std::string("lifetime: f ") + kF[f] + " -> " + (gRuns ? "g" : hRuns ? "h" : "-"));
                            ctx.nontrivial(vr::hash_str(what));
                            ctx.poll_reports();
                        }
    ctx.count("executions", n);
    ctx.count("evaluations", n);
    ctx.count("transitions", n * 5);
    ctx.sample("{\"lifetime_chains_" + std::string(VoidSrc ? "void" : "int") + "_source\":" + std::to_string(n) + "}");
}

int main(int argc, char** argv)
{
    vr::Options opt = vr::parse_args(argc, argv);
    for (int kind : { (int)ALL, (int)ALLIT, (int)ANY })
        for (int n = 1; n <= 4; ++n)
        {
            int masks = 1;
            for (int i = 0; i < n; ++i)
                masks *= 3;
            for (int mk = 0; mk < masks; ++mk)
                gSweeps.push_back({ kind, n, mk });
        }
    K               = opt.geti("K", 4);
    gMaxComb        = opt.geti("comb", 2);
    int pre         = std::min(K, (int)opt.geti("prefix", 3));
    {
        std::vector<Op> p;
        Model m;
        gen_prefixes(p, m, pre);
    }
    if (opt.kv.count("print"))
    {
        printf("%zu prefixes of length %d\n", gPrefixes.size(), pre);
        return 0;
    }
    return vr::run(opt, gPrefixes.size() + gSweeps.size() + 5, [](uint64_t idx, vr::Ctx& ctx) {
        if (idx == gPrefixes.size() + gSweeps.size() + 3)
        {
            payload_family<std::string>(ctx, std::string("a value that does not fit a small-string buffer: 0123456789"), "string");
            return;
        }
        if (idx == gPrefixes.size() + gSweeps.size() + 4)
        {
            payload_family<std::vector<int>>(ctx, std::vector<int> { 3, 1, 4, 1, 5, 9, 2, 6 }, "vector");
            return;
        }
        if (idx == gPrefixes.size() + gSweeps.size())
        {
            void_family(ctx);
            return;
        }
        if (idx > gPrefixes.size() + gSweeps.size())
        {
            if (idx == gPrefixes.size() + gSweeps.size() + 1)
                lifetime_family<false>(ctx);
            else
                lifetime_family<true>(ctx);
            return;
        }
        if (idx >= gPrefixes.size())
        {
            sweep_case(gSweeps[idx - gPrefixes.size()], ctx);
            return;
        }
        std::vector<Op> prog = gPrefixes[idx];
        Model m;
        for (size_t i = 0; i < prog.size(); ++i)
            m.apply(prog[i], (int)i);
        ctx.note("prefix " + prog_str(prog));
        uint64_t before = gPrograms;
        extend(prog, m, ctx);
        ctx.count("executions", gPrograms - before);
        ctx.count("evaluations", gPrograms - before);
        ctx.count("transitions", (gPrograms - before) * K);
        if (idx % 401 == 0)
            ctx.sample("{\"prefix\":" + vr::jstr(prog_str(gPrefixes[idx])) + ",\"programs_below\":" + std::to_string(gPrograms - before) + "}");
    });
}
