// C12: cross-thread settle and attach never lose or repeat a continuation.
//
// Two (three) real threads on real Async::Promise objects, gated at the hook points inside async.h (lock
// acquisition, state load/store, continuation-list append and walk, construct). All schedules up to a
// preemption bound are explored by stateless DFS; per execution every continuation must have run exactly
// once with the settled outcome. The same schedules run in a TSan build (raw-futex hand-off, no
// happens-before from the scheduler) to catch unsynchronised accesses to the shared core.
#define VR_OWN_VERIF_POINT
// Scheduling points: (1) every pthread_mutex_lock made by a scheduled thread (interposed below; enabled iff
// the mutex is free), (2) every std::atomic operation inside async.h (atomic_shim.h), (3) the explicit
// PISTACHE_VERIF_POINT hooks at the continuation-list accesses and in construct(). (1) and (2) do not depend
// on where hooks were placed in the source; the explicit lock/state hooks mark the same places and are skipped.
#include "common/atomic_shim.h"
#include <functional>
#include <type_traits>
#include <typeinfo>
#include <vector>
#include <pistache/typeid.h>
#define atomic verif_atomic
#include <pistache/async.h>
#undef atomic

#include "common/explore.h"
#include "common/runner.h"

#include <dlfcn.h>

using namespace Pistache;

extern "C" void pistache_verif_point(int kind, const void* addr)
{
    if (kind == VS_A_LOCK || kind == VS_A_STATE_LOAD || kind == VS_A_STATE_STORE)
        return; // covered by the interposed pthread_mutex_lock / the atomic shim
    vs_point(kind, addr);
}

extern "C" int __pthread_mutex_lock(pthread_mutex_t*);
static int (*real_mutex_lock)(pthread_mutex_t*) = nullptr;
__attribute__((constructor)) static void resolve_mutex_lock()
{
    real_mutex_lock = reinterpret_cast<int (*)(pthread_mutex_t*)>(dlsym(RTLD_NEXT, "pthread_mutex_lock"));
}
extern "C" int pthread_mutex_lock(pthread_mutex_t* m)
{
    if (vs_self() >= 0)
        vs_point(VS_A_LOCK, m);
    return real_mutex_lock ? real_mutex_lock(m) : __pthread_mutex_lock(m);
}

struct Slot
{
    std::unique_ptr<Async::Resolver> res;
    std::unique_ptr<Async::Rejection> rej;
};

struct World
{
    Slot slot2;       // second input of a combinator
    std::unique_ptr<Async::Promise<int>> q;
    std::unique_ptr<Async::Promise<Async::Any>> any;
    std::unique_ptr<Async::Promise<std::tuple<int, int>>> all;
    Slot slot, inner; // inner: resolver / rejection of a promise that a continuation returned while still pending
    std::unique_ptr<Async::Promise<int>> p, d;
    std::unique_ptr<Async::Promise<void>> pv;
    // per-continuation logs; written by whichever thread runs the continuation, read after join
    struct Log
    {
        int runs = 0;
        int val  = 0;
        int rejs = 0;
        std::string exc;
    } k[3];
    std::string threw[3];
    int scenario = 0;
};

static const char* kScenarioNames[] = {
    "resolve || then",
    "resolve || then;then",
    "reject || then",
    "resolve p || then on derived(value continuation) created before",
    "resolve p || p.then(f).then(k)",
    "resolve p || then on derived(promise-returning continuation) created before",
    "reject p || then on derived(rethrow) created before",
    "resolve || then k1 || then k2",
    "resolve p || then on derived of derived created before",
    "resolve void promise || then",
    "reject void promise || then",
    "reject the pending promise a continuation returned || then on the derived promise",
    "resolve the pending promise a continuation returned || then on the derived promise",
    "whenAny(p,q): resolve p || resolve q",
    "whenAny(p,q): resolve p || reject q",
    "whenAny(p,q): reject p || resolve q",
    "whenAll(p,q): resolve p || resolve q",
    "whenAll(p,q): resolve p || reject q",
    "resolve void p || then on the promise derived from it (value continuation), which already has a continuation",
    "reject void p || then on the promise derived from it (rethrow), which already has a continuation",
    "resolve void p || then on the promise derived from it (promise-returning continuation), which already has a continuation",
    "resolve p || then on the promise derived from it (value continuation), which already has a continuation",
    "resolve the pending promise a continuation returned || then on the derived promise, which already has two continuations",
    "reject the pending promise a continuation returned || then on the derived promise, which already has two continuations",
};
static const int kNScenarios = 24;

static std::string what(std::exception_ptr e)
{
    if (!e)
        return "<null>";
    try
    {
        std::rethrow_exception(e);
    }
    catch (const std::exception& x)
    {
        return x.what();
    }
    catch (...)
    {
        return "<non-std>";
    }
}

static void settle_thread(void* a)
{
    World* w = static_cast<World*>(a);
    try
    {
        if (w->scenario == 2 || w->scenario == 6 || w->scenario == 10 || w->scenario == 15 || w->scenario == 19)
            (*w->slot.rej)(std::runtime_error("boom"));
        else if (w->scenario == 9 || w->scenario == 18 || w->scenario == 20)
            (*w->slot.res)();
        else if (w->scenario == 11 || w->scenario == 23)
            (*w->inner.rej)(std::runtime_error("boom"));
        else if (w->scenario == 12 || w->scenario == 22)
            (*w->inner.res)(7);
        else
            (*w->slot.res)(5);
    }
    catch (const std::exception& e)
    {
        w->threw[0] = e.what();
    }
}

template <int N>
static void attach_to(World* w, Async::Promise<int>& target)
{
    target.then([w](int v) { w->k[N].runs++; w->k[N].val = v; },
                [w](std::exception_ptr e) { w->k[N].rejs++; w->k[N].exc = what(e); });
}

static void attach_thread(void* a)
{
    World* w = static_cast<World*>(a);
    try
    {
        switch (w->scenario)
        {
        case 0:
        case 2:
            attach_to<0>(w, *w->p);
            break;
        case 1:
            attach_to<0>(w, *w->p);
            attach_to<1>(w, *w->p);
            break;
        case 3:
        case 5:
        case 6:
        case 8:
        case 11:
        case 12:
            attach_to<0>(w, *w->d);
            break;
        case 9:
        case 10:
            w->pv->then([w]() { w->k[0].runs++; w->k[0].val = 1; },
                        [w](std::exception_ptr e) { w->k[0].rejs++; w->k[0].exc = what(e); });
            break;
        case 4: {
            auto d = w->p->then([](int v) { return v + 1; }, Async::Throw);
            attach_to<0>(w, d);
            break;
        }
        case 7:
            attach_to<0>(w, *w->p);
            break;
        case 13:
        case 15:
        case 16:
            (*w->slot2.res)(6);
            break;
        case 18:
        case 19:
        case 20:
        case 21:
            attach_to<1>(w, *w->d);
            break;
        case 14:
        case 17:
            (*w->slot2.rej)(std::runtime_error("bang"));
            break;
        case 22:
        case 23:
            attach_to<2>(w, *w->d);
            break;
        }
    }
    catch (const std::exception& e)
    {
        w->threw[1] = e.what();
    }
}
static void attach_thread2(void* a)
{
    World* w = static_cast<World*>(a);
    try
    {
        attach_to<1>(w, *w->p);
    }
    catch (const std::exception& e)
    {
        w->threw[2] = e.what();
    }
}

struct Case
{
    int scenario, bound, shard, nshards;
};
static std::vector<Case> gCases;

static void run_case(uint64_t idx, vr::Ctx& ctx)
{
    const Case c     = gCases[idx];
    std::string name = std::string(kScenarioNames[c.scenario]) + " pb<=" + (c.bound < 0 ? std::string("inf") : std::to_string(c.bound));
    ctx.note("scenario " + name);
    World* w = nullptr;
    ex::Scenario sc;
    sc.setup = [&]() {
        w           = new World();
        w->scenario = c.scenario;
        w->p.reset(new Async::Promise<int>([&](Async::Resolver& r, Async::Rejection& j) {
            w->slot.res.reset(new Async::Resolver(std::move(r)));
            w->slot.rej.reset(new Async::Rejection(std::move(j)));
        }));
        switch (c.scenario)
        {
        case 9:
        case 10:
            w->pv.reset(new Async::Promise<void>([&](Async::Resolver& r, Async::Rejection& j) {
                w->slot.res.reset(new Async::Resolver(std::move(r)));
                w->slot.rej.reset(new Async::Rejection(std::move(j)));
            }));
            break;
        case 11:
        case 12:
        case 22:
        case 23: {
            // the continuation returns a promise that is still pending; p is fulfilled right here, so the race is
            // between settling that inner promise and attaching to the derived one
            World* ww = w;
            w->d.reset(new Async::Promise<int>(w->p->then(
                [ww](int) {
                    return Async::Promise<int>([ww](Async::Resolver& r, Async::Rejection& j) {
                        ww->inner.res.reset(new Async::Resolver(std::move(r)));
                        ww->inner.rej.reset(new Async::Rejection(std::move(j)));
                    });
                },
                Async::Throw)));
            (*w->slot.res)(5);
            if (c.scenario >= 22)
            {
                // the derived promise's continuation list is exactly full (two entries, capacity two) when the race starts
                attach_to<0>(w, *w->d);
                attach_to<1>(w, *w->d);
            }
            break;
        }
        case 18:
        case 19:
        case 20:
        case 21: {
            if (c.scenario != 21)
                w->pv.reset(new Async::Promise<void>([&](Async::Resolver& r, Async::Rejection& j) {
                    w->slot.res.reset(new Async::Resolver(std::move(r)));
                    w->slot.rej.reset(new Async::Rejection(std::move(j)));
                }));
            if (c.scenario == 20)
                w->d.reset(new Async::Promise<int>(w->pv->then([]() { return Async::Promise<int>::resolved(42); }, Async::Throw)));
            else if (c.scenario == 21)
                w->d.reset(new Async::Promise<int>(w->p->then([](int v) { return v + 37; }, Async::Throw)));
            else
                w->d.reset(new Async::Promise<int>(w->pv->then([]() { return 42; }, Async::Throw)));
            attach_to<0>(w, *w->d);
            break;
        }
        case 13:
        case 14:
        case 15:
        case 16:
        case 17: {
            World* ww = w;
            w->q.reset(new Async::Promise<int>([&](Async::Resolver& r, Async::Rejection& j) {
                w->slot2.res.reset(new Async::Resolver(std::move(r)));
                w->slot2.rej.reset(new Async::Rejection(std::move(j)));
            }));
            if (c.scenario <= 15)
            {
                w->any.reset(new Async::Promise<Async::Any>(Async::whenAny(*w->p, *w->q)));
                w->any->then([ww](const Async::Any& a) { ww->k[0].runs++; ww->k[0].val = a.cast<int>(); },
                             [ww](std::exception_ptr e) { ww->k[0].rejs++; ww->k[0].exc = what(e); });
            }
            else
            {
                w->all.reset(new Async::Promise<std::tuple<int, int>>(Async::whenAll(*w->p, *w->q)));
                w->all->then([ww](const std::tuple<int, int>& t) { ww->k[0].runs++; ww->k[0].val = std::get<0>(t) * 10 + std::get<1>(t); },
                             [ww](std::exception_ptr e) { ww->k[0].rejs++; ww->k[0].exc = what(e); });
            }
            // continuations attached to the inputs themselves, after the combinator: each must see its own input's outcome
            attach_to<1>(w, *w->p);
            attach_to<2>(w, *w->q);
            break;
        }
        case 3:
            w->d.reset(new Async::Promise<int>(w->p->then([](int v) { return v + 1; }, Async::Throw)));
            break;
        case 5:
            w->d.reset(new Async::Promise<int>(w->p->then([](int v) { return Async::Promise<int>::resolved(v * 2); }, Async::Throw)));
            break;
        case 6:
            w->d.reset(new Async::Promise<int>(w->p->then([](int v) { return v + 1; }, Async::Throw)));
            break;
        case 8: {
            auto d1 = w->p->then([](int v) { return v + 1; }, Async::Throw);
            w->d.reset(new Async::Promise<int>(d1.then([](int v) { return v + 10; }, Async::Throw)));
            break;
        }
        }
        vs_spawn(settle_thread, w);
        vs_spawn(attach_thread, w);
        if (c.scenario == 7)
            vs_spawn(attach_thread2, w);
    };
    sc.finish = [&](const ex::Execution& x) {
        std::string sched = x.schedule();
        auto detail       = [&](const std::string& extra) {
            std::string pts;
            for (auto& p : x.points)
                pts += std::to_string((int)p.tid) + ":" + std::to_string((int)p.kind) + " ";
            return "{\"scenario\":" + vr::jstr(name) + ",\"schedule(thread:point-kind)\":" + vr::jstr(pts) + ",\"preemptions\":" + std::to_string(x.preemptions()) + "," + extra + "}";
        };
        if (x.deadlock || x.horizon)
            ctx.violation(std::string("c12:") + (x.deadlock ? "deadlock" : "horizon") + ":" + kScenarioNames[c.scenario], detail("\"x\":0"));
        else if (c.scenario >= 13 && c.scenario <= 17)
        {
            for (int t = 0; t < 3; ++t)
                if (!w->threw[t].empty())
                    ctx.violation(std::string("c12:exception-in-the-settling-thread:") + kScenarioNames[c.scenario], detail("\"what\":" + vr::jstr(w->threw[t])));
            bool pRej = c.scenario == 15, qRej = c.scenario == 14 || c.scenario == 17;
            auto obs  = [&](int i) {
                auto& k = w->k[i];
                return "runs=" + std::to_string(k.runs) + " val=" + std::to_string(k.val) + " rejs=" + std::to_string(k.rejs) + " exc=" + k.exc;
            };
            auto& k0 = w->k[0];
            bool ok0;
            if (c.scenario <= 15) // any-of: the first outcome, whichever it is; exactly one delivery
                ok0 = k0.runs + k0.rejs == 1 && (k0.runs ? ((k0.val == 5 && !pRej) || (k0.val == 6 && !qRej)) : ((k0.exc == "boom" && pRej) || (k0.exc == "bang" && qRej)));
            else // all-of
                ok0 = qRej ? (k0.runs == 0 && k0.rejs == 1 && k0.exc == "bang") : (k0.runs == 1 && k0.rejs == 0 && k0.val == 56);
            if (!ok0)
                ctx.violation(std::string("c12:") + (k0.runs + k0.rejs == 0 ? "continuation-lost" : k0.runs + k0.rejs > 1 ? "continuation-ran-twice" : "wrong-outcome") + ":" + kScenarioNames[c.scenario], detail("\"continuation\":0,\"observed\":" + vr::jstr(obs(0))));
            bool ok1 = pRej ? (w->k[1].runs == 0 && w->k[1].rejs == 1 && w->k[1].exc == "boom") : (w->k[1].runs == 1 && w->k[1].rejs == 0 && w->k[1].val == 5);
            bool ok2 = qRej ? (w->k[2].runs == 0 && w->k[2].rejs == 1 && w->k[2].exc == "bang") : (w->k[2].runs == 1 && w->k[2].rejs == 0 && w->k[2].val == 6);
            if (!ok1 || !ok2)
                ctx.violation(std::string("c12:continuation-on-a-combinator-input-lost-or-wrong:") + kScenarioNames[c.scenario], detail("\"on_p\":" + vr::jstr(obs(1)) + ",\"on_q\":" + vr::jstr(obs(2))));
            ctx.outcome(std::string(kScenarioNames[c.scenario]) + " -> " + obs(0));
        }
        else
        {
            int expectVal[] = { 5, 5, 0, 6, 6, 10, 0, 5, 16, 1, 0, 0, 7, 0, 0, 0, 0, 0, 42, 0, 42, 42, 7, 0 };
            bool rejecting  = c.scenario == 2 || c.scenario == 6 || c.scenario == 10 || c.scenario == 11 || c.scenario == 19 || c.scenario == 23;
            int nconts      = c.scenario >= 22 ? 3 : (c.scenario == 1 || c.scenario == 7 || c.scenario >= 18) ? 2 : 1;
            for (int t = 0; t < 3; ++t)
                if (!w->threw[t].empty())
                    ctx.violation(std::string("c12:exception-in-thread:") + kScenarioNames[c.scenario], detail("\"what\":" + vr::jstr(w->threw[t])));
            for (int i = 0; i < nconts; ++i)
            {
                auto& k = w->k[i];
                std::string obs = "runs=" + std::to_string(k.runs) + " val=" + std::to_string(k.val) + " rejs=" + std::to_string(k.rejs) + " exc=" + k.exc;
                bool ok = rejecting ? (k.runs == 0 && k.rejs == 1 && k.exc == "boom") : (k.runs == 1 && k.rejs == 0 && k.val == expectVal[c.scenario]);
                if (!ok)
                {
                    std::string kind = (k.runs + k.rejs == 0) ? "continuation-lost" : (k.runs + k.rejs > 1) ? "continuation-ran-twice" : "wrong-outcome";
                    ctx.violation("c12:" + kind + ":" + kScenarioNames[c.scenario], detail("\"continuation\":" + std::to_string(i) + ",\"observed\":" + vr::jstr(obs)));
                }
                ctx.outcome(std::string(kScenarioNames[c.scenario]) + " -> " + obs);
            }
        }
        uint64_t h = vr::hash_str(name);
        for (auto& p : x.points)
        {
            h = h * 1099511628211ull + (uint64_t)(p.tid + 1);
            ctx.state(h);
        }
        if (x.preemptions() > 0)
            ctx.nontrivial(h);
        delete w;
        w = nullptr;
        ctx.poll_reports();
    };
    ex::Stats st;
    auto stopCheck = [&](const ex::Execution&) { if (ctx.case_violations >= 3 || ctx.stopping()) st.stop = true; };
    ex::explore(sc, c.bound, st, 3000000, stopCheck, c.shard, c.nshards);
    ctx.count("executions", st.executions);
    ctx.count("transitions", st.transitions);
    ctx.maxc("max_points_per_execution", st.maxPoints);
    if (st.budgetHit)
        ctx.count("budget_hit", 1);
    if (st.stop && ctx.case_violations < 3)
        ctx.count("incomplete_cases", 1); // wound up at the run's deadline
    ctx.sample("{\"scenario\":" + vr::jstr(name) + ",\"executions\":" + std::to_string(st.executions) + ",\"max_points\":" + std::to_string(st.maxPoints) + "}");
}

int main(int argc, char** argv)
{
    vr::Options opt = vr::parse_args(argc, argv);
    bool thorough   = opt.geti("thorough", 0);
    int maxb        = opt.geti("maxbound", 2);
    int from = opt.geti("from", 0), to = std::min<int>(opt.geti("to", kNScenarios - 1), kNScenarios - 1);
    int alsoFrom = opt.geti("also-from", kNScenarios);
    std::vector<int> scen;
    for (int s = from; s <= to; ++s)
        scen.push_back(s);
    for (int s = std::max(alsoFrom, to + 1); s < kNScenarios; ++s)
        scen.push_back(s);
    for (int s : scen)
        for (int b = 0; b <= maxb; ++b)
            gCases.push_back({ s, b, 0, 1 });
    if (thorough)
        for (int s : scen)
        {
            if (s == 7)
                for (int sh = 0; sh < 8; ++sh)
                    gCases.push_back({ s, 3, sh, 8 });
            else
                for (int sh = 0; sh < 4; ++sh)
                    gCases.push_back({ s, -1, sh, 4 }); // 2 threads: every schedule
        }
    return vr::run(opt, gCases.size(), run_case);
}
