// C13: cross-thread queue - no loss, duplication, reordering or missed wake-up.
//
// Real PollableQueue<int> bound to a real epoll instance (level-triggered, as the code registers it); P real
// producer threads pushing k items each, one real consumer that behaves like Transport::handleWriteQueue
// (blocked until the eventfd is readable, then popSafe() until empty, then blocked again). All interleavings
// of the hooked points inside Queue::push/pop and PollableQueue::push/pop up to a preemption bound are
// explored by stateless DFS under the cooperative scheduler. Deadlock (consumer blocked, eventfd not
// readable, producers finished) with an item still queued is the missed wake-up verdict.
#define VR_OWN_VERIF_POINT
// Scheduling points come from two source-independent layers: every std::atomic operation inside mailbox.h
// (atomic_shim.h) and every read/write on the queue's eventfd (interposed below). The explicit
// PISTACHE_VERIF_POINT hooks in mailbox.h mark the same places and are therefore not used as extra points.
#include "common/atomic_shim.h"
#include <pistache/common.h>
#include <pistache/os.h>
#define atomic verif_atomic
#include <pistache/mailbox.h>
#undef atomic

#include "common/explore.h"
#include "common/runner.h"

#include <dlfcn.h>

using namespace Pistache;

extern "C" void pistache_verif_point(int, const void*) { }

static int g_efds[8];
static int g_nefds = 0;
static bool is_efd(int fd)
{
    for (int i = 0; i < g_nefds; ++i)
        if (g_efds[i] == fd)
            return true;
    return false;
}
extern "C" ssize_t write(int fd, const void* buf, size_t n)
{
    static auto fn = reinterpret_cast<ssize_t (*)(int, const void*, size_t)>(dlsym(RTLD_NEXT, "write"));
    if (is_efd(fd))
        vs_point(VS_PQ_PUSH_BEFORE_NOTIFY, (const void*)(long)fd);
    return fn(fd, buf, n);
}
extern "C" ssize_t read(int fd, void* buf, size_t n)
{
    static auto fn = reinterpret_cast<ssize_t (*)(int, void*, size_t)>(dlsym(RTLD_NEXT, "read"));
    if (is_efd(fd))
        vs_point(VS_PQ_POP_BEFORE_DRAIN, (const void*)(long)fd);
    return fn(fd, buf, n);
}

struct Scn
{
    int P, k, bound, shard, nshards;
};
static std::vector<Scn> gCases;

struct World
{
    std::unique_ptr<Polling::Epoll> poller;
    std::unique_ptr<PollableQueue<int>> q;
    int efd = -1;
    int P = 0, k = 0;
    std::vector<int> popped;
    int wakeups = 0;
    struct ProdArg
    {
        World* w;
        int id;
    } pargs[4];
};
static World* gW = nullptr;

static void producer(void* a)
{
    auto* pa = static_cast<World::ProdArg*>(a);
    for (int j = 0; j < pa->w->k; ++j)
        pa->w->q->push(pa->id * 1000 + j);
}
static void consumer(void* a)
{
    World* w = static_cast<World*>(a);
    try
    {
        const int total = w->P * w->k;
        while ((int)w->popped.size() < total)
        {
            ex::wait_readable(w->efd);
            ++w->wakeups;
            for (;;)
            {
                auto v = w->q->popSafe();
                if (!v)
                    break;
                w->popped.push_back(*v);
            }
        }
    }
    catch (const ex::Abort&)
    { }
}

static void run_case(uint64_t idx, vr::Ctx& ctx)
{
    const Scn c = gCases[idx];
    std::string name = std::to_string(c.P) + "x" + std::to_string(c.k) + " pb<=" + (c.bound < 0 ? std::string("inf") : std::to_string(c.bound));
    ctx.note("scenario " + name + " shard " + std::to_string(c.shard));
    World* w = nullptr;
    ex::Scenario sc;
    sc.setup = [&]() {
        w         = new World();
        gW        = w;
        w->P      = c.P;
        w->k      = c.k;
        w->poller.reset(new Polling::Epoll());
        w->q.reset(new PollableQueue<int>());
        w->q->bind(*w->poller);
        w->efd = w->q->event_fd;
        g_efds[0] = w->efd;
        g_nefds   = 1;
        for (int i = 0; i < c.P; ++i)
        {
            w->pargs[i] = { w, i };
            vs_spawn(producer, &w->pargs[i]);
        }
        vs_spawn(consumer, w);
    };
    uint64_t viol = 0;
    std::map<std::string, int> firstAt;
    sc.finish = [&](const ex::Execution& x) {
        std::string sched = x.schedule();
        auto detail = [&](const std::string& extra) {
            std::string pop;
            for (int v : w->popped)
                pop += std::to_string(v) + " ";
            return "{\"scenario\":" + vr::jstr(name) + ",\"schedule_thread_ids\":" + vr::jstr(sched) + ",\"preemptions\":" + std::to_string(x.preemptions()) + ",\"popped\":" + vr::jstr(pop) + "," + extra + "}";
        };
        if (x.horizon)
            ctx.violation("c13:harness:horizon-reached", detail("\"x\":0"));
        if (x.deadlock)
        {
            bool queued = !w->q->empty();
            if (queued)
                ctx.violation("c13:missed-wakeup:consumer-asleep-with-item-queued", detail("\"producers_done\":true"));
            else
                ctx.violation("c13:lost-item:queue-empty-but-not-all-items-popped", detail("\"x\":0"));
            ++viol;
        }
        else
        {
            // multiset + per-producer order
            std::vector<int> nextOf(c.P, 0);
            bool ok = (int)w->popped.size() == c.P * c.k;
            for (int v : w->popped)
            {
                int p = v / 1000, j = v % 1000;
                if (p < 0 || p >= c.P || j != nextOf[p])
                    ok = false;
                else
                    nextOf[p]++;
            }
            if (!ok)
            {
                ctx.violation("c13:order-or-multiset", detail("\"x\":0"));
                ++viol;
            }
            ctx.outcome(name + " wakeups=" + std::to_string(w->wakeups));
        }
        // nodes of the schedule tree
        uint64_t h = vr::hash_str(name);
        for (auto& p : x.points)
        {
            h = h * 1099511628211ull + (uint64_t)(p.tid + 1);
            ctx.state(h);
        }
        if (x.preemptions() > 0)
            ctx.nontrivial(h);
        // a cut chain (pop() finds nothing although head != tail) would make ~Queue() spin on a null entry:
        // report it and leak this world instead of destroying it
        bool wedged = false;
        if (!x.deadlock)
        {
            while (w->q->popSafe())
            { }
            wedged = !w->q->empty();
        }
        else
            wedged = true; // threads were abandoned mid-operation: do not run destructors over their state
        if (wedged && !x.deadlock)
            ctx.violation("c13:queue-wedged:pop-finds-nothing-but-queue-not-empty", detail("\"x\":0"));
        if (!wedged)
            delete w;
        w = nullptr;
    };
    ex::Stats st;
    auto stopCheck = [&](const ex::Execution&) { if (ctx.case_violations >= 3 || ctx.stopping()) st.stop = true; };
    ex::explore(sc, c.bound, st, 4000000, stopCheck, c.shard, c.nshards);
    ctx.count("executions", st.executions);
    ctx.count("transitions", st.transitions);
    ctx.count("deadlocks", st.deadlocks);
    ctx.maxc("max_points_per_execution", st.maxPoints);
    if (st.budgetHit)
        ctx.count("budget_hit", 1);
    if (st.stop && ctx.case_violations < 3)
        ctx.count("incomplete_cases", 1); // wound up at the run's deadline
    ctx.sample("{\"scenario\":" + vr::jstr(name) + ",\"shard\":" + std::to_string(c.shard) + ",\"executions\":" + std::to_string(st.executions) + ",\"deadlocks\":" + std::to_string(st.deadlocks) + "}");
    (void)viol;
}

int main(int argc, char** argv)
{
    vr::Options opt = vr::parse_args(argc, argv);
    bool thorough   = opt.geti("thorough", 0);
    auto add        = [&](int P, int k, int bound, int nsh) {
        for (int s = 0; s < nsh; ++s)
            gCases.push_back({ P, k, bound, s, nsh });
    };
    // self-check of determinism: the same scenario twice must give identical counts (done by the driver via
    // two identical cases whose evidence is compared) - here simply listed twice
    for (int b = 0; b <= 2; ++b)
    {
        add(1, 1, b, 1);
        add(1, 2, b, 1);
        add(2, 1, b, 1);
        add(2, 2, b, b == 2 ? 4 : 1);
        add(3, 1, b, b == 2 ? 8 : 1);
    }
    add(1, 1, -1, 1);
    add(1, 2, -1, 1);
    // long drains: one producer, many items, no preemption - the consumer's drain loop must take them all or leave the
    // notification pending (sizes around powers of two)
    for (int k : { 63, 64, 65, 127, 128, 129, 300 })
        add(1, k, 0, 1);
    add(2, 65, 0, 1);
    if (thorough)
    {
        add(1, 3, 3, 2);
        add(2, 1, -1, 4);
        add(1, 3, -1, 8);
        add(2, 2, 3, 16);
        add(3, 1, 3, 16);
        add(2, 3, 3, 16);
        add(3, 2, 3, 16);
    }
    return vr::run(opt, gCases.size(), run_case);
}
