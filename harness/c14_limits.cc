// C14: size limits and read time-outs are enforced exactly.
//
// Real Http::Endpoint (acceptor + 1 worker gated at epoll_wait, virtual time), scripted loopback clients.
//   size:  maxRequestSize L in {64, 200}; requests of total size L-1, L, L+1 (header-only, and with a
//          Content-Length body) delivered in ALL splits into <= 3 reads (each piece is sent and the loops are run
//          dry before the next, so the server's reads are exactly the pieces). Over the limit => the handler never
//          runs and the answer is 413; within => the handler runs, never 413.
//   time:  (header, body) time-outs in {(1 s,2 s), (2 s,1 s), (1 s,1 s), (1.5 s,2.5 s), (2.5 s,1.5 s)} x stall point {after connect, inside the
//          request line, inside the headers, after the headers, inside the body} x stall duration
//          {T-500 ms, T, T+500 ms, T+1 s} (T = the applicable time-out) x scan phase {0, 250 ms}, then the request
//          is completed. Stall <= T => 200 and never 408; stall >= T+500 ms => 408 and the connection closed.
//          The same grid again for the SECOND request of a keep-alive connection (first one served 750 ms after
//          connect): its clock starts when the previous request completed.
//   time2: two connections on the one worker, each stalled at its own point, the second opened 0/250/500 ms after the
//          first: each gets its 408 within one scan period after ITS applicable time-out, never earlier.
#include "common/netsim.h"
#include "common/runner.h"

using namespace Pistache;

static int gRequests = 0;
class CountHandler : public Http::Handler
{
public:
    HTTP_PROTOTYPE(CountHandler)
    void onRequest(const Http::Request&, Http::ResponseWriter w) override
    {
        ++gRequests;
        w.send(Http::Code::Ok, "fine");
    }
};

static int status_of(const std::string& rsp)
{
    if (rsp.size() < 12 || rsp.compare(0, 5, "HTTP/") != 0)
        return -1;
    return atoi(rsp.c_str() + 9);
}

static std::string make_request(size_t total, bool withBody)
{
    // header-only: pad a header value; with body: fixed head, body makes up the rest
    if (!withBody)
    {
        std::string head = "GET /s HTTP/1.1\r\nX-Pad: ";
        std::string tail = "\r\n\r\n";
        std::string r    = head + std::string(total - head.size() - tail.size(), 'p') + tail;
        return r;
    }
    for (size_t body = 1; body < total; ++body)
    {
        std::string head = "POST /s HTTP/1.1\r\nContent-Length: " + std::to_string(body) + "\r\n\r\n";
        if (head.size() + body == total)
            return head + std::string(body, 'b');
    }
    return "";
}

struct SizeCase
{
    int limit, delta, withBody, threeReads;
};
struct TimeCase
{
    int headerMs, bodyMs, stallPoint, stallIdx, phase;
    int prior = 0; // > 0: the timed request comes after earlier ones on a keep-alive connection (each served 750 ms after the
                   // start of its own clock): 1 = a POST with a body, 2 = a bodyless GET, 3 = a chunked POST, 4 = GET then POST,
                   // 5 = POST, chunked POST, GET (the timed request is the fourth)
    int coincide = 0; // 1: the completing bytes arrive together with the last clock step (same wake-up as a scan tick)
    // two stalls in one request (round 6): the bytes up to prePoint, a first stall of preMs, the bytes up to stallPoint (>= the end
    // of the head), then the rest of the stall - both counted from the start of the request
    int prePoint = 0, preMs = 0;
};
static std::vector<SizeCase> gSize;
static std::vector<TimeCase> gTime;

static void after(uint64_t& steps, bool expect)
{
    if (expect)
        sim::await_readiness();
    steps += sim::settle();
}

static void case_size(const SizeCase& c, vr::Ctx& ctx)
{
    sim::Server srv;
    auto handler = Http::make_handler<CountHandler>();
    auto opts    = Http::Endpoint::options().flags(Tcp::Options::ReuseAddr | Tcp::Options::NoDelay).maxRequestSize(c.limit).headerTimeout(std::chrono::seconds(60)).bodyTimeout(std::chrono::seconds(60));
    srv.start(handler, opts, 1);
    uint64_t steps = sim::settle(), execs = 0;
    const size_t total = c.limit + c.delta;
    std::string req    = make_request(total, c.withBody);
    if (req.size() != total)
    {
        ctx.violation("c14:harness:cannot-build-request", "{\"total\":" + std::to_string(total) + "}");
        srv.stop();
        return;
    }
    std::string what = std::string(c.withBody ? "body" : "header-only") + " total=" + std::to_string(total) + " limit=" + std::to_string(c.limit);
    auto run_split   = [&](const std::vector<size_t>& ends) {
        gRequests = 0;
        sim::ClientConn cl;
        cl.connect_to(srv.port);
        after(steps, true);
        size_t prev = 0;
        for (size_t e : ends)
        {
            cl.send_bytes(req.substr(prev, e - prev));
            prev = e;
            after(steps, true);
            cl.pump();
            if (!cl.received.empty())
                break; // answered: a client that got 413 does not go on
        }
        cl.pump();
        int st = status_of(cl.received);
        std::string cuts;
        for (size_t e : ends)
            cuts += std::to_string(e) + " ";
        std::string d = "{\"request\":" + vr::jstr(what) + ",\"reads_end_at\":" + vr::jstr(cuts) + ",\"status\":" + std::to_string(st) + ",\"handler_runs\":" + std::to_string(gRequests) + "}";
        if (total > (size_t)c.limit)
        {
            if (gRequests != 0)
                ctx.violation("c14:size:over-limit-request-delivered-to-handler", d);
            else if (st != 413)
                ctx.violation("c14:size:over-limit-request-not-answered-413", d);
        }
        else
        {
            if (st == 413)
                ctx.violation("c14:size:request-within-limit-refused-413", d);
            else if (gRequests != 1 || st != 200)
                ctx.violation("c14:size:request-within-limit-not-served", d);
        }
        // a refused request must not count against the next one on the same connection
        if (total > (size_t)c.limit && st == 413 && ends.size() > 1 && !cl.peerClosed)
        {
            cl.received.clear();
            int before = gRequests;
            cl.send_bytes("GET /next HTTP/1.1\r\nHost: h\r\n\r\n");
            after(steps, true);
            cl.pump();
            int st2 = status_of(cl.received);
            if (!cl.peerClosed && (st2 != 200 || gRequests != before + 1))
                ctx.violation(st2 == 413 ? "c14:size:small-request-after-a-refused-one-refused-413" : "c14:size:small-request-after-a-refused-one-not-served", "{\"request\":" + vr::jstr(what) + ",\"reads_end_at\":" + vr::jstr(cuts) + ",\"status_of_next_request\":" + std::to_string(st2) + "}");
            ctx.outcome("request after a refused one -> " + std::to_string(st2));
        }
        ctx.outcome(std::string(total > (size_t)c.limit ? "over" : "within") + " -> " + std::to_string(st));
        ctx.state(vr::hash_str(what + cuts + std::to_string(st)));
        if (ends.size() > 1)
            ctx.nontrivial(vr::hash_str(what + cuts));
        cl.close_orderly();
        after(steps, true);
        ++execs;
    };
    run_split({ total });
    for (size_t a = 1; a < total && ctx.case_violations < 6; ++a)
    {
        ctx.note("size " + what + " first cut " + std::to_string(a));
        run_split({ a, total });
        if (c.threeReads)
            for (size_t b = a + 1; b < total && ctx.case_violations < 6; ++b)
                run_split({ a, b, total });
    }
    if (!srv.stop())
        ctx.violation("c14:endpoint-threads-did-not-terminate", "{\"x\":0}");
    ctx.count("executions", execs);
    ctx.count("transitions", steps);
    ctx.sample("{\"size_case\":" + vr::jstr(what) + ",\"splits\":" + std::to_string(execs) + "}");
}

static const char* kStallNames[] = { "after-connect", "inside-request-line", "inside-headers", "after-headers", "inside-body" };

static void case_time(const TimeCase& c, vr::Ctx& ctx)
{
    sim::Server srv;
    auto handler = Http::make_handler<CountHandler>();
    auto opts    = Http::Endpoint::options().flags(Tcp::Options::ReuseAddr | Tcp::Options::NoDelay).maxRequestSize(4096).headerTimeout(std::chrono::milliseconds(c.headerMs)).bodyTimeout(std::chrono::milliseconds(c.bodyMs));
    srv.start(handler, opts, 1);
    uint64_t steps = sim::settle();
    gRequests      = 0;
    const std::string req = "POST /t HTTP/1.1\r\nHost: h\r\nContent-Length: 10\r\n\r\n0123456789";
    const size_t headEnd  = req.find("\r\n\r\n") + 4;
    size_t stallAt[]      = { 0, 9, 24, headEnd, headEnd + 4 };
    // applicable time-out at the stall point: the head must be complete within min(header, body) (the whole request
    // within the body time-out); once the head is complete only the body time-out applies
    int T      = c.stallPoint <= 2 ? std::min(c.headerMs, c.bodyMs) : c.bodyMs;
    int stalls[] = { T - 500, T, T + 500, T + 1000 };
    int stall  = stalls[c.stallIdx];
    static const char* kPriorNames[] = { "", "second request on the connection: ", "second request (after a bodyless one): ", "second request (after a chunked one): ", "third request on the connection: ", "fourth request on the connection: " };
    const std::string reqGet = "GET /g HTTP/1.1\r\nHost: h\r\n\r\n";
    const std::string reqChunked = "POST /c HTTP/1.1\r\nHost: h\r\nTransfer-Encoding: chunked\r\n\r\n3\r\nabc\r\n0\r\n\r\n";
    std::vector<std::string> priors;
    switch (c.prior)
    {
    case 1: priors = { req }; break;
    case 2: priors = { reqGet }; break;
    case 3: priors = { reqChunked }; break;
    case 4: priors = { reqGet, req }; break;
    case 5: priors = { req, reqChunked, reqGet }; break;
    }
    std::string two = c.preMs ? std::string("first a stall ") + kStallNames[c.prePoint] + " for " + std::to_string(c.preMs) + "ms, in all: " : "";
    std::string what = std::string(kPriorNames[c.prior]) + two + "header=" + std::to_string(c.headerMs) + "ms body=" + std::to_string(c.bodyMs) + "ms stall " + kStallNames[c.stallPoint] + " for " + std::to_string(stall) + "ms phase=" + std::to_string(c.phase) + (c.coincide ? " completion-with-the-last-clock-step" : "");
    ctx.note("time " + what);
    if (c.phase)
    {
        sim::tick(c.phase);
        after(steps, false);
    }
    sim::ClientConn cl;
    cl.connect_to(srv.port);
    after(steps, true);
    const int served = (int)priors.size();
    for (size_t pi = 0; pi < priors.size(); ++pi)
    {
        // an earlier request, served 750 ms into its own clock: the next request's clock starts at its completion
        for (int t = 0; t < 750; t += 250)
        {
            sim::tick(250);
            after(steps, false);
        }
        cl.send_bytes(priors[pi]);
        after(steps, true);
        cl.pump();
        if (status_of(cl.received) != 200 || gRequests != (int)pi + 1)
        {
            ctx.violation("c14:time:first-request-on-the-connection-not-served", "{\"scenario\":" + vr::jstr(what) + ",\"status\":" + std::to_string(status_of(cl.received)) + "}");
            srv.stop();
            return;
        }
        cl.received.clear();
    }
    int first408At = -1;
    bool completed = false;
    if (c.preMs > 0)
    {
        if (stallAt[c.prePoint] > 0)
        {
            cl.send_bytes(req.substr(0, stallAt[c.prePoint]));
            after(steps, true);
        }
        for (int t = 250; t <= c.preMs; t += 250)
        {
            sim::tick(250);
            after(steps, false);
            cl.pump();
            if (first408At < 0 && status_of(cl.received) == 408)
                first408At = t;
        }
        cl.send_bytes(req.substr(stallAt[c.prePoint], stallAt[c.stallPoint] - stallAt[c.prePoint]));
        after(steps, true);
    }
    else if (stallAt[c.stallPoint] > 0)
    {
        cl.send_bytes(req.substr(0, stallAt[c.stallPoint]));
        after(steps, true);
    }
    for (int t = c.preMs + 250; t <= stall; t += 250)
    {
        sim::tick(250);
        if (c.coincide && t + 250 > stall)
        {
            // the rest of the request lands in the same wake-up as this clock step (no server step in between)
            cl.send_bytes(req.substr(stallAt[c.stallPoint]));
            completed = true;
            after(steps, true);
        }
        else
            after(steps, false);
        cl.pump();
        if (first408At < 0 && status_of(cl.received) == 408)
            first408At = t;
    }
    // now complete the request
    if (!completed)
        cl.send_bytes(req.substr(stallAt[c.stallPoint]));
    after(steps, true);
    cl.pump();
    int st          = status_of(cl.received);
    std::string d   = "{\"scenario\":" + vr::jstr(what) + ",\"applicable_timeout_ms\":" + std::to_string(T) + ",\"status\":" + std::to_string(st) + ",\"first_408_at_ms\":" + std::to_string(first408At) + ",\"handler_runs\":" + std::to_string(gRequests) + ",\"closed_by_server\":" + (cl.peerClosed ? "true" : "false") + "}";
    if (first408At >= 0 && first408At <= T)
        ctx.violation(std::string("c14:time:408-before-the-time-out-elapsed:") + kStallNames[c.stallPoint], d);
    if (stall <= T)
    {
        if (st != 200 || gRequests != served + 1)
            ctx.violation(std::string("c14:time:request-completed-in-time-not-served:") + kStallNames[c.stallPoint], d);
    }
    else
    {
        if (st != 408)
            ctx.violation(std::string("c14:time:no-408-after-the-time-out:") + kStallNames[c.stallPoint], d);
        else
        {
            // the connection must be closed by the server
            for (int i = 0; i < 4 && !cl.peerClosed; ++i)
            {
                sim::tick(250);
                after(steps, false);
                cl.pump();
            }
            if (!cl.peerClosed)
                ctx.violation("c14:time:connection-not-closed-after-408", d);
            // (when the late bytes sit in the socket at the very scan that times the request out, the property only
            // asks for the 408 and the close; whether the handler still sees the request is left open)
            if (gRequests != served && !c.coincide)
                ctx.violation("c14:time:handler-ran-for-timed-out-request", d);
        }
    }
    ctx.outcome(std::string(c.prior ? "later request " : "") + (stall <= T ? "in-time" : "late") + " -> " + std::to_string(st));
    ctx.state(vr::hash_str(what + std::to_string(st)));
    ctx.nontrivial(vr::hash_str(what));
    cl.close_orderly();
    after(steps, true);
    if (!srv.stop())
        ctx.violation("c14:endpoint-threads-did-not-terminate", "{\"x\":0}");
    ctx.count("executions", 1);
    ctx.count("transitions", steps);
    if ((vr::hash_str(what) & 63) == 0)
        ctx.sample("{\"time_case\":" + vr::jstr(what) + ",\"status\":" + std::to_string(st) + "}");
}

// two connections on the same worker, each stalled in its own phase: every connection is judged by its own phase and
// its own start (the periodic scan walks all peers of the worker in one pass)
struct Time2Case
{
    int headerMs, bodyMs, kindA, kindB, offset;
};
static std::vector<Time2Case> gTime2;

static void case_time2(const Time2Case& c, vr::Ctx& ctx)
{
    sim::Server srv;
    auto handler = Http::make_handler<CountHandler>();
    auto opts    = Http::Endpoint::options().flags(Tcp::Options::ReuseAddr | Tcp::Options::NoDelay).maxRequestSize(4096).headerTimeout(std::chrono::milliseconds(c.headerMs)).bodyTimeout(std::chrono::milliseconds(c.bodyMs));
    srv.start(handler, opts, 1);
    uint64_t steps = sim::settle();
    gRequests      = 0;
    const std::string req = "POST /t HTTP/1.1\r\nHost: h\r\nContent-Length: 10\r\n\r\n0123456789";
    const size_t headEnd  = req.find("\r\n\r\n") + 4;
    size_t stallAt[]      = { 0, 9, 24, headEnd, headEnd + 4 };
    int kinds[2]          = { c.kindA, c.kindB };
    int T[2], startAt[2] = { 0, c.offset }, first408[2] = { -1, -1 };
    for (int i = 0; i < 2; ++i)
        T[i] = kinds[i] <= 2 ? std::min(c.headerMs, c.bodyMs) : c.bodyMs;
    std::string what = std::string("header=") + std::to_string(c.headerMs) + "ms body=" + std::to_string(c.bodyMs) + "ms connection A stalls " + kStallNames[c.kindA] + ", connection B (opened " + std::to_string(c.offset) + "ms later) stalls " + kStallNames[c.kindB];
    ctx.note("time2 " + what);
    sim::ClientConn cl[2];
    int now = 0;
    auto open_conn = [&](int i) {
        cl[i].connect_to(srv.port);
        after(steps, true);
        if (stallAt[kinds[i]] > 0)
        {
            cl[i].send_bytes(req.substr(0, stallAt[kinds[i]]));
            after(steps, true);
        }
    };
    open_conn(0);
    if (c.offset == 0)
        open_conn(1);
    int horizon = std::max(T[0], T[1] + c.offset) + 1000;
    for (now = 250; now <= horizon; now += 250)
    {
        sim::tick(250);
        after(steps, false);
        if (c.offset != 0 && now == c.offset)
            open_conn(1);
        for (int i = 0; i < 2; ++i)
        {
            if (now < startAt[i] || (now == startAt[i] && c.offset != 0 && i == 1))
                continue;
            cl[i].pump();
            if (first408[i] < 0 && status_of(cl[i].received) == 408)
                first408[i] = now - startAt[i];
        }
    }
    for (int i = 0; i < 2; ++i)
    {
        std::string d = "{\"scenario\":" + vr::jstr(what) + ",\"connection\":\"" + (i ? "B" : "A") + "\",\"applicable_timeout_ms\":" + std::to_string(T[i]) + ",\"first_408_after_ms\":" + std::to_string(first408[i]) + ",\"closed_by_server\":" + (cl[i].peerClosed ? "true" : "false") + "}";
        std::string k = std::string(kStallNames[kinds[i]]) + ":other-connection-" + kStallNames[kinds[1 - i]];
        if (first408[i] >= 0 && first408[i] <= T[i])
            ctx.violation("c14:time2:408-before-the-time-out-elapsed:" + k, d);
        else if (first408[i] < 0 || first408[i] > T[i] + 500)
            ctx.violation("c14:time2:no-408-within-one-scan-period-after-the-time-out:" + k, d);
        else if (!cl[i].peerClosed)
            ctx.violation("c14:time2:connection-not-closed-after-408", d);
        ctx.outcome(std::string("two connections: ") + (first408[i] < 0 ? "no 408" : "408"));
    }
    if (gRequests != 0)
        ctx.violation("c14:time2:handler-ran-for-timed-out-request", "{\"scenario\":" + vr::jstr(what) + "}");
    ctx.state(vr::hash_str(what + std::to_string(first408[0]) + "/" + std::to_string(first408[1])));
    ctx.nontrivial(vr::hash_str(what));
    for (int i = 0; i < 2; ++i)
        cl[i].close_orderly();
    after(steps, true);
    if (!srv.stop())
        ctx.violation("c14:endpoint-threads-did-not-terminate", "{\"x\":0}");
    ctx.count("executions", 1);
    ctx.count("transitions", steps);
    if ((vr::hash_str(what) & 7) == 0)
        ctx.sample("{\"time2_case\":" + vr::jstr(what) + ",\"first_408_after_ms\":[" + std::to_string(first408[0]) + "," + std::to_string(first408[1]) + "]}");
}

int main(int argc, char** argv)
{
    vr::Options opt = vr::parse_args(argc, argv);
    bool thorough   = opt.geti("thorough", 0);
    for (int limit : { 64, 200 })
        for (int delta : { -1, 0, 1 })
            for (int body = 0; body < 2; ++body)
                gSize.push_back({ limit, delta, body, (limit == 64 || thorough) ? 1 : 0 });
    int pairs[5][2] = { { 1000, 2000 }, { 2000, 1000 }, { 1000, 1000 }, { 1500, 2500 }, { 2500, 1500 } }; // (whole and fractional seconds)
    for (auto& p : pairs)
        for (int sp = 0; sp < 5; ++sp)
            for (int si = 0; si < 4; ++si)
                for (int ph : { 0, 250 })
                    for (int prior = 0; prior < (thorough ? 6 : 5); ++prior)
                        for (int co = 0; co < 2; ++co)
                            if (prior < 2 || thorough || (sp != 1 && sp != 3)) // quick: the added kinds at three stall points
                                gTime.push_back({ p[0], p[1], sp, si, ph, prior, co });
    // two stalls: the head completes late but in time, the body then stalls; judged by the body time-out from the request's start
    for (auto& p : pairs)
        for (int pre : { 250, 500, 750 })
            for (int pp = 0; pp < 3; ++pp)
                for (int sp = 3; sp < 5; ++sp)
                    for (int si = 0; si < 4; ++si)
                        for (int prior = 0; prior < 2; ++prior)
                        {
                            int T = p[1], total = (int[]) { T - 500, T, T + 500, T + 1000 }[si];
                            if (pre >= std::min(p[0], p[1]) || total <= pre)
                                continue;
                            if (!thorough && ((pp == 1) || (prior == 1 && pre != 500)))
                                continue;
                            TimeCase tc { p[0], p[1], sp, si, 0, prior, 0 };
                            tc.prePoint = pp, tc.preMs = pre;
                            gTime.push_back(tc);
                        }
    int pairs2[3][2] = { { 1000, 3000 }, { 3000, 1000 }, { 1000, 1000 } };
    for (auto& p : pairs2)
        for (int ka = 0; ka < 5; ++ka)
            for (int kb = 0; kb < 5; ++kb)
                for (int off : { 0, 250, 500 })
                    if (thorough || ((ka == 0 || ka == 2 || ka == 4) && (kb == 0 || kb == 2 || kb == 4)))
                        gTime2.push_back({ p[0], p[1], ka, kb, off });
    uint64_t nS = gSize.size(), nT = gTime.size(), nT2 = gTime2.size();
    return vr::run(opt, nS + nT + nT2, [nS, nT](uint64_t idx, vr::Ctx& ctx) {
        try
        {
            if (idx < nS)
                case_size(gSize[idx], ctx);
            else if (idx < nS + nT)
                case_time(gTime[idx - nS], ctx);
            else
                case_time2(gTime2[idx - nS - nT], ctx);
        }
        catch (const sim::HarnessError& e)
        {
            ctx.violation("c14:harness:" + e.what.substr(0, 40), "{\"x\":0}");
            _exit(77);
        }
        ctx.poll_reports();
    });
}
