// C15: every client request is answered by exactly its own response.
//
// A real Http::Experimental::Client (reactor threads gated at epoll_wait, virtual time for request
// time-outs) talks to a scripted loopback server owned by the explorer. Batches of n tagged requests
// "GET /r/<i>" are issued from the harness thread; the server answers each request with its tag according to
// a per-request behaviour: whole, in two pieces, chunked, whole-then-close, or never (time-out).
// Deviation-bounded DFS over the orders of {reactor_k step, issue next request, server accept, server read,
// server answer piece, tick(+500 ms)}.
// Oracle: each promise settles at most once; a fulfilled promise carries the response to that very request; every
// request the server answered completely is fulfilled by quiescence; a request with a time-out that the server
// never answers is rejected once the time-out has passed; the server never sees more simultaneously open
// connections than maxConnectionsPerHost.
#include "common/netsim.h"
#include "common/rfc7230.h"
#include "common/runner.h"

#include <map>
#include <pistache/client.h>

using namespace Pistache;

enum Behaviour { B_WHOLE,
                 B_PIECES,
                 B_CHUNKED,
                 B_CLOSE_AFTER,
                 B_NEVER,  // never answered; the connection's later requests wait behind it (responses go in order)
                 B_DROP,   // never answered, the server goes on with the connection's later requests
                 B_RESET_AFTER, // answered whole, then the server aborts the connection (RST)
                 B_STALL,       // the first half of the response arrives, the rest never does
                 B_GARBAGE };   // answered with bytes that are not an HTTP response (one segment): the request must be rejected
static const char* kBehNames[] = { "whole", "two-pieces", "chunked", "whole-then-close", "never", "dropped", "whole-then-reset", "first-half-then-nothing", "not-http" };

struct Scenario
{
    int threads, limit, n;
    std::vector<int> beh;       // per request
    std::vector<int> timeoutMs; // per request, 0 = none
    int D;
    bool fine = false; // requests are issued by gated harness threads that also park at every mutex acquisition
    int connectFaults = 0; // the first n connection attempts fail at once (network unreachable)
    std::vector<int> host; // per request: which of two hosts (authorities) it goes to; empty = all to the first
    std::vector<int> head; // per request: 1 = sent with the method HEAD (empty = all GET)
    int cutAt = 0;     // > 0: responses sent in two pieces are cut after this many bytes (default: in the middle)
    int warm  = 0;     // the first `warm` requests are issued together and completed (default order) before the
                       // exploration starts: that many keep-alive connections are established and idle
    std::string str() const
    {
        std::string s = std::string(fine ? "[fine-grained issue] " : "") + (warm ? "[" + std::to_string(warm) + " connections established by earlier requests] " : std::string()) + (connectFaults ? "[first " + std::to_string(connectFaults) + " connect() fail with ENETUNREACH] " : std::string()) + "threads=" + std::to_string(threads) + " maxConn=" + std::to_string(limit) + " requests=[";
        for (int i = 0; i < n; ++i)
            s += std::string(i ? "," : "") + kBehNames[beh[i]] + (timeoutMs[i] ? "/timeout" + std::to_string(timeoutMs[i]) : "") + (host.empty() ? "" : host[i] ? "@hostB" : "@hostA") + (!head.empty() && head[i] ? "(HEAD)" : "");
        return s + "]" + (cutAt ? " responses cut after " + std::to_string(cutAt) + " bytes" : std::string()) + " D<=" + std::to_string(D);
    }
};

struct ReqObs
{
    int fulfilled = 0, rejected = 0;
    std::string body;
    int code = 0;
};

// ---- scripted server ---------------------------------------------------------------------------------
struct SrvConn
{
    int fd = -1;
    std::string in;
    std::deque<int> pendingTags; // requests read, not yet (completely) answered
    int piecesSent = 0;          // of the response to the front request
    bool closed    = false;
    bool clientGone = false;     // the client's FIN / RST has arrived (seen by the connection count before the script reads it)
};
struct ScriptedServer
{
    int lfd  = -1;
    int port = 0;
    std::vector<SrvConn> conns;
    int openNow = 0, peakOpen = 0;
    std::set<int> answered; // tags whose response was sent completely
    std::set<int> dropTags, dropped; // requests the server reads and forgets (scenario / seen so far)
    int tick = 0;                    // virtual time in 500 ms ticks
    std::map<int, int> readAtTick;   // when each request reached the server
    // One listening socket per harness process, reused by every execution: a fresh listener (and a fresh port) per
    // execution runs the machine out of ephemeral ports in the long tiers (closed connections linger in TIME_WAIT).
    static int& process_listener()
    {
        static int fd = -1;
        return fd;
    }
    static int& process_port()
    {
        static int p = 0;
        return p;
    }
    static void ensure_listener()
    {
        if (process_listener() >= 0)
            return;
        int fd  = ::socket(AF_INET, SOCK_STREAM | SOCK_NONBLOCK | SOCK_CLOEXEC, 0);
        int one = 1;
        setsockopt(fd, SOL_SOCKET, SO_REUSEADDR, &one, sizeof one);
        sockaddr_in sa;
        memset(&sa, 0, sizeof sa);
        sa.sin_family      = AF_INET;
        sa.sin_addr.s_addr = htonl(INADDR_ANY); // (127.0.0.1 and 127.0.0.2 are two hosts for the client, one scripted server)
        // keep the harness's own descriptors out of the number range the client under test allocates from
        int hi          = fcntl(fd, F_DUPFD_CLOEXEC, 900);
        static auto cl0 = sim::real<int (*)(int)>("close");
        cl0(fd);
        // an explicit port below the kernel's ephemeral range (port 0 would be drawn from that range, which runs dry
        // when thousands of closed connections linger in TIME_WAIT); another harness process may hold a port: try on
        bool bound = false;
        for (unsigned attempt = 0; hi >= 0 && attempt < 400 && !bound; ++attempt)
        {
            sa.sin_port = htons(static_cast<uint16_t>(30100 + (unsigned(getpid()) * 17u + attempt * 13u) % 2500u));
            bound       = ::bind(hi, (sockaddr*)&sa, sizeof sa) == 0;
        }
        if (!bound || ::listen(hi, 16) != 0)
            throw sim::HarnessError { std::string("scripted server cannot listen: ") + strerror(errno) };
        socklen_t len = sizeof sa;
        getsockname(hi, (sockaddr*)&sa, &len);
        process_listener() = hi;
        process_port()     = ntohs(sa.sin_port);
    }
    void start()
    {
        ensure_listener();
        lfd  = process_listener();
        port = process_port();
        // nothing of an earlier execution may be waiting in the backlog
        for (;;)
        {
            int fd = ::accept4(lfd, nullptr, nullptr, SOCK_NONBLOCK | SOCK_CLOEXEC);
            if (fd < 0)
                break;
            abort_fd(fd);
        }
    }
    static void abort_fd(int fd)
    {
        // RST instead of FIN: no TIME_WAIT entry is left behind
        struct linger lg = { 1, 0 };
        setsockopt(fd, SOL_SOCKET, SO_LINGER, &lg, sizeof lg);
        static auto cl = sim::real<int (*)(int)>("close");
        cl(fd);
    }
    bool can_accept()
    {
        struct pollfd p = { lfd, POLLIN, 0 };
        int n           = ::poll(&p, 1, 0);
        if (n > 0 && (p.revents & (POLLNVAL | POLLERR)))
            throw sim::HarnessError { "scripted server: listening descriptor went bad (revents " + std::to_string(p.revents) + ")" };
        return n > 0 && (p.revents & POLLIN);
    }
    void accept_one()
    {
        int fd = ::accept4(lfd, nullptr, nullptr, SOCK_NONBLOCK | SOCK_CLOEXEC);
        if (fd < 0)
            throw sim::HarnessError { std::string("scripted server: accept failed: ") + strerror(errno) };
        int one = 1; // no Nagle delay between the pieces of a response: kernel timing must not decide schedules
        setsockopt(fd, IPPROTO_TCP, TCP_NODELAY, &one, sizeof one);
        int hi = fcntl(fd, F_DUPFD_CLOEXEC, 700);
        static auto cl = sim::real<int (*)(int)>("close");
        cl(fd);
        // the connection count is the client's: a connection whose FIN / RST from the client has already arrived (loopback:
        // as soon as the client's close() returned) is not one the client still has, whether or not the script has read it
        for (auto& o : conns)
            if (!o.closed && !o.clientGone)
            {
                struct pollfd p = { o.fd, POLLIN | POLLRDHUP, 0 };
                if (::poll(&p, 1, 0) > 0 && (p.revents & (POLLRDHUP | POLLHUP | POLLERR)))
                {
                    o.clientGone = true;
                    --openNow;
                }
            }
        SrvConn c;
        c.fd = hi;
        conns.push_back(c);
        ++openNow;
        peakOpen = std::max(peakOpen, openNow);
    }
    // read what is there; returns true if something (data or EOF) was consumed
    bool can_read(size_t ci)
    {
        if (conns[ci].closed)
            return false;
        struct pollfd p = { conns[ci].fd, POLLIN, 0 };
        return ::poll(&p, 1, 0) > 0 && (p.revents & (POLLIN | POLLHUP));
    }
    void read_conn(size_t ci)
    {
        SrvConn& c = conns[ci];
        char buf[8192];
        for (;;)
        {
            ssize_t r = ::recv(c.fd, buf, sizeof buf, MSG_DONTWAIT);
            if (r > 0)
                c.in.append(buf, r);
            else
            {
                if (r == 0)
                    close_conn(ci);
                break;
            }
        }
        for (;;)
        {
            rfc::Message m = rfc::parse(c.in, false);
            if (!m.ok)
                break;
            c.in.erase(0, m.consumed);
            int tag = atoi(m.target.c_str() + 3); // "/r/<i>"
            readAtTick[tag] = tick;
            if (dropTags.count(tag))
                dropped.insert(tag);
            else
                c.pendingTags.push_back(tag);
        }
    }
    void close_conn(size_t ci, bool abort = false)
    {
        static auto cl = sim::real<int (*)(int)>("close");
        if (!conns[ci].closed)
        {
            if (abort)
            {
                struct linger lg = { 1, 0 };
                setsockopt(conns[ci].fd, SOL_SOCKET, SO_LINGER, &lg, sizeof lg);
            }
            cl(conns[ci].fd);
            conns[ci].closed = true;
            if (!conns[ci].clientGone)
                --openNow;
        }
    }
    static std::string response_for(int tag, bool chunked)
    {
        std::string body = "tag=" + std::to_string(tag);
        if (!chunked)
            return "HTTP/1.1 200 OK\r\nContent-Length: " + std::to_string(body.size()) + "\r\nX-Tag: " + std::to_string(tag) + "\r\n\r\n" + body;
        char sz[16];
        snprintf(sz, sizeof sz, "%zx", body.size() - 2);
        return "HTTP/1.1 200 OK\r\nTransfer-Encoding: chunked\r\nX-Tag: " + std::to_string(tag) + "\r\n\r\n2\r\n" + body.substr(0, 2) + "\r\n" + sz + "\r\n" + body.substr(2) + "\r\n0\r\n\r\n";
    }
    // send the next piece of the response to the front pending request of connection ci
    void answer_piece(size_t ci, const Scenario& sc)
    {
        SrvConn& c = conns[ci];
        int tag    = c.pendingTags.front();
        int b      = sc.beh[tag];
        std::string rsp = response_for(tag, b == B_CHUNKED);
        static auto snd = sim::real<ssize_t (*)(int, const void*, size_t, int)>("send");
        if (b == B_STALL)
        {
            size_t cut = rsp.size() / 2 + 3;
            snd(c.fd, rsp.data(), cut, MSG_NOSIGNAL);
            c.piecesSent = 99; // nothing more will come
            return;
        }
        if (b == B_GARBAGE)
            rsp = "BOGUS/9 nonsense\r\n\r\n";
        if (b == B_PIECES || b == B_CHUNKED)
        {
            size_t cut = sc.cutAt > 0 && (size_t)sc.cutAt < rsp.size() ? (size_t)sc.cutAt : rsp.size() / 2 + 3;
            if (c.piecesSent == 0)
            {
                snd(c.fd, rsp.data(), cut, MSG_NOSIGNAL);
                c.piecesSent = 1;
                return;
            }
            {
                ssize_t rr = snd(c.fd, rsp.data() + cut, rsp.size() - cut, MSG_NOSIGNAL);
                if (getenv("C15_DEBUG"))
                    fprintf(stderr, "second piece: send(fd %d, %zu bytes) = %zd errno=%d\n", c.fd, rsp.size() - cut, rr, errno);
            }
        }
        else
            snd(c.fd, rsp.data(), rsp.size(), MSG_NOSIGNAL);
        c.piecesSent = 0;
        c.pendingTags.pop_front();
        answered.insert(tag);
        if (b == B_CLOSE_AFTER)
            close_conn(ci);
        if (b == B_RESET_AFTER)
            close_conn(ci, true);
    }
    bool can_answer(size_t ci, const Scenario& sc)
    {
        const SrvConn& c = conns[ci];
        return !c.closed && !c.pendingTags.empty() && sc.beh[c.pendingTags.front()] != B_NEVER && c.piecesSent != 99;
    }
    void stop()
    {
        // what is still open at the end of an execution is aborted (the listener stays for the next execution)
        for (size_t i = 0; i < conns.size(); ++i)
            close_conn(i, true);
    }
};

struct Exec
{
    std::vector<uint8_t> choices, nEnabled;
    bool ok = true;
};

static Exec run_one(const Scenario& sc, const std::vector<uint8_t>& prefix, vr::Ctx& ctx, uint64_t& steps)
{
    Exec x;
    ScriptedServer::ensure_listener();
    std::vector<int> fdsBefore = sim::list_fds();
    ng_reset();
    sim::configure(true, true, true);
    ng_set_active(1);
    ScriptedServer srv;
    for (int i = 0; i < sc.n; ++i)
        if (sc.beh[i] == B_DROP)
            srv.dropTags.insert(i);
    srv.start();
    std::vector<ReqObs> obs(sc.n);
    std::string trace;
    {
        Http::Experimental::Client client;
        auto opts = Http::Experimental::Client::options().threads(sc.threads).maxConnectionsPerHost(sc.limit);
        client.init(opts);
        for (int waited = 0; ng_count() < sc.threads && waited < 5000; ++waited)
            usleep(1000);
        for (int a = 0; a < sc.threads; ++a)
            if (ng_wait_parked(a, 10000) != 0)
                throw sim::HarnessError { "client reactor thread did not reach epoll_wait" };
        int issued = 0, ticks = 0;
        {
            sim::TsanIgnore ign;
            sim::S().connect_failures = sc.connectFaults;
        }
        std::vector<Async::Promise<Http::Response>> promises;
        // joins the issuing threads whatever happens (a harness error must not end in std::terminate)
        struct ThreadBag
        {
            std::vector<std::thread> v;
            ~ThreadBag()
            {
                ng_release_all();
                for (auto& t : v)
                    if (t.joinable())
                        t.join();
            }
        } bag;
        std::vector<std::thread>& issuerThreads = bag.v;
        std::vector<int> issuerActor;
        auto do_issue = [&](int tag) {
            std::string url = std::string(!sc.host.empty() && sc.host[tag] ? "127.0.0.2:" : "127.0.0.1:") + std::to_string(srv.port) + "/r/" + std::to_string(tag);
            auto rb         = client.get(url);
            if (!sc.head.empty() && sc.head[tag])
                rb.method(Http::Method::Head);
            if (sc.timeoutMs[tag])
                rb.timeout(std::chrono::milliseconds(sc.timeoutMs[tag]));
            ReqObs* o = &obs[tag];
            auto p    = rb.send();
            p.then([o](Http::Response r) { o->fulfilled++; o->body = r.body(); o->code = (int)r.code(); },
                   [o](std::exception_ptr) { o->rejected++; });
            promises.push_back(std::move(p));
        };
        auto detail = [&](const std::string& extra) {
            return "{\"scenario\":" + vr::jstr(sc.str()) + ",\"schedule\":" + vr::jstr(trace) + "," + extra + "}";
        };
        if (sc.warm)
        {
            // warm-up, not part of the explored schedule: issue, then run everything in the default order
            for (int w = 0; w < sc.warm; ++w)
                do_issue(issued++);
            for (int round = 0; round < 200; ++round)
            {
                sim::await_readiness(10);
                bool did = false;
                for (int a = 0; a < sc.threads && !did; ++a)
                    if (sim::actor_ready(a))
                    {
                        sim::step_actor(a);
                        did = true;
                    }
                if (!did && srv.can_accept())
                {
                    srv.accept_one();
                    did = true;
                }
                for (size_t ci = 0; ci < srv.conns.size() && !did; ++ci)
                    if (srv.can_read(ci))
                    {
                        srv.read_conn(ci);
                        did = true;
                    }
                for (size_t ci = 0; ci < srv.conns.size() && !did; ++ci)
                    if (srv.can_answer(ci, sc))
                    {
                        srv.answer_piece(ci, sc);
                        did = true;
                    }
                sim::bump_activity();
                bool all = true;
                for (int w = 0; w < sc.warm; ++w)
                    all &= obs[w].fulfilled == 1;
                if (all && !did)
                    break;
            }
            for (int w = 0; w < sc.warm; ++w)
                if (obs[w].fulfilled != 1)
                    throw sim::HarnessError { "warm-up request not fulfilled" };
        }
        bool quiesced = false;
        int sameReactor = 0, lastAct = -1;
        for (int point = 0; point < 300; ++point)
        {
            // enabled actions in canonical order
            std::vector<int> en; // 0..threads-1 reactor; 100 issue; 200 accept; 300+ci read; 400+ci answer; 500 tick
            for (int a = 0; a < sc.threads; ++a)
                if (sim::actor_ready(a))
                    en.push_back(a);
            if (srv.can_accept())
                en.push_back(200);
            for (size_t ci = 0; ci < srv.conns.size(); ++ci)
                if (srv.can_read(ci))
                    en.push_back(300 + (int)ci);
            // (fine-grained scenarios) issuing threads and the next issue come before the server's answers in the
            // canonical order: a request is issued while its predecessor is in flight, and ONE deviation (the server
            // answers now) slips a completion between two critical sections of that issue
            // the newest issuing thread first: ONE deviation ("issue the next request now") preempts an issuing thread
            // between two of its critical sections by a whole other issue (two first requests to a host racing)
            for (size_t k = issuerActor.size(); k-- > 0;)
                if (sim::actor_ready(issuerActor[k]))
                    en.push_back(600 + (int)k);
            if (sc.fine && issued < sc.n)
                en.push_back(100);
            for (size_t ci = 0; ci < srv.conns.size(); ++ci)
                if (srv.can_answer(ci, sc))
                    en.push_back(400 + (int)ci);
            if (!sc.fine && issued < sc.n)
                en.push_back(100);
            // time only needs to pass while something with a time-out is outstanding
            bool waitingTimeout = false;
            for (int i = 0; i < issued; ++i)
                if (sc.timeoutMs[i] && !obs[i].fulfilled && !obs[i].rejected)
                    waitingTimeout = true;
            int withTimeout = 0;
            for (int i = 0; i < sc.n; ++i)
                withTimeout += sc.timeoutMs[i] != 0;
            if (waitingTimeout && ticks < 6 + 3 * std::max(0, withTimeout - 1))
                en.push_back(500);
            if (en.empty())
            {
                if (sim::await_readiness(15))
                    continue;
                quiesced = true;
                break;
            }
            size_t i   = x.choices.size();
            int choice = i < prefix.size() ? prefix[i] : 0;
            if (choice >= (int)en.size())
            {
                ctx.violation("c15:harness:nondeterministic-replay", detail("\"point\":" + std::to_string(i)));
                x.ok = false;
                break;
            }
            x.choices.push_back((uint8_t)choice);
            x.nEnabled.push_back((uint8_t)en.size());
            int act = en[choice];
            // a reactor thread that is ready again and again while nothing else happens is spinning (e.g. on a
            // descriptor it never drains): the schedule would never go quiet
            sameReactor = (act < 100 && act == lastAct) ? sameReactor + 1 : 0;
            lastAct     = act;
            if (sameReactor >= 25)
            {
                ctx.violation("c15:reactor-thread-spins-without-going-quiet", detail("\"reactor\":" + std::to_string(act)));
                x.ok = false;
                break;
            }
            if (act < 100)
            {
                trace += "R" + std::to_string(act) + " ";
                sim::step_actor(act);
                ++steps;
            }
            else if (act == 100)
            {
                int tag = issued++;
                trace += "issue" + std::to_string(tag) + " ";
                if (sc.fine)
                {
                    issuerThreads.emplace_back();
                    int id = sim::spawn_fine(issuerThreads.back(), [&do_issue, tag]() {
                        try
                        {
                            do_issue(tag);
                        }
                        catch (const std::exception&)
                        { }
                    });
                    if (ng_wait_parked(id, 10000) != 0)
                        throw sim::HarnessError { "issuing thread did not park" };
                    issuerActor.push_back(id);
                }
                else
                {
                    try
                    {
                        do_issue(tag);
                    }
                    catch (const std::exception& e)
                    {
                        ctx.violation("c15:send-threw", detail("\"what\":" + vr::jstr(e.what())));
                        x.ok = false;
                    }
                }
                sim::await_readiness(10);
            }
            else if (act >= 600)
            {
                trace += "I" + std::to_string(act - 600) + " ";
                sim::step_actor(issuerActor[act - 600]);
                ++steps;
                sim::await_readiness(5);
            }
            else if (act == 200)
            {
                trace += "accept ";
                srv.accept_one();
            }
            else if (act < 400)
            {
                trace += "read" + std::to_string(act - 300) + " ";
                srv.read_conn(act - 300);
            }
            else if (act < 500)
            {
                trace += "answer" + std::to_string(act - 400) + " ";
                srv.answer_piece(act - 400, sc);
                sim::await_readiness(10);
            }
            else
            {
                trace += "tick ";
                ++ticks;
                srv.tick = ticks;
                sim::tick(500);
            }
            sim::bump_activity();
        }
        if (ctx.verbose)
        {
            for (auto& kv : client.pool.conns)
                for (auto& c : kv.second)
                    printf("  [debug] pool conn fd=%d state=%u connected=%d requestEntry=%d parser.step=%zu buffered=%zu\n", c->fd_, c->state_.load(), (int)c->connectionState_.load(), c->requestEntry ? 1 : 0, c->parser.currentStep, c->parser.buffer.bytes.size());
            for (auto& kv : client.pool.conns)
                for (auto& c : kv.second)
                {
                    struct pollfd p = { c->fd_, POLLIN, 0 };
                    int r           = ::poll(&p, 1, 0);
                    struct pollfd q = { ng_epfd(0), POLLIN, 0 };
                    int r2          = ::poll(&q, 1, 0);
                    printf("  [debug] poll(conn fd)=%d revents=%x poll(epfd)=%d last_events=%d parked=%d\n", r, p.revents, r2, sim::S().last_events[0], ng_is_parked(0));
                }
            for (auto& c : srv.conns)
                printf("  [debug] server conn closed=%d pending=%zu in=%zu\n", c.closed, c.pendingTags.size(), c.in.size());
        }
        if (ctx.verbose)
            printf("trace: %s\n", trace.c_str());
        // ---- oracle ----
        for (int i = 0; i < sc.n && x.ok; ++i)
        {
            const ReqObs& o = obs[i];
            std::string w   = "\"request\":" + std::to_string(i) + ",\"behaviour\":\"" + kBehNames[sc.beh[i]] + "\",\"fulfilled\":" + std::to_string(o.fulfilled) + ",\"rejected\":" + std::to_string(o.rejected) + ",\"body\":" + vr::jstr(o.body);
            if (o.fulfilled + o.rejected > 1)
                ctx.violation("c15:promise-settled-more-than-once", detail(w));
            else if (o.fulfilled && o.body != "tag=" + std::to_string(i))
            {
                // whose response is it? (a late response to a request that had already timed out is a known shape)
                std::string whose = "other";
                if (o.body.compare(0, 4, "tag=") == 0)
                {
                    int t = atoi(o.body.c_str() + 4);
                    if (t >= 0 && t < sc.n && sc.timeoutMs[t] && obs[t].rejected)
                        whose = "late-response-of-a-timed-out-request";
                }
                ctx.violation("c15:fulfilled-with-another-requests-response:" + whose, detail(w));
            }
            else if (sc.beh[i] == B_GARBAGE)
            {
                if (srv.answered.count(i) && !o.rejected)
                    ctx.violation(std::string("c15:unparsable-response-not-rejected:") + (o.fulfilled ? "fulfilled" : "pending"), detail(w));
            }
            else if (srv.answered.count(i) && !o.fulfilled && !(sc.timeoutMs[i] && o.rejected))
                ctx.violation(std::string("c15:answered-request-not-fulfilled:") + (o.rejected ? "rejected" : "pending"), detail(w));
            else if (sc.timeoutMs[i] && !srv.answered.count(i) && !o.rejected && !o.fulfilled && srv.readAtTick.count(i)
                     && (ticks - srv.readAtTick[i]) * 500 > sc.timeoutMs[i])
            {
                // the request reached the server over an established connection, was not answered (never, dropped, or
                // stuck behind an unanswered one) and more than its time-out has passed since
                ctx.violation("c15:timed-out-request-not-rejected", detail(w + ",\"reached_server_at_tick\":" + std::to_string(srv.readAtTick[i]) + ",\"ticks\":" + std::to_string(ticks)));
            }
            ctx.outcome(std::string(kBehNames[sc.beh[i]]) + (sc.timeoutMs[i] ? "/timeout" : "") + " -> " + (o.fulfilled ? "fulfilled" : o.rejected ? "rejected" : "pending"));
        }
        // a reactor thread stuck before a mutex that is never released (e.g. one it holds itself) can settle nothing
        for (int a = 0; a < sc.threads && x.ok; ++a)
            if (ng_is_parked(a) && ng_kind(a) == 1 && !ng_mutex_free(ng_addr(a)))
            {
                ctx.violation("c15:reactor-thread-blocked-on-a-mutex-at-quiescence", detail("\"actor\":" + std::to_string(a)));
                x.ok = false;
            }
        // a request parked in the client's own queue while a connection to that host sits idle is a lost wake-up
        {
            // (per host: the pool and the queues are keyed by the request's authority)
            bool queuedBehindIdle = false;
            int inQueue           = 0;
            std::string whichHost;
            for (auto& kv : client.requestsQueues)
            {
                std::shared_ptr<Http::Experimental::Connection::RequestData> data;
                int here = 0;
                while (kv.second.dequeue(data))
                    ++here;
                inQueue += here;
                bool idleConn = false;
                auto pc       = client.pool.conns.find(kv.first);
                if (pc != client.pool.conns.end())
                    for (auto& c : pc->second)
                        idleConn |= c->isIdle() && c->isConnected();
                if (here && idleConn)
                {
                    queuedBehindIdle = true;
                    whichHost        = kv.first;
                }
            }
            if (queuedBehindIdle && x.ok)
                ctx.violation("c15:queued-request-never-started-although-a-connection-is-idle", detail("\"host\":" + vr::jstr(whichHost)));
            // everything is quiet: a request that is neither settled nor waiting in the client's queue has been handed
            // to a connection, so the server must have seen it
            int unsent = 0, firstUnsent = -1;
            for (int i = 0; i < issued; ++i)
                if (!obs[i].fulfilled && !obs[i].rejected && !srv.readAtTick.count(i))
                {
                    ++unsent;
                    if (firstUnsent < 0)
                        firstUnsent = i;
                }
            // (not when the server closes connections: a request written to a connection that the server has already
            // closed goes nowhere, and the property says nothing about it)
            bool serverCloses = false;
            for (int i = 0; i < sc.n; ++i)
                serverCloses |= sc.beh[i] == B_CLOSE_AFTER || sc.beh[i] == B_RESET_AFTER;
            // (a request whose connection attempt failed is never settled by pistache - PrintException() is all that
            // happens -, which the property, speaking of established connections, does not cover: allowed for)
            if (unsent > inQueue + sc.connectFaults && x.ok && issuerActor.empty() && !serverCloses)
            {
                std::string dbg = ",\"server_connections\":" + std::to_string(srv.conns.size()) + ",\"listener_has_pending_connection\":" + (srv.can_accept() ? "true" : "false") + ",\"reactor0_ready\":" + (sim::actor_ready(0) ? "true" : "false");
                for (size_t ci = 0; ci < srv.conns.size(); ++ci)
                    dbg += ",\"conn" + std::to_string(ci) + "_readable\":" + (srv.can_read(ci) ? "true" : "false");
                ctx.violation("c15:request-handed-to-a-connection-but-never-sent", detail("\"request\":" + std::to_string(firstUnsent) + ",\"unsent\":" + std::to_string(unsent) + ",\"in_client_queue\":" + std::to_string(inQueue) + dbg));
            }
        }
        if (srv.peakOpen > sc.limit * (sc.host.empty() ? 1 : 2))
            ctx.violation("c15:more-connections-than-configured", detail("\"peak\":" + std::to_string(srv.peakOpen) + ",\"limit\":" + std::to_string(sc.limit)));
        // issuing threads still parked run to their end first
        for (int round = 0; round < 200; ++round)
        {
            bool all = true;
            for (int id : issuerActor)
                if (!ng_has_exited(id))
                {
                    all = false;
                    if (ng_is_parked(id) && sim::actor_ready(id))
                        sim::step_actor(id);
                    else
                        ng_wait_parked(id, 50);
                }
            if (all)
                break;
        }
        // the server side goes first and aborts what is open (no TIME_WAIT entries pile up over thousands of executions)
        srv.stop();
        // shut the client down: its threads must leave
        client.shutdown();
        sim::bump_activity();
        for (int round = 0; round < 50; ++round)
        {
            bool all = true;
            for (int a = 0; a < ng_count(); ++a)
            {
                if (ng_has_exited(a))
                    continue;
                all = false;
                if (ng_is_parked(a))
                {
                    sim::forget_last_events(a);
                    sim::step_actor(a);
                }
                else
                    ng_wait_parked(a, 200);
            }
            if (all)
                break;
        }
        bool zombie = false;
        for (int a = 0; a < ng_count(); ++a)
            zombie |= !ng_has_exited(a);
        ng_release_all();
        sim::configure(true, false, false);
        for (auto& t : issuerThreads)
            if (t.joinable())
                t.join();
        srv.stop();
        promises.clear();
        if (zombie && x.ok)
        {
            // a thread of the client that survives shutdown() would go on running into the next execution
            ctx.violation("c15:client-threads-did-not-terminate-on-shutdown", "{\"scenario\":" + vr::jstr(sc.str()) + ",\"schedule\":" + vr::jstr(trace) + "}");
            _exit(77);
        }
    }
    static auto cl = sim::real<int (*)(int)>("close");
    for (int fd : sim::list_fds())
        if (!std::binary_search(fdsBefore.begin(), fdsBefore.end(), fd))
            cl(fd);
    sim::configure(false, false, false);
    ctx.poll_reports();
    uint64_t h = vr::hash_str(sc.str());
    for (uint8_t c : x.choices)
    {
        h = h * 1099511628211ull + c + 1;
        ctx.state(h);
    }
    return x;
}

static std::vector<Scenario> gScenarios;

static void run_case(uint64_t idx, vr::Ctx& ctx)
{
    const Scenario& sc = gScenarios[idx];
    ctx.note(sc.str());
    uint64_t steps = 0, execs = 0;
    std::vector<std::vector<uint8_t>> stack;
    stack.push_back({});
    try
    {
        while (!stack.empty() && ctx.case_violations < 4 && execs < 4000 && !ctx.stopping())
        {
            auto prefix = stack.back();
            stack.pop_back();
            Exec x = run_one(sc, prefix, ctx, steps);
            ++execs;
            if (!x.ok)
                continue;
            int cost = 0;
            for (size_t i = 0; i < x.choices.size(); ++i)
            {
                if (i >= prefix.size())
                    for (int alt = 1; alt < x.nEnabled[i]; ++alt)
                    {
                        if (cost + 1 > sc.D)
                            continue;
                        std::vector<uint8_t> np(x.choices.begin(), x.choices.begin() + i);
                        np.push_back((uint8_t)alt);
                        stack.push_back(np);
                    }
                if (x.choices[i] != 0)
                    ++cost;
            }
            if (!x.choices.empty())
                ctx.nontrivial(vr::hash_bytes(x.choices.data(), x.choices.size(), idx));
        }
    }
    catch (const sim::HarnessError& e)
    {
        ctx.violation("c15:harness:" + e.what.substr(0, 50), "{\"scenario\":" + vr::jstr(sc.str()) + "}");
        _exit(77);
    }
    if (!stack.empty() && ctx.case_violations == 0)
        ctx.count("incomplete_cases", 1); // cap or deadline: the scenario's schedule tree was not finished
    ctx.count("executions", execs);
    ctx.count("transitions", steps);
    ctx.sample("{\"scenario\":" + vr::jstr(sc.str()) + ",\"schedules\":" + std::to_string(execs) + (stack.empty() ? "" : ",\"unfinished\":true") + "}");
}

int main(int argc, char** argv)
{
    vr::Options opt = vr::parse_args(argc, argv);
    bool thorough   = opt.geti("thorough", 0);
    int maxD        = opt.geti("D", 1);
    // batches: every behaviour vector over {whole, pieces, chunked, close-after} for n <= 3 (n <= 4 thorough), plus
    // time-out scenarios
    for (int threads : { 1, 2 })
        for (int limit : { 1, 2 })
        {
            if (!thorough && threads == 2 && limit == 2)
                continue;
            for (int n = 1; n <= (thorough ? 4 : 3); ++n)
            {
                int combos = 1;
                for (int i = 0; i < n; ++i)
                    combos *= 4;
                for (int c = 0; c < combos; ++c)
                {
                    // thin: keep vectors that are sorted-rotations-distinct enough: all for n<=2, every 3rd otherwise
                    if (n >= 3 && (c % 3) != (threads + limit) % 3)
                        continue;
                    Scenario s { threads, limit, n, {}, {}, maxD };
                    int cc = c;
                    for (int i = 0; i < n; ++i)
                    {
                        s.beh.push_back(cc % 4);
                        s.timeoutMs.push_back(0);
                        cc /= 4;
                    }
                    gScenarios.push_back(s);
                }
            }
            // time-outs: first request never answered with a 1 s time-out, followed by ordinary ones
            for (int n = 1; n <= 3; ++n)
            {
                Scenario s { threads, limit, n, {}, {}, maxD };
                for (int i = 0; i < n; ++i)
                {
                    s.beh.push_back(i == 0 ? B_NEVER : B_WHOLE);
                    s.timeoutMs.push_back(i == 0 ? 1000 : 0);
                }
                gScenarios.push_back(s);
                // every request of the batch carries a time-out (the hand-over after a time-out arms the next one)
                if (n >= 2)
                {
                    Scenario u = s;
                    for (int i = 0; i < n; ++i)
                        u.timeoutMs[i] = 1000;
                    gScenarios.push_back(u);
                }
                // the unanswered request is forgotten by the server, which serves the connection's next requests
                if (n >= 2)
                    for (int all = 0; all < 2; ++all)
                    {
                        Scenario u = s;
                        u.beh[0]   = B_DROP;
                        for (int i = 1; i < n && all; ++i)
                            u.timeoutMs[i] = 1000;
                        gScenarios.push_back(u);
                    }
                // a slow answer that arrives after the time-out has fired
                if (n >= 2)
                {
                    Scenario t = s;
                    t.beh[0]   = B_WHOLE;
                    t.D        = std::max(maxD, 2); // the answer has to be delayed past two ticks
                    gScenarios.push_back(t);
                }
            }
        }
    // consecutive time-outs on one pooled connection object (round 6; since the repair of F36 a timed-out connection is closed and
    // the next request connects again - the connection object, its timers and its parser are the same ones): a second and a
    // third time-out must fire just as the first, and an answered request after them must get its answer
    for (int threads : { 1, 2 })
        for (int k = 2; k <= 3; ++k)
            for (int tail = 0; tail < 2; ++tail)
            {
                if (!thorough && threads == 2 && k == 3)
                    continue;
                Scenario s { threads, 1, k + tail, {}, {}, maxD };
                for (int i = 0; i < k; ++i)
                {
                    s.beh.push_back(i % 2 ? B_DROP : B_NEVER);
                    s.timeoutMs.push_back(1000);
                }
                if (tail)
                {
                    s.beh.push_back(B_PIECES);
                    s.timeoutMs.push_back(0);
                }
                gScenarios.push_back(s);
            }
    // two hosts through one client (limit 1 each): one host's connection is taken by a request that is never answered and
    // has a request waiting behind it; the other host's requests must go on being handed over whenever its connection is
    // free. The client keeps one queue per host, created when a request first has to wait, and scans them in table order:
    // both creation orders are covered (saturated host's queue created first: 5 requests, one deviation; created last: 6
    // requests, two deviations - one request of the other host has to wait before, one after).
    for (int threads : { 1, 2 })
        for (int sat = 0; sat < 2; ++sat) // which of the two authorities is the saturated one
            for (int lateSat = 0; lateSat < 2; ++lateSat)
            {
                if (!thorough && threads == 2)
                    continue;
                static const int order5[] = { 1, 1, 0, 0, 0 }, order6[] = { 0, 0, 1, 1, 0, 0 }; // 1 = goes to the saturated host
                const int* order = lateSat ? order6 : order5;
                int n            = lateSat ? 6 : 5;
                Scenario s { threads, 1, n, {}, {}, lateSat ? std::max(maxD, 2) : maxD };
                for (int i = 0; i < n; ++i)
                {
                    bool toSat = order[i] == 1;
                    s.host.push_back(toSat ? sat : 1 - sat);
                    bool firstOfSat = toSat && (i == 0 || order[i - 1] != 1);
                    s.beh.push_back(firstOfSat ? B_NEVER : B_WHOLE);
                    s.timeoutMs.push_back(0);
                }
                gScenarios.push_back(s);
            }
    // requests that reuse connections established (and idle) before: several of them between two reactor wake-ups
    for (int threads : { 1, 2 })
        for (int limit : { 1, 2 })
            for (int extra = 2; extra <= 3; ++extra)
            {
                if (!thorough && (threads == 2 && limit == 1))
                    continue;
                Scenario s { threads, limit, limit + extra, {}, {}, maxD };
                s.warm = limit;
                for (int i = 0; i < s.n; ++i)
                {
                    s.beh.push_back(i % 2 ? B_PIECES : B_WHOLE);
                    s.timeoutMs.push_back(0);
                }
                gScenarios.push_back(s);
            }
    // a HEAD request whose answer is refused or never comes, then ordinary requests on the same connection (round 6): what the
    // client expects of an answer because of the request's method must not outlive that answer
    for (int variant = 0; variant < 3; ++variant)
    {
        Scenario s { 1, 1, 3, {}, {}, maxD };
        s.beh       = { variant == 1 ? B_NEVER : B_GARBAGE, B_WHOLE, B_PIECES };
        s.timeoutMs = { variant == 1 ? 1000 : 0, 0, 0 };
        s.head      = { variant == 2 ? 0 : 1, 0, 0 };
        gScenarios.push_back(s);
    }
    // every cut position of a response (round 6): two requests over one keep-alive connection, each answered in two pieces cut
    // after k bytes, plain and chunked - "responses arriving in arbitrary segmentation"
    for (int chunked = 0; chunked < 2; ++chunked)
    {
        int len = (int)ScriptedServer::response_for(0, chunked).size();
        for (int k = 1; k < len; ++k)
        {
            Scenario s { 1, 1, 2, {}, {}, 0 };
            s.cutAt = k;
            for (int i = 0; i < 2; ++i)
            {
                s.beh.push_back(chunked ? B_CHUNKED : B_PIECES);
                s.timeoutMs.push_back(0);
            }
            gScenarios.push_back(s);
        }
    }
    // mixed time-outs over two connections: which requests carry a time-out and which are never answered, all combinations
    // (a timer used and released on one connection, then used on the other)
    for (int mask = 1; mask < 8; ++mask)
        for (int never = 1; never < 8; ++never)
        {
            if ((mask & never) == 0)
                continue; // an unanswered request without a time-out only waits
            if (!thorough && (mask == 7 || never == 7))
                continue;
            Scenario s { 1, 2, 3, {}, {}, maxD };
            for (int i = 0; i < 3; ++i)
            {
                s.beh.push_back((never >> i & 1) ? B_NEVER : B_WHOLE);
                s.timeoutMs.push_back((mask >> i & 1) ? 1000 : 0);
            }
            bool useful = true;
            for (int i = 0; i < 3; ++i)
                if ((never >> i & 1) && !(mask >> i & 1))
                    useful = false; // (every unanswered request has a time-out)
            if (useful)
                gScenarios.push_back(s);
        }
    // a connection attempt that fails at once, with further requests (needing further connections) issued meanwhile
    for (int threads : { 1, 2 })
        for (int n = 2; n <= 3; ++n)
        {
            if (!thorough && threads == 2)
                continue;
            Scenario s { threads, 2, n, {}, {}, maxD };
            s.connectFaults = 1;
            for (int i = 0; i < n; ++i)
            {
                s.beh.push_back(B_WHOLE);
                s.timeoutMs.push_back(0);
            }
            gScenarios.push_back(s);
        }
    // a response that starts in time and then stalls: the time-out covers the whole response, not its first byte
    for (int threads : { 1, 2 })
        for (int limit : { 1, 2 })
            for (int n = 1; n <= 2; ++n)
            {
                if (!thorough && threads == 2 && limit == 2)
                    continue;
                Scenario s { threads, limit, n, {}, {}, maxD };
                for (int i = 0; i < n; ++i)
                {
                    s.beh.push_back(i == 0 ? B_STALL : B_WHOLE);
                    s.timeoutMs.push_back(i == 0 ? 1000 : 0);
                }
                gScenarios.push_back(s);
            }
    // the server aborts the connection right after an answer while further requests wait for that connection
    for (int threads : { 1, 2 })
        for (int limit : { 1, 2 })
            for (int n = 2; n <= 3; ++n)
                for (int pos = 0; pos < n - 1; ++pos)
                {
                    if (!thorough && (threads == 2 && limit == 2))
                        continue;
                    Scenario s { threads, limit, n, {}, {}, maxD };
                    // (two requests queued behind the reset connection: the second write to it needs two deviations)
                    if (threads == 1 && limit == 1 && n == 3 && pos == 0)
                        s.D = std::max(maxD, 2);
                    for (int i = 0; i < n; ++i)
                    {
                        s.beh.push_back(i == pos ? B_RESET_AFTER : B_WHOLE);
                        s.timeoutMs.push_back(0);
                    }
                    gScenarios.push_back(s);
                }
    // fine-grained issue: more requests than connections, issued by gated threads (lost wake-up between the
    // connection pool and the client's request queue)
    for (int threads : { 1, 2 })
        for (int n = 2; n <= 3; ++n)
        {
            Scenario s { threads, 1, n, {}, {}, std::max(maxD, 1) };
            s.fine = true;
            for (int i = 0; i < n; ++i)
            {
                s.beh.push_back(B_WHOLE);
                s.timeoutMs.push_back(0);
            }
            gScenarios.push_back(s);
        }
    return vr::run(opt, gScenarios.size(), run_case);
}
