// C15, the client's per-host queue of waiting requests (MPMCQueue, a bounded ring): a request that has to wait for a
// connection must be accepted while fewer than its capacity are waiting, and the waiting requests leave in the order they
// came - however many requests have passed through the ring before (the client keeps one ring per host for its lifetime).
//
// The real template is instantiated with small capacities (2, 4, 8 instead of the client's 2048: same code, laps come
// sooner) and driven through EVERY sequence of enqueue / dequeue operations up to a length that takes the indices several
// times around the ring; a bounded FIFO is the reference on every step.
#include <pistache/mailbox.h>

#include "common/runner.h"

#include <deque>

using namespace Pistache;

template <size_t Size>
static void run_sequences(uint64_t first, uint64_t count, int len, vr::Ctx& ctx)
{
    uint64_t ops = 0;
    for (uint64_t code = first; code < first + count && ctx.case_violations < 4; ++code)
    {
        MPMCQueue<int, Size> q;
        std::deque<int> ref;
        int next = 1;
        std::string desc;
        for (int i = 0; i < len; ++i)
        {
            bool enq = (code >> i) & 1;
            ++ops;
            if (enq)
            {
                bool ok     = q.enqueue(next);
                bool expect = ref.size() < Size;
                desc += ok ? 'E' : 'e';
                if (ok != expect)
                {
                    ctx.violation(std::string("c15:request-queue:") + (expect ? "enqueue-refused-although-not-full" : "enqueue-accepted-although-full"),
                                  "{\"capacity\":" + std::to_string(Size) + ",\"operations(E=enqueue ok,e=refused,D=dequeue ok,d=empty)\":" + vr::jstr(desc) + ",\"waiting\":" + std::to_string(ref.size()) + "}");
                    break;
                }
                if (ok)
                    ref.push_back(next);
                ++next;
            }
            else
            {
                int v       = -1;
                bool ok     = q.dequeue(v);
                bool expect = !ref.empty();
                desc += ok ? 'D' : 'd';
                if (ok != expect || (ok && v != ref.front()))
                {
                    ctx.violation(std::string("c15:request-queue:") + (ok != expect ? (expect ? "dequeue-finds-nothing-although-requests-wait" : "dequeue-from-an-empty-queue") : "dequeue-out-of-order"),
                                  "{\"capacity\":" + std::to_string(Size) + ",\"operations(E=enqueue ok,e=refused,D=dequeue ok,d=empty)\":" + vr::jstr(desc) + ",\"got\":" + std::to_string(v) + ",\"expected\":" + std::to_string(ref.empty() ? -1 : ref.front()) + "}");
                    break;
                }
                if (ok)
                    ref.pop_front();
            }
            ctx.state(vr::hash_str(std::to_string(Size) + ":" + std::to_string(next % (2 * Size)) + ":" + std::to_string(ref.size()) + ":" + std::to_string(ref.empty() ? 0 : ref.front() % (2 * Size))));
        }
        if (next > (int)Size + 1)
            ctx.nontrivial(vr::hash_str(desc, Size));
    }
    ctx.count("transitions", ops);
    ctx.count("executions", count);
    ctx.count("evaluations", count);
}

static int gLen = 16;
static const uint64_t kBlock = 1024;

int main(int argc, char** argv)
{
    vr::Options opt = vr::parse_args(argc, argv);
    gLen            = opt.geti("len", 16);
    static uint64_t perSize;
    perSize = ((1ull << gLen) + kBlock - 1) / kBlock;
    return vr::run(opt, 3 * perSize, [](uint64_t idx, vr::Ctx& ctx) {
        int which      = int(idx / perSize);
        uint64_t first = (idx % perSize) * kBlock;
        uint64_t count = std::min<uint64_t>(kBlock, (1ull << gLen) - first);
        ctx.note("request queue capacity " + std::to_string(which == 0 ? 2 : which == 1 ? 4 : 8) + ", sequences from " + std::to_string(first));
        if (which == 0)
            run_sequences<2>(first, count, gLen, ctx);
        else if (which == 1)
            run_sequences<4>(first, count, gLen, ctx);
        else
            run_sequences<8>(first, count, gLen, ctx);
        ctx.outcome("request queue sequences, capacity " + std::to_string(which == 0 ? 2 : which == 1 ? 4 : 8));
        if (idx % 61 == 0)
            ctx.sample("{\"capacity\":" + std::to_string(which == 0 ? 2 : which == 1 ? 4 : 8) + ",\"sequences_from\":" + std::to_string(first) + ",\"length\":" + std::to_string(gLen) + "}");
    });
}
