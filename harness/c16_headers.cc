// C16: typed headers survive write/parse and are found under any capitalisation.
//
// Bounded-exhaustive enumeration against the real header classes (http_header.h/.cc), Header::Collection /
// Registry (http_headers.h/.cc), FullDate (http_defs.cc) and - for the lookup part - the real
// Http::RequestParser / Http::ResponseParser on complete messages, under ASan + UBSan. No sampling.
//
// Round trip (object -> write -> parseRaw on an exact-size heap buffer without NUL -> accessors equal what
// the generator put in -> write again, identical text):
//   CC  Cache-Control : every directive list of length <= 3 (incl. the empty list) over the 12 directives, the
//                       4 timed ones with delta in {0, 1, 59, 2^31-1} (thorough: length <= 4, + 2^31, 2^32+1, 2^63-1)
//   SM  Connection x3, Content-Encoding x6, Transfer-Encoding x6, Expect x2
//   CL  Content-Length : 0..9999, 10^k-1 / 10^k / 10^k+1, 2^k-1 / 2^k / 2^k+1 up to 2^64-1
//   CT  Content-Type  : 8 types x 17 known subtypes x (none + 7 known suffixes) x q x parameter sets, built as
//                       MediaType objects (quick: 5 q values x 4 parameter sets; thorough: 102 x 12), plus every q (none, 0..100)
//                       on 3 carriers
//   AU  Authorization : Basic from every (user, password) over a 9-byte alphabet up to length 2 (thorough 3; password also
//                       with ':'), checked against the generator's own base64; Bearer / other schemes
//   DT  Date          : every second of 4 chosen days (thorough 27) + 00:00:00 of every day of the 400-year cycle
//                       1700-01-01 .. 2099-12-31 (what a nanosecond system_clock time_point can hold); for
//                       the days also the generator's own IMF-fixdate text ("Sun, 06 Nov 1994 08:49:37 GMT")
//   HO  Host          : 16 hosts (names, numeric IPv4, bracketed IPv6; nothing is resolved) x ports
//                       {0, 1, 80, 443, 8080, 65535} via Host(host, Port), and via the string constructor
//   TX  Location, Server (1-3 tokens), User-Agent, Access-Control-Allow-Origin / -Allow-Headers /
//       -Expose-Headers / -Allow-Methods : token strings
// Lookup (real parsers, request and response):
//   LK  every registered name + Cookie + Set-Cookie + 3 unregistered names: all capitalisations when the name
//       has <= 16 letters, else all-lower / all-upper / every 1- and 2-letter (thorough 3-letter) flip; the header is sent under
//       that capitalisation and looked up under canonical / lower / UPPER / the same / the inverse spelling,
//       and sent under the canonical name and looked up under that capitalisation
//   DU  duplicates: every header twice (and three times) with different values under every pair of
//       {canonical, lower, UPPER} spellings: the first occurrence wins, typed and raw
//   UV  unregistered names x values with every byte value except CR / LF / NUL at each position of values of
//       length 1..3: value bytes intact (leading spaces are the separator, not part of the value)
//   UN  unregistered 3-byte names with every token character at each position
//
// Equalities that are not findings (by design of the API): Server tokens compare as joined text; Host port 0
// means "no port" and reads back as 80; Date prints fractional seconds and "UTC" and must only parse back to
// the same time point. Allow (reader is a no-op) and Accept (writer is a no-op) have no round trip and are
// only covered by the lookup part.
//
// "Nontrivial" rule: a round-trip input is nontrivial unless it is the header's single most ordinary value (one
// untimed directive, a length below 10000, a lower-case host with port 80, one token ...) - concretely every
// input except the first of its section; a lookup input is nontrivial unless both the sent and the asked
// name are the canonical spelling.
#include <pistache/http.h>
#include <pistache/http_header.h>
#include <pistache/http_headers.h>

#include <algorithm>
#include <map>
#include <sstream>
#include <string>
#include <vector>

#include "common/garbage.h"
#include "common/parser_common.h"
#include "common/runner.h"

using namespace Pistache;
namespace H = Pistache::Http::Header;
using Http::CacheDirective;
using Http::FullDate;

static const uint64_t kBlock = 256;
static bool gThorough        = false;
static int gCCLen = 3, gCredLen = 2, gFlips = 2; // list length, credential length, letters flipped in long names

struct Exact
{
    char* p;
    size_t n;
    explicit Exact(const std::string& s)
        : p(new char[s.size()])
        , n(s.size())
    {
        memcpy(p, s.data(), n);
    }
    ~Exact() { delete[] p; }
    Exact(const Exact&) = delete;
};

template <typename F>
static int guard(F&& f, std::string& what)
{
    try
    {
        f();
        return 0;
    }
    catch (const Http::HttpError& e)
    {
        what = "HttpError(" + std::to_string(e.code()) + ") " + e.reason();
        return 1;
    }
    catch (const std::exception& e)
    {
        what = std::string("exception ") + e.what();
        return 1;
    }
    catch (...)
    {
        what = "non-std exception";
        return 2;
    }
}

template <typename Hd>
static std::string written(const Hd& h)
{
    std::ostringstream os;
    h.write(os);
    return os.str();
}

// One round trip. want: what the generator put in, rendered by the same accessor-based describe() that is
// applied to the object read back. sigTail names the header (and the generator-side cause, if any).
template <typename Hd, typename Desc>
static bool roundtrip(const Hd& h, const std::string& want, Desc describe, const std::string& sigTail, vr::Ctx& ctx, bool trivial = false)
{
    const std::string hname = Hd::Name;
    ctx.note("roundtrip " + hname + " " + want);
    ctx.count("evaluations", 1);
    ctx.count("transitions", 3);
    std::string text, what;
    if (guard([&] { text = written(h); }, what))
    {
        ctx.violation("c16:write-threw:" + sigTail, "{\"header\":" + vr::jstr(hname) + ",\"value\":" + vr::jstr(want) + ",\"error\":" + vr::jstr(what) + "}");
        return false;
    }
    ctx.note("roundtrip " + hname + " text=" + vr::show(text));
    if (!trivial)
        ctx.nontrivial(vr::hash_str(hname + "\n" + text + "\n" + want, 3));
    std::string self = describe(h);
    Hd h2;
    Exact b(text);
    std::string got, again;
    int k = guard([&] {
        h2.parseRaw(b.p, b.n);
        got   = describe(h2);
        again = written(h2);
    },
                  what);
    ctx.poll_reports();
    ctx.state(vr::hash_str(hname + "\n" + (k ? "rejected" : got), 5));
    std::string dj = "{\"header\":" + vr::jstr(hname) + ",\"value\":" + vr::jstr(want) + ",\"written\":" + vr::jstr(vr::show(text));
    if (self != want)
    {
        ctx.violation("c16:accessors-differ-from-constructed-value:" + sigTail, dj + ",\"accessors\":" + vr::jstr(self) + "}");
        return false;
    }
    if (k)
    {
        ctx.violation("c16:roundtrip:" + sigTail, dj + ",\"read_back\":" + vr::jstr("rejected: " + what) + "}");
        ctx.outcome(hname + " roundtrip: written text rejected");
        return false;
    }
    if (got != want)
    {
        ctx.violation("c16:roundtrip:" + sigTail, dj + ",\"read_back\":" + vr::jstr(got) + "}");
        ctx.outcome(hname + " roundtrip: read back differently");
        return false;
    }
    if (again != text)
    {
        ctx.violation("c16:rewrite-differs:" + sigTail, dj + ",\"written_again\":" + vr::jstr(vr::show(again)) + "}");
        ctx.outcome(hname + " roundtrip: second write differs");
        return false;
    }
    ctx.outcome(hname + " roundtrip ok");
    return true;
}

// ---- CC -----------------------------------------------------------------------------------------------------
struct DirEnt
{
    CacheDirective::Directive d;
    const char* s;
    bool timed;
};
static const DirEnt kDirs[] = {
    { CacheDirective::NoCache, "no-cache", false }, { CacheDirective::NoStore, "no-store", false }, { CacheDirective::NoTransform, "no-transform", false },
    { CacheDirective::OnlyIfCached, "only-if-cached", false }, { CacheDirective::Public, "public", false }, { CacheDirective::Private, "private", false },
    { CacheDirective::MustRevalidate, "must-revalidate", false }, { CacheDirective::ProxyRevalidate, "proxy-revalidate", false },
    { CacheDirective::MaxAge, "max-age", true }, { CacheDirective::MaxStale, "max-stale", true }, { CacheDirective::MinFresh, "min-fresh", true },
    { CacheDirective::SMaxAge, "s-maxage", true }
};
struct Elem
{
    int dir;
    int64_t delta;
};
static std::vector<Elem> gElems;
static std::vector<int> gElemIds;
static uint64_t nCC;

static const char* dir_name(CacheDirective::Directive d)
{
    for (auto& e : kDirs)
        if (e.d == d)
            return e.s;
    return "?";
}
static std::string desc_cc(const H::CacheControl& h)
{
    std::string o;
    for (const auto& d : h.directives())
    {
        o += dir_name(d.directive());
        bool timed = false;
        for (auto& e : kDirs)
            if (e.d == d.directive())
                timed = e.timed;
        if (timed)
            o += "(" + std::to_string(d.delta().count()) + ")";
        o += " ";
    }
    return "[" + o + "]";
}

static void caseCC(uint64_t i, vr::Ctx& ctx)
{
    auto ids = gb::nth<int>(i, gElemIds.data(), gElemIds.size(), gCCLen);
    std::vector<CacheDirective> dirs;
    std::string want;
    bool zero = false;
    for (int id : ids)
    {
        const Elem& e = gElems[id];
        want += kDirs[e.dir].s;
        if (kDirs[e.dir].timed)
        {
            dirs.emplace_back(kDirs[e.dir].d, std::chrono::seconds(e.delta));
            want += "(" + std::to_string(e.delta) + ")";
            zero |= e.delta == 0;
        }
        else
            dirs.emplace_back(kDirs[e.dir].d);
        want += " ";
    }
    want = "[" + want + "]";
    roundtrip(H::CacheControl(dirs), want, desc_cc, zero ? "cache-control:delta-0" : "cache-control", ctx, i == 1);
}

// ---- SM -----------------------------------------------------------------------------------------------------
static const uint64_t nSM = 3 + 6 + 6 + 2;
static void caseSM(uint64_t i, vr::Ctx& ctx)
{
    static const Http::ConnectionControl cc[] = { Http::ConnectionControl::Close, Http::ConnectionControl::KeepAlive, Http::ConnectionControl::Ext };
    static const H::Encoding enc[]            = { H::Encoding::Gzip, H::Encoding::Compress, H::Encoding::Deflate, H::Encoding::Identity, H::Encoding::Chunked, H::Encoding::Unknown };
    if (i < 3)
        roundtrip(H::Connection(cc[i]), "control=" + std::to_string((int)cc[i]), [](const H::Connection& h) { return "control=" + std::to_string((int)h.control()); }, "connection", ctx, i == 0);
    else if (i < 9)
        roundtrip(H::ContentEncoding(enc[i - 3]), "encoding=" + std::to_string((int)enc[i - 3]), [](const H::ContentEncoding& h) { return "encoding=" + std::to_string((int)h.encoding()); }, "content-encoding", ctx, i == 3);
    else if (i < 15)
        roundtrip(H::TransferEncoding(enc[i - 9]), "encoding=" + std::to_string((int)enc[i - 9]), [](const H::TransferEncoding& h) { return "encoding=" + std::to_string((int)h.encoding()); }, "transfer-encoding", ctx, i == 9);
    else
    {
        Http::Expectation e = i == 15 ? Http::Expectation::Continue : Http::Expectation::Ext;
        roundtrip(H::Expect(e), "expectation=" + std::to_string((int)e), [](const H::Expect& h) { return "expectation=" + std::to_string((int)h.expectation()); }, "expect", ctx, i == 15);
    }
}

// ---- CL -----------------------------------------------------------------------------------------------------
static std::vector<uint64_t> gLens;
static void init_CL()
{
    for (uint64_t v = 0; v < 10000; ++v)
        gLens.push_back(v);
    uint64_t p = 10000;
    for (int k = 4; k <= 19; ++k, p *= 10)
    {
        gLens.push_back(p - 1);
        gLens.push_back(p);
        gLens.push_back(p + 1);
    }
    for (int k = 14; k <= 63; ++k)
    {
        uint64_t q = 1ull << k;
        gLens.push_back(q - 1);
        gLens.push_back(q);
        gLens.push_back(q + 1);
    }
    gLens.push_back(UINT64_MAX - 1);
    gLens.push_back(UINT64_MAX);
}
static void caseCL(uint64_t i, vr::Ctx& ctx)
{
    uint64_t v = gLens[i];
    roundtrip(H::ContentLength(v), std::to_string(v), [](const H::ContentLength& h) { return std::to_string(h.value()); }, "content-length", ctx, i == 5);
}

// ---- CT -----------------------------------------------------------------------------------------------------
using Http::Mime::MediaType;
using Http::Mime::Subtype;
using Http::Mime::Suffix;
using Http::Mime::Type;
static const Type kTypes[]      = { Type::Star, Type::Text, Type::Image, Type::Audio, Type::Video, Type::Application, Type::Message, Type::Multipart };
static const Subtype kSubs[]    = { Subtype::Star, Subtype::Plain, Subtype::Html, Subtype::Xhtml, Subtype::Xml, Subtype::Javascript, Subtype::Css, Subtype::OctetStream,
                                    Subtype::Json, Subtype::JsonSchema, Subtype::JsonSchemaInstance, Subtype::FormUrlEncoded, Subtype::FormData, Subtype::Png, Subtype::Gif,
                                    Subtype::Bmp, Subtype::Jpeg };
static const Suffix kSufs[]     = { Suffix::None, Suffix::Json, Suffix::Ber, Suffix::Der, Suffix::Fastinfoset, Suffix::Wbxml, Suffix::Zip, Suffix::Xml };
static const char* kParamK[]    = { "charset", "boundary", "version" };
static const char* kParamV[]    = { "utf-8", "x.Y-9", "1" };
static std::vector<std::vector<int>> gCTParams; // subsets / ordered pairs of the 3 parameters
static std::vector<int> gCTQ;                   // -1 none, else hundredths
static uint64_t nCT, nCT1;

static std::string desc_mime(const MediaType& m)
{
    std::string o = "top=" + std::to_string((int)m.top()) + " sub=" + std::to_string((int)m.sub()) + " suffix=" + std::to_string((int)m.suffix()) + " q=" + (m.q().has_value() ? std::to_string((int)m.q()->value()) : std::string("none"));
    for (int p = 0; p < 3; ++p)
    {
        auto v = m.getParam(kParamK[p]);
        o += std::string(" ") + kParamK[p] + "=" + (v.has_value() ? "[" + *v + "]" : std::string("-"));
    }
    return o + " nparams=" + std::to_string(m.params.size());
}
static void init_CT()
{
    gCTParams.push_back({});
    for (int a = 0; a < 3; ++a)
        gCTParams.push_back({ a });
    for (int a = 0; a < 3; ++a)
        for (int b = 0; b < 3; ++b)
            if (a != b)
                gCTParams.push_back({ a, b });
    gCTParams.push_back({ 0, 1, 2 });
    gCTParams.push_back({ 2, 1, 0 });
    if (!gThorough)
        gCTParams = { {}, { 0 }, { 1, 0 }, { 0, 1, 2 } };
    if (gThorough)
        for (int q = -1; q <= 100; ++q)
            gCTQ.push_back(q);
    else
        gCTQ = { -1, 0, 5, 50, 100 };
    nCT1 = 8ull * 17 * 8 * gCTQ.size() * gCTParams.size();
    nCT  = nCT1 + 102ull * 3 * gCTParams.size();
}
static void caseCT(uint64_t i, vr::Ctx& ctx)
{
    int q, fi, si, ti;
    const std::vector<int>* psp;
    if (i < nCT1)
    {
        uint64_t x = i;
        psp        = &gCTParams[x % gCTParams.size()];
        x /= gCTParams.size();
        q = gCTQ[x % gCTQ.size()];
        x /= gCTQ.size();
        fi = int(x % 8);
        x /= 8;
        si = int(x % 17);
        x /= 17;
        ti = int(x);
    }
    else
    {
        // every quality value on three carriers: text/html, application/json+xml, */*
        uint64_t x = i - nCT1;
        psp        = &gCTParams[x % gCTParams.size()];
        x /= gCTParams.size();
        int c = int(x % 3);
        x /= 3;
        q = int(x) - 1;
        static const int carriers[3][3] = { { 1, 2, 0 }, { 5, 8, 7 }, { 0, 0, 0 } };
        ti = carriers[c][0], si = carriers[c][1], fi = carriers[c][2];
    }
    const std::vector<int>& ps = *psp;
    MediaType m = fi ? MediaType(kTypes[ti], kSubs[si], kSufs[fi]) : MediaType(kTypes[ti], kSubs[si]);
    std::string want = "top=" + std::to_string((int)kTypes[ti]) + " sub=" + std::to_string((int)kSubs[si]) + " suffix=" + std::to_string((int)kSufs[fi]) + " q=" + (q >= 0 ? std::to_string(q) : std::string("none"));
    if (q >= 0)
        m.setQuality(Http::Mime::Q((Http::Mime::Q::Type)q));
    for (int p : ps)
        m.setParam(kParamK[p], kParamV[p]);
    for (int p = 0; p < 3; ++p)
        want += std::string(" ") + kParamK[p] + "=" + (std::find(ps.begin(), ps.end(), p) != ps.end() ? std::string("[") + kParamV[p] + "]" : std::string("-"));
    want += " nparams=" + std::to_string(ps.size());
    roundtrip(H::ContentType(m), want, [](const H::ContentType& h) { return desc_mime(h.mime()); }, "content-type", ctx, i == 0);
}

// ---- AU -----------------------------------------------------------------------------------------------------
static const char kCred[]  = { 'a', 'B', '0', ' ', '@', '/', '\xff', '\0', '~' };
static const char kCredP[] = { 'a', 'B', '0', ' ', '@', '/', '\xff', '\0', '~', ':' };
static uint64_t nUsers, nPass, nAUbasic;
static const char* kOtherAuth[] = { "Bearer abc", "Bearer mF_9.B5f-4.1JqM", "Bearer a+b/c==", "Bearer  two-spaces", "Bearer", "Basic", "Basic ", "Bearer ", "Digest username=\"x\", realm=\"y\"", "NONE", "", "basic QTpi", "Token t" };
static const int kNOtherAuth    = sizeof kOtherAuth / sizeof kOtherAuth[0];

static std::string b64(const std::string& in)
{
    static const char* tb = "ABCDEFGHIJKLMNOPQRSTUVWXYZabcdefghijklmnopqrstuvwxyz0123456789+/";
    std::string o;
    size_t i = 0;
    for (; i + 2 < in.size(); i += 3)
    {
        uint32_t v = (uint8_t)in[i] << 16 | (uint8_t)in[i + 1] << 8 | (uint8_t)in[i + 2];
        o += tb[v >> 18];
        o += tb[(v >> 12) & 63];
        o += tb[(v >> 6) & 63];
        o += tb[v & 63];
    }
    if (in.size() - i == 1)
    {
        uint32_t v = (uint8_t)in[i] << 16;
        o += tb[v >> 18];
        o += tb[(v >> 12) & 63];
        o += "==";
    }
    else if (in.size() - i == 2)
    {
        uint32_t v = (uint8_t)in[i] << 16 | (uint8_t)in[i + 1] << 8;
        o += tb[v >> 18];
        o += tb[(v >> 12) & 63];
        o += tb[(v >> 6) & 63];
        o += "=";
    }
    return o;
}

static std::string desc_auth(const H::Authorization& h)
{
    std::string o = "value=[" + vr::show(h.value()) + "] method=" + std::to_string((int)h.getMethod());
    if (h.getMethod() == H::Authorization::Method::Basic)
    {
        std::string w;
        std::string u, p;
        if (guard([&] { u = h.getBasicUser(); p = h.getBasicPassword(); }, w))
            o += " credentials threw " + w;
        else
            o += " user=[" + vr::show(u) + "] password=[" + vr::show(p) + "]";
    }
    return o;
}

static void caseAU(uint64_t i, vr::Ctx& ctx)
{
    if (i < nAUbasic)
    {
        auto uv = gb::nth<char>(i / nPass, kCred, sizeof kCred, gCredLen);
        auto pv = gb::nth<char>(i % nPass, kCredP, sizeof kCredP, gCredLen);
        std::string u(uv.begin(), uv.end()), p(pv.begin(), pv.end());
        H::Authorization h;
        std::string what;
        ctx.note("authorization basic user=" + vr::show(u) + " password=" + vr::show(p));
        if (guard([&] { h.setBasicUserPassword(u, p); }, what))
        {
            ctx.violation("c16:write-threw:authorization", "{\"user\":" + vr::jstr(vr::show(u)) + ",\"password\":" + vr::jstr(vr::show(p)) + ",\"error\":" + vr::jstr(what) + "}");
            return;
        }
        std::string want = "value=[Basic " + b64(u + ":" + p) + "] method=0 user=[" + vr::show(u) + "] password=[" + vr::show(p) + "]";
        roundtrip(h, want, desc_auth, "authorization:basic-credentials", ctx, i == 0);
    }
    else
    {
        std::string v = kOtherAuth[i - nAUbasic];
        int method    = v.compare(0, 7, "Bearer ") == 0 && v.size() > 7 ? 1 : v.compare(0, 6, "Basic ") == 0 && v.size() > 6 ? 0 : 2;
        roundtrip(H::Authorization(v), "value=[" + vr::show(v) + "] method=" + std::to_string(method), desc_auth, "authorization", ctx);
    }
}

// ---- DT -----------------------------------------------------------------------------------------------------
static std::vector<int64_t> kDays = { 0, 9075 /* 1994-11-06 */, 11016 /* 2000-02-29 */, 24855 /* 2038-01-19 */ };
static const int64_t kCycleFirstDay = -98615; // 1700-01-01
static const uint64_t kCycleDays    = 146097;
static uint64_t nDTsec, nDT;

static FullDate::time_point tp_of(int64_t secs)
{
    return FullDate::time_point(std::chrono::duration_cast<FullDate::time_point::duration>(std::chrono::seconds(secs)));
}
static std::string desc_tp(FullDate::time_point tp)
{
    auto d = tp.time_since_epoch();
    auto s = std::chrono::duration_cast<std::chrono::seconds>(d);
    return std::to_string(s.count()) + "s+" + std::to_string((d - std::chrono::duration_cast<FullDate::time_point::duration>(s)).count()) + "ns";
}
// generator's own calendar (proleptic Gregorian), independent of the date library
static int64_t days_from_civil(int y, int m, int d)
{
    y -= m <= 2;
    int64_t era  = (y >= 0 ? y : y - 399) / 400;
    unsigned yoe = unsigned(y - era * 400);
    unsigned doy = (153 * (m + (m > 2 ? -3 : 9)) + 2) / 5 + d - 1;
    unsigned doe = yoe * 365 + yoe / 4 - yoe / 100 + doy;
    return era * 146097 + int64_t(doe) - 719468;
}
static void civil(int64_t z, int& y, int& m, int& d)
{
    z += 719468;
    int64_t era  = (z >= 0 ? z : z - 146096) / 146097;
    unsigned doe = unsigned(z - era * 146097);
    unsigned yoe = (doe - doe / 1460 + doe / 36524 - doe / 146096) / 365;
    y            = int(yoe) + int(era) * 400;
    unsigned doy = doe - (365 * yoe + yoe / 4 - yoe / 100);
    unsigned mp  = (5 * doy + 2) / 153;
    d            = int(doy - (153 * mp + 2) / 5 + 1);
    m            = int(mp < 10 ? mp + 3 : mp - 9);
    y += m <= 2;
}
static std::string imf_fixdate(int64_t secs)
{
    int64_t day = secs >= 0 ? secs / 86400 : -((-secs + 86399) / 86400); // floor
    int64_t sod = secs - day * 86400;
    int y, m, d;
    civil(day, y, m, d);
    static const char* wd[] = { "Thu", "Fri", "Sat", "Sun", "Mon", "Tue", "Wed" };
    static const char* mn[] = { "Jan", "Feb", "Mar", "Apr", "May", "Jun", "Jul", "Aug", "Sep", "Oct", "Nov", "Dec" };
    int w = int(((day % 7) + 7) % 7);
    char b[64];
    snprintf(b, sizeof b, "%s, %02d %s %04d %02d:%02d:%02d GMT", wd[w], d, mn[m - 1], y, int(sod / 3600), int(sod / 60 % 60), int(sod % 60));
    return b;
}

static void caseDT(uint64_t i, vr::Ctx& ctx)
{
    int64_t secs;
    bool dayStart = false;
    if (i < nDTsec)
        secs = kDays[i / 86400] * 86400 + int64_t(i % 86400);
    else
    {
        secs     = (kCycleFirstDay + int64_t(i - nDTsec)) * 86400;
        dayStart = true;
    }
    auto tp = tp_of(secs);
    roundtrip(H::Date(FullDate(tp)), desc_tp(tp), [](const H::Date& h) { return desc_tp(h.fullDate().date()); }, "date", ctx, i == 0);
    if (dayStart || i % 86400 == 31777 /* 08:49:37 */ || i % 86400 == 86399)
    {
        std::string text = imf_fixdate(secs), what, got;
        ctx.note("date imf-fixdate text=" + text);
        ctx.count("evaluations", 1);
        ctx.count("transitions", 1);
        H::Date h;
        Exact b(text);
        int k = guard([&] { h.parseRaw(b.p, b.n); got = desc_tp(h.fullDate().date()); }, what);
        if (k || got != desc_tp(tp))
            ctx.violation("c16:date:imf-fixdate-misread", "{\"input\":" + vr::jstr(text) + ",\"expected\":" + vr::jstr(desc_tp(tp)) + ",\"observed\":" + vr::jstr(k ? "rejected: " + what : got) + "}");
        ctx.outcome(k || got != desc_tp(tp) ? "Date IMF-fixdate misread" : "Date IMF-fixdate read ok");
        ctx.nontrivial(vr::hash_str(text, 7));
        ctx.poll_reports();
    }
}

// ---- HO -----------------------------------------------------------------------------------------------------
static const char* kHosts[] = { "example.com", "a", "localhost", "a-b.c-d.example", "xn--e1afmkfd.xn--p1ai", "EXAMPLE.Com", "127.0.0.1", "0.0.0.0", "255.255.255.255", "10.1.2.3",
                                "[::1]", "[::]", "[2001:db8::1]", "[::ffff:1.2.3.4]", "[1:2:3:4:5:6:7:8]", "[fe80::1%25eth0]" };
static const int kNHosts    = sizeof kHosts / sizeof kHosts[0];
static const int kPorts[]   = { 80, 0, 1, 443, 8080, 65535 };
static const int kNPorts    = 6;
static const uint64_t nHO   = (uint64_t)kNHosts * kNPorts + (uint64_t)kNHosts * (kNPorts + 1);
static std::string desc_host(const H::Host& h) { return "host=[" + h.host() + "] port=" + std::to_string((uint16_t)h.port()); }
static void caseHO(uint64_t i, vr::Ctx& ctx)
{
    if (i < (uint64_t)kNHosts * kNPorts)
    {
        std::string host = kHosts[i / kNPorts];
        int port         = kPorts[i % kNPorts];
        H::Host h(host, Port((uint16_t)port));
        // port 0 is the API's "no port": nothing is written and the reader supplies the default
        ctx.note("host " + host + " port " + std::to_string(port));
        ctx.count("evaluations", 1);
        ctx.count("transitions", 3);
        if (port != 0)
        {
            roundtrip(h, "host=[" + host + "] port=" + std::to_string(port), desc_host, "host", ctx, i == 0);
            return;
        }
        std::string text, what, got, again;
        H::Host h2;
        int k = guard([&] {
            text = written(h);
            Exact b(text);
            h2.parseRaw(b.p, b.n);
            got = desc_host(h2);
        },
                      what);
        std::string want = "host=[" + host + "] port=80";
        ctx.nontrivial(vr::hash_str("Host0\n" + host, 9));
        if (k || got != want)
            ctx.violation("c16:roundtrip:host", "{\"header\":\"Host\",\"value\":" + vr::jstr("host=[" + host + "] port=0 (no port)") + ",\"written\":" + vr::jstr(text) + ",\"read_back\":" + vr::jstr(k ? "rejected: " + what : got) + ",\"expected\":" + vr::jstr(want) + "}");
        ctx.outcome(k || got != want ? "Host roundtrip: read back differently" : "Host (no port) roundtrip ok");
        ctx.poll_reports();
    }
    else
    {
        // string constructor: "host" or "host:port"
        uint64_t x       = i - (uint64_t)kNHosts * kNPorts;
        std::string host = kHosts[x / (kNPorts + 1)];
        int pi           = int(x % (kNPorts + 1));
        int port         = pi == kNPorts ? -1 : kPorts[pi];
        std::string data = host + (port >= 0 ? ":" + std::to_string(port) : "");
        ctx.note("host from string " + data);
        std::string what;
        std::unique_ptr<H::Host> h;
        if (guard([&] { h.reset(new H::Host(data)); }, what))
        {
            ctx.violation("c16:host:string-constructor-rejected", "{\"input\":" + vr::jstr(data) + ",\"error\":" + vr::jstr(what) + "}");
            return;
        }
        // port 0 spelled out reads as 0, is not written, and comes back as the default
        std::string want = "host=[" + host + "] port=" + std::to_string(port < 0 ? 80 : port);
        if (port == 0)
        {
            ctx.count("evaluations", 1);
            if (desc_host(*h) != want)
                ctx.violation("c16:accessors-differ-from-constructed-value:host", "{\"input\":" + vr::jstr(data) + ",\"accessors\":" + vr::jstr(desc_host(*h)) + "}");
            return;
        }
        roundtrip(*h, want, desc_host, "host", ctx);
    }
}

// ---- TX -----------------------------------------------------------------------------------------------------
static const char* kTexts[] = { "x", "*", "/a/b?c=d&e=f#g", "http://example.com:8080/x", "https://[::1]/", "GET, POST, OPTIONS", "X-Custom-Header, Content-Type", "a b  c", "pistache/0.1",
                                "Mozilla/5.0 (X11; Linux x86_64) ua/1.0", "null", "a,b;c=d: e", "\xc3\xa9t\xc3\xa9", "trailing ", "" };
static const int kNTexts    = sizeof kTexts / sizeof kTexts[0];
static const char* kToks[]  = { "pistache/0.1", "(linux)", "x", "A/1.2.3" };
static const uint64_t nSrv  = 4 + 16 + 64;
static const uint64_t nTX   = 6ull * kNTexts + nSrv;
static void caseTX(uint64_t i, vr::Ctx& ctx)
{
    if (i < 6ull * kNTexts)
    {
        std::string v = kTexts[i % kNTexts];
        std::string w = "[" + vr::show(v) + "]";
        switch (i / kNTexts)
        {
        case 0:
            roundtrip(H::Location(v), w, [](const H::Location& h) { return "[" + vr::show(h.location()) + "]"; }, "location", ctx, i % kNTexts == 0);
            break;
        case 1:
            roundtrip(H::UserAgent(v), w, [](const H::UserAgent& h) { return "[" + vr::show(h.agent()) + "]"; }, "user-agent", ctx, i % kNTexts == 0);
            break;
        case 2:
            roundtrip(H::AccessControlAllowOrigin(v), w, [](const H::AccessControlAllowOrigin& h) { return "[" + vr::show(h.uri()) + "]"; }, "access-control-allow-origin", ctx, i % kNTexts == 0);
            break;
        case 3:
            roundtrip(H::AccessControlAllowHeaders(v), w, [](const H::AccessControlAllowHeaders& h) { return "[" + vr::show(h.val()) + "]"; }, "access-control-allow-headers", ctx, i % kNTexts == 0);
            break;
        case 4:
            roundtrip(H::AccessControlExposeHeaders(v), w, [](const H::AccessControlExposeHeaders& h) { return "[" + vr::show(h.val()) + "]"; }, "access-control-expose-headers", ctx, i % kNTexts == 0);
            break;
        default:
            roundtrip(H::AccessControlAllowMethods(v), w, [](const H::AccessControlAllowMethods& h) { return "[" + vr::show(h.val()) + "]"; }, "access-control-allow-methods", ctx, i % kNTexts == 0);
            break;
        }
        return;
    }
    static const int ids[] = { 0, 1, 2, 3 };
    auto seq = gb::nth<int>(i - 6ull * kNTexts + 1, ids, 4, 3); // + 1: skip the empty sequence
    std::vector<std::string> toks;
    std::string joined;
    for (size_t k = 0; k < seq.size(); ++k)
    {
        toks.push_back(kToks[seq[k]]);
        joined += (k ? " " : "") + toks.back();
    }
    // Server tokens are compared as the joined text (the reader keeps the value as one token)
    roundtrip(H::Server(toks), "[" + joined + "]", [](const H::Server& h) {
        std::string j;
        auto t = h.tokens();
        for (size_t k = 0; k < t.size(); ++k)
            j += (k ? " " : "") + t[k];
        return "[" + j + "]"; }, "server", ctx, seq.size() == 1 && seq[0] == 0);
}

// ---- lookup -------------------------------------------------------------------------------------------------
struct LkHeader
{
    const char* name;   // canonical
    const char* v1;     // value sent
    const char* typed1; // written form of the typed header ("" = do not compare text; "-" = not registered)
    const char* v2;     // a different valid value (duplicates)
    const char* typed2; // its written form
    const char* tail;   // what must follow the blank line for the message to be complete
};
static const LkHeader kLk[] = {
    { "Accept", "text/html", "", "image/png", "", "" },
    { "Access-Control-Allow-Origin", "*", "*", "http://a", "http://a", "" },
    { "Access-Control-Allow-Headers", "X-a, X-b", "X-a, X-b", "X-c", "X-c", "" },
    { "Access-Control-Expose-Headers", "X-a", "X-a", "X-b, X-c", "X-b, X-c", "" },
    { "Access-Control-Allow-Methods", "GET, POST", "GET, POST", "PUT", "PUT", "" },
    { "Allow", "GET", "", "POST", "", "" },
    { "Cache-Control", "no-cache, max-age=60", "no-cache, max-age=60", "private", "private", "" },
    { "Connection", "close", "Close", "keep-alive", "Keep-Alive", "" },
    { "Content-Encoding", "gzip", "gzip", "deflate", "deflate", "" },
    { "Transfer-Encoding", "chunked", "chunked", "Chunked", "chunked", "0\r\n\r\n" },
    { "Content-Length", "5", "5", "05", "5", "hello" },
    { "Content-Type", "text/html; charset=utf-8", "text/html; charset=utf-8", "application/json", "application/json", "" },
    { "Authorization", "Basic QTpi", "Basic QTpi", "Bearer t", "Bearer t", "" },
    { "Date", "Sun, 06 Nov 1994 08:49:37 GMT", "", "Mon, 07 Nov 1994 00:00:00 GMT", "", "" },
    { "Expect", "100-continue", "100-continue", "x", "", "" },
    { "Host", "example.com", "example.com:80", "10.0.0.1:8080", "10.0.0.1:8080", "" },
    { "Location", "/x/y?z=1", "/x/y?z=1", "/other", "/other", "" },
    { "Server", "pistache/0.1", "pistache/0.1", "other/2", "other/2", "" },
    { "User-Agent", "ua/1.0 (x; y)", "ua/1.0 (x; y)", "zz", "zz", "" },
    { "Cookie", "a=1; b=2", "-", "c=3", "-", "" },
    { "Set-Cookie", "sid=abc; Path=/", "-", "t=1", "-", "" },
    { "X-Request-Id", "7f3a", "-", "0000", "-", "" },
    { "x", "v", "-", "w", "-", "" },
    { "X_1.2~Odd!Name", "a: b", "-", "c", "-", "" },
};
static const int kNLk = sizeof kLk / sizeof kLk[0];

static std::vector<size_t> letter_positions(const std::string& s)
{
    std::vector<size_t> p;
    for (size_t i = 0; i < s.size(); ++i)
        if (isalpha((unsigned char)s[i]))
            p.push_back(i);
    return p;
}
static uint64_t ncaps(const std::string& name)
{
    size_t n = letter_positions(name).size();
    if (n <= 16)
        return 1ull << n;
    return 2 + n + n * (n - 1) / 2 + (gFlips >= 3 ? n * (n - 1) * (n - 2) / 6 : 0);
}
// idx-th capitalisation: bit set = upper case (short names); long names: 0 lower, 1 upper, then canonical
// with one, then two letters flipped
static std::string cap_of(const std::string& name, uint64_t idx)
{
    auto pos      = letter_positions(name);
    size_t n      = pos.size();
    std::string o = name;
    auto flip     = [&](size_t k) { char& c = o[pos[k]]; c = isupper((unsigned char)c) ? char(tolower((unsigned char)c)) : char(toupper((unsigned char)c)); };
    if (n <= 16)
    {
        for (size_t k = 0; k < n; ++k)
            o[pos[k]] = (idx >> k & 1) ? char(toupper((unsigned char)o[pos[k]])) : char(tolower((unsigned char)o[pos[k]]));
        return o;
    }
    if (idx == 0)
        return pc::lower(name);
    if (idx == 1)
    {
        for (auto& c : o)
            c = char(toupper((unsigned char)c));
        return o;
    }
    idx -= 2;
    if (idx < n)
    {
        flip(idx);
        return o;
    }
    idx -= n;
    for (size_t a = 0; a < n; ++a)
        for (size_t b = a + 1; b < n; ++b)
            if (idx-- == 0)
            {
                flip(a);
                flip(b);
                return o;
            }
    for (size_t a = 0; a < n; ++a)
        for (size_t b = a + 1; b < n; ++b)
            for (size_t c = b + 1; c < n; ++c)
                if (idx-- == 0)
                {
                    flip(a);
                    flip(b);
                    flip(c);
                    return o;
                }
    return o;
}
static std::string upper(std::string s)
{
    for (auto& c : s)
        c = char(toupper((unsigned char)c));
    return s;
}
static std::string inverse(std::string s)
{
    for (auto& c : s)
        c = isupper((unsigned char)c) ? char(tolower((unsigned char)c)) : char(toupper((unsigned char)c));
    return s;
}

struct Sent
{
    std::string name, value; // as sent (value without the leading separator spaces)
};

// Parse a message carrying the given header lines, then look every (asked name -> expected first occurrence)
// up. typed: canonical name + expected written text ("" = only presence, "-" = not registered).
static const H::Collection& headers_of(Http::RequestParser& p) { return p.request.headers(); }
static const H::Collection& headers_of(Http::ResponseParser& p) { return p.response.headers(); }

template <typename P>
static void lookup_in_delivered(const std::string& msg, size_t cut, const std::vector<std::string>& ask, const Sent& first, const LkHeader* reg, const char* sigGroup, vr::Ctx& ctx);
template <typename P>
static void lookup_in(const std::string& msg, const std::vector<std::string>& ask, const Sent& first, const LkHeader* reg, const char* sigGroup, vr::Ctx& ctx)
{
    lookup_in_delivered<P>(msg, 0, ask, first, reg, sigGroup, ctx);
    // the same message in two reads, the first ending in the middle of the looked-up header's value (what is looked
    // up must be the value that finally arrived, not a fragment seen on the way)
    size_t at = first.value.size() >= 2 ? msg.find(first.value) : std::string::npos;
    if (at != std::string::npos)
        lookup_in_delivered<P>(msg, at + first.value.size() / 2, ask, first, reg, sigGroup, ctx);
}

template <typename P>
static void lookup_in_delivered(const std::string& msg, size_t cut, const std::vector<std::string>& ask, const Sent& first, const LkHeader* reg, const char* sigGroup, vr::Ctx& ctx)
{
    ctx.note(std::string(sigGroup) + (cut ? " [two reads, cut at " + std::to_string(cut) + "]" : "") + " message=" + vr::show(msg));
    P p(8192);
    pc::Outcome o;
    if (cut)
    {
        o = pc::step(p, msg.data(), cut);
        if (o.kind == pc::AGAIN)
            o = pc::step(p, msg.data() + cut, msg.size() - cut);
    }
    else
        o = pc::step(p, msg.data(), msg.size());
    ctx.count("transitions", 1 + 3 * ask.size());
    std::string dj = "{\"message\":" + vr::jstr(vr::show(msg)) + (cut ? ",\"first_read_ends_at\":" + std::to_string(cut) : "");
    if (o.kind != pc::DONE)
    {
        ctx.violation(std::string("c16:") + sigGroup + ":message-not-parsed", dj + ",\"outcome\":" + vr::jstr(o.str() + " " + o.what) + "}");
        ctx.outcome(std::string(sigGroup) + ": message not parsed");
        return;
    }
    const H::Collection& hs = headers_of(p);
    bool ok = true;
    for (const std::string& a : ask)
    {
        std::string d2 = dj + ",\"asked\":" + vr::jstr(vr::show(a));
        auto raw       = hs.tryGetRaw(a);
        if (!raw.has_value())
            ctx.violation(std::string("c16:") + sigGroup + ":raw-not-found", d2 + "}"), ok = false;
        else if (raw->value() != first.value)
            ctx.violation(std::string("c16:") + sigGroup + ":raw-value-differs", d2 + ",\"expected\":" + vr::jstr(vr::show(first.value)) + ",\"observed\":" + vr::jstr(vr::show(raw->value())) + "}"), ok = false;
        else if (raw->name() != first.name)
            ctx.violation(std::string("c16:") + sigGroup + ":raw-name-differs", d2 + ",\"expected\":" + vr::jstr(vr::show(first.name)) + ",\"observed\":" + vr::jstr(vr::show(raw->name())) + "}"), ok = false;
        if (reg && reg->typed1[0] != '-')
        {
            auto t = hs.tryGet(a);
            if (!hs.has(a) || !t)
                ctx.violation(std::string("c16:") + sigGroup + ":typed-not-found", d2 + "}"), ok = false;
            else
            {
                std::string w, what;
                guard([&] { std::ostringstream os; t->write(os); w = os.str(); }, what);
                std::string expect = first.value == reg->v1 ? reg->typed1 : first.value == reg->v2 ? reg->typed2 : "";
                if (std::string(t->name()) != reg->name)
                    ctx.violation(std::string("c16:") + sigGroup + ":typed-is-another-header", d2 + ",\"observed\":" + vr::jstr(t->name()) + "}"), ok = false;
                else if (!expect.empty() && w != expect)
                    ctx.violation(std::string("c16:") + sigGroup + ":typed-value-differs", d2 + ",\"expected\":" + vr::jstr(expect) + ",\"observed\":" + vr::jstr(vr::show(w)) + "}"), ok = false;
                else if (!strcmp(reg->name, "Date"))
                {
                    auto dt     = std::static_pointer_cast<const H::Date>(t);
                    int64_t exp = first.value == reg->v1 ? 784111777 : 784166400;
                    if (desc_tp(dt->fullDate().date()) != desc_tp(tp_of(exp)))
                        ctx.violation(std::string("c16:") + sigGroup + ":typed-value-differs", d2 + ",\"expected\":" + vr::jstr(desc_tp(tp_of(exp))) + ",\"observed\":" + vr::jstr(desc_tp(dt->fullDate().date())) + "}"), ok = false;
                }
                else if (!strcmp(reg->name, "Accept"))
                {
                    auto ac = std::static_pointer_cast<const H::Accept>(t);
                    auto md = ac->media();
                    bool good = md.size() == 1 && (first.value == reg->v1 ? md[0].top() == Type::Text && md[0].sub() == Subtype::Html : md[0].top() == Type::Image && md[0].sub() == Subtype::Png);
                    if (!good)
                        ctx.violation(std::string("c16:") + sigGroup + ":typed-value-differs", d2 + ",\"observed\":\"Accept media range differs\"}"), ok = false;
                }
            }
        }
    }
    ctx.state(vr::hash_str(pc::canon_headers(hs), 11));
    ctx.outcome(std::string(sigGroup) + (ok ? ": found with value intact" : ": wrong"));
}

static std::string message_with(bool response, const std::vector<Sent>& lines, const std::string& tail, const char* sep = ": ")
{
    std::string m = response ? "HTTP/1.1 200 OK\r\n" : "POST /r HTTP/1.1\r\n";
    for (auto& l : lines)
        m += l.name + sep + l.value + "\r\n";
    return m + "\r\n" + tail;
}

static void lookup_both(const std::vector<Sent>& lines, const std::string& tail, const std::vector<std::string>& ask, const LkHeader* reg, const char* group, vr::Ctx& ctx, const char* sep = ": ")
{
    ctx.count("evaluations", 2);
    lookup_in<Http::RequestParser>(message_with(false, lines, tail, sep), ask, lines[0], reg, group, ctx);
    lookup_in<Http::ResponseParser>(message_with(true, lines, tail, sep), ask, lines[0], reg, group, ctx);
    ctx.poll_reports();
}

static std::vector<uint64_t> gLkFirst; // first LK index of each header
static uint64_t nLK;
static void caseLK(uint64_t i, vr::Ctx& ctx)
{
    size_t h = 0;
    while (h + 1 < gLkFirst.size() && gLkFirst[h + 1] <= i)
        ++h;
    const LkHeader& L = kLk[h];
    std::string cap   = cap_of(L.name, i - gLkFirst[h]);
    const LkHeader* reg = L.typed1[0] == '-' ? nullptr : &L;
    // sent under this capitalisation
    lookup_both({ { cap, L.v1 } }, L.tail, { L.name, pc::lower(L.name), upper(L.name), cap, inverse(cap) }, reg, "lookup", ctx);
    // sent under the canonical name, asked under this capitalisation
    lookup_both({ { L.name, L.v1 } }, L.tail, { cap }, reg, "lookup", ctx);
    if (cap != L.name)
        ctx.nontrivial(vr::hash_str(cap, 13));
}

// duplicates
static uint64_t nDU;
static void caseDU(uint64_t i, vr::Ctx& ctx)
{
    int f2 = int(i % 3);
    i /= 3;
    int f1 = int(i % 3);
    i /= 3;
    int three = int(i % 2);
    i /= 2;
    const LkHeader& L = kLk[i];
    auto form         = [&](int f) { return f == 0 ? std::string(L.name) : f == 1 ? pc::lower(L.name) : upper(L.name); };
    std::vector<Sent> lines = { { form(f1), L.v1 }, { form(f2), L.v2 } };
    if (three)
        lines.push_back({ form((f1 + 1) % 3), L.v1 });
    const LkHeader* reg = L.typed1[0] == '-' ? nullptr : &L;
    lookup_both(lines, L.tail, { L.name, pc::lower(L.name), upper(L.name) }, reg, "duplicates", ctx);
    // and the other way round: the second value first
    std::swap(lines[0].value, lines[1].value);
    lookup_both(lines, L.tail, { L.name, form(f2) }, reg, "duplicates", ctx);
    ctx.nontrivial(vr::hash_str(message_with(false, lines, L.tail), 15));
}

// unregistered names x value bytes
static const char* kUNames[] = { "X-a", "x", "X-Custom-Header-Name" };
static std::vector<std::string> gUVals;
static void init_UV()
{
    std::vector<unsigned char> bytes;
    for (int b = 1; b < 256; ++b)
        if (b != '\r' && b != '\n')
            bytes.push_back((unsigned char)b);
    for (unsigned char b : bytes)
        gUVals.push_back(std::string(1, char(b)));
    for (char other : { 'v', ' ', ':' })
        for (unsigned char b : bytes)
        {
            gUVals.push_back(std::string(1, char(b)) + other);
            gUVals.push_back(std::string(1, other) + char(b));
        }
    for (unsigned char b : bytes)
    {
        gUVals.push_back(std::string(1, char(b)) + "ab");
        gUVals.push_back(std::string("a") + char(b) + "b");
        gUVals.push_back(std::string("ab") + char(b));
    }
    gUVals.push_back("");
}
static uint64_t nUV;
static void caseUV(uint64_t i, vr::Ctx& ctx)
{
    std::string name = kUNames[i % 3];
    i /= 3;
    int sep = int(i % 2); // ": " or ":" (no space)
    i /= 2;
    const std::string& sentValue = gUVals[i];
    // leading spaces are skipped by the reader as separator
    size_t s           = sentValue.find_first_not_of(' ');
    std::string expect = s == std::string::npos ? "" : sentValue.substr(s);
    // the sent line carries sentValue; what must be found is 'expect'
    ctx.count("evaluations", 2);
    for (int rsp = 0; rsp < 2; ++rsp)
    {
        std::string msg = message_with(rsp, { { name, sentValue } }, "", sep ? ":" : ": ");
        Sent first { name, expect };
        if (rsp)
            lookup_in<Http::ResponseParser>(msg, { name, upper(name), pc::lower(name) }, first, nullptr, "unregistered-value-bytes", ctx);
        else
            lookup_in<Http::RequestParser>(msg, { name, upper(name), pc::lower(name) }, first, nullptr, "unregistered-value-bytes", ctx);
    }
    ctx.poll_reports();
    ctx.nontrivial(vr::hash_str(name + ":" + sentValue, 17));
}

// unregistered names x name bytes
static const char kTchar[] = "!#$%&'*+-.^_`|~0123456789ABCDEFGHIJKLMNOPQRSTUVWXYZabcdefghijklmnopqrstuvwxyz";
static const uint64_t nUN  = 3 * (sizeof kTchar - 1);
static void caseUN(uint64_t i, vr::Ctx& ctx)
{
    std::string name = "Xqz";
    name[i % 3]      = kTchar[i / 3];
    for (auto& r : kLk)
        if (strcasecmp(r.name, name.c_str()) == 0)
            return;
    lookup_both({ { name, "v" } }, "", { name, upper(name), pc::lower(name), inverse(name) }, nullptr, "unregistered-name-bytes", ctx);
    ctx.nontrivial(vr::hash_str(name, 19));
}

// ---- layout -------------------------------------------------------------------------------------------------
struct Sec
{
    const char* name;
    uint64_t n;
    void (*fn)(uint64_t, vr::Ctx&);
    uint64_t block;
    uint64_t firstCase, ncases;
};
static std::vector<Sec> gSecs;

int main(int argc, char** argv)
{
    vr::Options opt = vr::parse_args(argc, argv);
    gThorough       = opt.geti("thorough", 0) != 0;
    if (gThorough && opt.tab_log2 == 22)
        opt.tab_log2 = 26;
    if (gThorough)
        gCCLen = 4, gCredLen = 3, gFlips = 3;
    {
        std::vector<int64_t> deltas = { 0, 1, 59, 2147483647LL };
        if (gThorough)
        {
            deltas.push_back(2147483648LL);
            deltas.push_back(4294967297LL);
            deltas.push_back(INT64_MAX);
        }
        for (int d = 0; d < 12; ++d)
            if (!kDirs[d].timed)
                gElems.push_back({ d, 0 });
            else
                for (int64_t dl : deltas)
                    gElems.push_back({ d, dl });
        for (size_t k = 0; k < gElems.size(); ++k)
            gElemIds.push_back((int)k);
        nCC = gb::count_upto(gElems.size(), gCCLen);
    }
    init_CL();
    init_CT();
    nUsers   = gb::count_upto(sizeof kCred, gCredLen);
    nPass    = gb::count_upto(sizeof kCredP, gCredLen);
    nAUbasic = nUsers * nPass;
    if (gThorough)
    {
        // month starts of a leap year, century non-leap-year borders, the day before the epoch, and the first
        // and last whole days a nanosecond time_point can hold
        for (int m = 1; m <= 12; ++m)
            kDays.push_back(days_from_civil(2024, m, 1));
        const int extra[][3] = { { 1900, 2, 28 }, { 1900, 3, 1 }, { 2100, 2, 28 }, { 2100, 3, 1 }, { 1999, 12, 31 }, { 2000, 1, 1 }, { 2000, 3, 1 }, { 1969, 12, 31 }, { 1700, 1, 1 }, { 1677, 9, 23 }, { 2262, 4, 10 } };
        for (auto& e : extra)
            kDays.push_back(days_from_civil(e[0], e[1], e[2]));
    }
    nDTsec   = kDays.size() * 86400;
    nDT      = nDTsec + kCycleDays;
    {
        uint64_t at = 0;
        for (int h = 0; h < kNLk; ++h)
        {
            gLkFirst.push_back(at);
            at += ncaps(kLk[h].name);
        }
        nLK = at;
    }
    nDU = (uint64_t)kNLk * 2 * 3 * 3;
    init_UV();
    nUV = gUVals.size() * 2 * 3;
    gSecs = {
        { "CC", nCC, caseCC, 256 }, { "SM", nSM, caseSM, 32 }, { "CL", gLens.size(), caseCL, 512 }, { "CT", nCT, caseCT, 256 },
        { "AU", nAUbasic + kNOtherAuth, caseAU, 256 }, { "DT", nDT, caseDT, 512 }, { "HO", nHO, caseHO, 64 }, { "TX", nTX, caseTX, 64 },
        { "LK", nLK, caseLK, 128 }, { "DU", nDU, caseDU, 64 }, { "UV", nUV, caseUV, 128 }, { "UN", nUN, caseUN, 64 },
    };
    uint64_t at = 0;
    for (auto& s : gSecs)
    {
        s.firstCase = at;
        s.ncases    = (s.n + s.block - 1) / s.block;
        at += s.ncases;
    }
    return vr::run(opt, at, [](uint64_t idx, vr::Ctx& ctx) {
        ctx.count("executions", 1);
        for (auto& s : gSecs)
            if (idx < s.firstCase + s.ncases)
            {
                uint64_t blk = idx - s.firstCase;
                for (uint64_t k = blk * s.block; k < (blk + 1) * s.block && k < s.n; ++k)
                    s.fn(k, ctx);
                break;
            }
        if (idx % 53 == 0)
            ctx.sample("{\"case\":" + std::to_string(idx) + ",\"last_input\":" + vr::jstr(ctx.shm->slots[ctx.worker].note) + "}");
    });
}
