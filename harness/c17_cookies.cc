// C17: cookies survive write/parse and a Cookie header yields exactly its pairs.
//
// Bounded-exhaustive enumeration against the real Http::Cookie / Http::CookieJar (Cookie::fromRaw,
// operator<<, CookieJar::addFromRaw, begin()/end(), get(), has()) and - for the Cookie header - the real
// Http::RequestParser, under ASan + UBSan. No sampling; fixed products cut into blocks of kBlock inputs.
//
//   W  written cookies : Cookie object -> operator<< -> Cookie::fromRaw -> field-by-field equality -> written
//                        again, identical text. Product: all 2^6 subsets of {Path, Domain, Max-Age, Expires,
//                        Secure, HttpOnly} x Max-Age {0, 1, 2^31-1} x Expires (6 dates) x 14 extension lists
//                        (0-2 extension attributes, incl. names that start with a known attribute name) x 3
//                        name/value pairs; plus every name x value sample (cookie-octets, empty value, '='
//                        inside the value, a cookie named like an attribute) with 4 attribute sets; plus
//                        Expires at every second of one hour (thorough: of one day).
//   H  hand-ordered    : every permutation of <= 4 of the 7 attributes (6 known + 1 extension) x {"; ", ";"}
//                        x {canonical, lower, UPPER} attribute-name case, parsed with Cookie::fromRaw.
//   J  Cookie header   : every sequence of n <= 4 pairs over 3 names x 4 values (repeated names, repeated
//                        pairs, empty value, '=' in value) x {"; ", ";"}: CookieJar::addFromRaw on the value
//                        and the same header through the request parser; the jar must hold exactly the
//                        distinct listed pairs; pre-increment and post-increment iteration must each visit
//                        every stored cookie exactly once; has()/get() must agree.
//   M  mutated strings : 16 valid prefixes x every suffix over the C03 alphabet {A 0 f - SP : ; = CR LF NUL
//                        0xff} up to length Ls through Cookie::fromRaw and CookieJar::addFromRaw: accepted or
//                        rejected with a std::exception, never another exception type / crash / sanitizer
//                        report; what was accepted must be writable and iterable.
//
// Every (pointer, length) call gets an exact-size heap buffer without terminating NUL (over-read = ASan
// report). Expected values are the generator's own; nothing is derived from pistache's output.
//
// "Nontrivial" rule: an input is nontrivial unless it is a bare "name=value" with a non-empty alphanumeric
// value and no attributes (W/H), a single such pair (J); every mutated string (M) is nontrivial.
//
// Not flagged (judgement calls, see report): a Cookie header repeating the *same* pair yields one stored
// cookie (the jar is a set of (name, value)); leniency on mutated strings (e.g. "a=b;" adds an extension
// attribute with an empty name).
#include <pistache/cookie.h>
#include <pistache/http.h>

#include <algorithm>
#include <map>
#include <set>
#include <sstream>
#include <string>
#include <vector>

#include "common/garbage.h"
#include "common/parser_common.h"
#include "common/runner.h"

using namespace Pistache;
using Http::Cookie;
using Http::CookieJar;
using Http::FullDate;

static const uint64_t kBlock = 128;
static bool gThorough        = false;
static int Ls                = 4;

// ---- generator-side model of a cookie ----------------------------------------------------------------
struct Model
{
    std::string name, value;
    bool hasPath = false, hasDomain = false, hasMaxAge = false, hasExpires = false, secure = false, httpOnly = false;
    std::string path, domain;
    int maxAge      = 0;
    int64_t expires = 0; // seconds since the epoch
    std::map<std::string, std::string> ext;
    std::string canon() const
    {
        std::string o = "name=" + vr::show(name) + " value=" + vr::show(value);
        o += " path=" + (hasPath ? "[" + vr::show(path) + "]" : std::string("-"));
        o += " domain=" + (hasDomain ? "[" + vr::show(domain) + "]" : std::string("-"));
        o += " maxAge=" + (hasMaxAge ? std::to_string(maxAge) : std::string("-"));
        o += " expires=" + (hasExpires ? std::to_string(expires) + "s" : std::string("-"));
        o += std::string(" secure=") + (secure ? "1" : "0") + " httpOnly=" + (httpOnly ? "1" : "0") + " ext={";
        for (auto& kv : ext)
            o += "[" + vr::show(kv.first) + "]=[" + vr::show(kv.second) + "],";
        return o + "}";
    }
};

static FullDate::time_point tp_of(int64_t secs)
{
    return FullDate::time_point(std::chrono::duration_cast<FullDate::time_point::duration>(std::chrono::seconds(secs)));
}

static Model model_of(const Cookie& c)
{
    Model m;
    m.name  = c.name;
    m.value = c.value;
    if (c.path.has_value())
        m.hasPath = true, m.path = *c.path;
    if (c.domain.has_value())
        m.hasDomain = true, m.domain = *c.domain;
    if (c.maxAge.has_value())
        m.hasMaxAge = true, m.maxAge = *c.maxAge;
    if (c.expires.has_value())
    {
        m.hasExpires = true;
        auto d       = c.expires->date().time_since_epoch();
        auto s       = std::chrono::duration_cast<std::chrono::seconds>(d);
        m.expires    = s.count();
        if (std::chrono::duration_cast<FullDate::time_point::duration>(s) != d)
            m.ext["<sub-second part of Expires>"] = std::to_string((d - s).count());
    }
    m.secure   = c.secure;
    m.httpOnly = c.httpOnly;
    m.ext      = std::map<std::string, std::string>(c.ext.begin(), c.ext.end());
    return m;
}

static Cookie cookie_of(const Model& m)
{
    Cookie c(m.name, m.value);
    if (m.hasPath)
        c.path = m.path;
    if (m.hasDomain)
        c.domain = m.domain;
    if (m.hasMaxAge)
        c.maxAge = m.maxAge;
    if (m.hasExpires)
        c.expires = FullDate(tp_of(m.expires));
    c.secure   = m.secure;
    c.httpOnly = m.httpOnly;
    for (auto& kv : m.ext)
        c.ext.insert(kv);
    return c;
}

struct Exact
{
    char* p;
    size_t n;
    explicit Exact(const std::string& s)
        : p(new char[s.size()])
        , n(s.size())
    {
        memcpy(p, s.data(), n);
    }
    ~Exact() { delete[] p; }
    Exact(const Exact&) = delete;
};

struct Parsed
{
    int kind = 0; // 0 ok, 1 std::exception, 2 other
    std::string extype, what;
    Model m;
    std::string cls() const { return kind == 0 ? "accepted" : kind == 1 ? "rejected:" + extype : "rejected:non-std exception"; }
};

template <typename F>
static int guard(F&& f, std::string& extype, std::string& what)
{
    try
    {
        f();
        return 0;
    }
    catch (const std::invalid_argument& e)
    {
        extype = "std::invalid_argument";
        what   = e.what();
        return 1;
    }
    catch (const std::runtime_error& e)
    {
        extype = "std::runtime_error";
        what   = e.what();
        return 1;
    }
    catch (const std::exception& e)
    {
        extype = "std::exception";
        what   = e.what();
        return 1;
    }
    catch (...)
    {
        return 2;
    }
}

static Parsed parse_cookie(const std::string& text, std::string* rewritten = nullptr)
{
    Parsed r;
    Exact b(text);
    r.kind = guard([&] {
        Cookie c = Cookie::fromRaw(b.p, b.n);
        r.m      = model_of(c);
        if (rewritten)
        {
            std::ostringstream os;
            os << c;
            *rewritten = os.str();
        }
    },
                   r.extype, r.what);
    return r;
}

static const char* kAttrNames[] = { "Path", "Domain", "Max-Age", "Expires", "Secure", "HttpOnly" };
static bool attr_prefixed(const std::string& n)
{
    for (const char* a : kAttrNames)
        if (n.size() > strlen(a) && strncasecmp(n.c_str(), a, strlen(a)) == 0)
            return true;
    return false;
}

// which field differs first (stable, input-free)
static std::string first_difference(const Model& want, const Model& got)
{
    if (want.name != got.name)
        return "name";
    if (want.value != got.value)
        return "value";
    if (want.hasPath != got.hasPath || want.path != got.path)
        return "path";
    if (want.hasDomain != got.hasDomain || want.domain != got.domain)
        return "domain";
    if (want.hasMaxAge != got.hasMaxAge || want.maxAge != got.maxAge)
        return "max-age";
    if (want.hasExpires != got.hasExpires || want.expires != got.expires)
        return "expires";
    if (want.secure != got.secure)
        return "secure";
    if (want.httpOnly != got.httpOnly)
        return "httponly";
    if (want.ext != got.ext)
        return "extension-attributes";
    return "";
}

// ---- tables -----------------------------------------------------------------------------------------------
static const char* kNames[]  = { "a", "SID", "x-1_2.3", "Path", "__Host-id", "Securex" };
static const char* kValues[] = { "1", "", "abc", "x=y", "k=v=w=", "!#$%&'()*+-./:<=>?@[]^_`{|}~", "Zm9v" };
static const int kNNames     = sizeof kNames / sizeof kNames[0];
static const int kNValues    = sizeof kValues / sizeof kValues[0];
static const int kMaxAges[]  = { 0, 1, 2147483647 };
// 1970-01-01 00:00:00, 1994-11-06 08:49:37, 2000-02-29 23:59:59, 2038-01-19 03:14:08, 1700-03-01 00:00:00, 2099-12-31 23:59:59
static const int64_t kDates[] = { 0, 784111777, 951868799, 2147483648LL, -8515238400LL, 4102444799LL };
static const int kNDates      = 6;

struct ExtList
{
    std::vector<std::pair<const char*, const char*>> kv;
};
static const ExtList kExts[] = {
    { {} },
    { { { "e1", "v1" } } },
    { { { "e1", "" } } },
    { { { "SameSite", "Lax" } } },
    { { { "e1", "v1" }, { "e2", "v2" } } },
    { { { "SameSite", "Strict" }, { "Priority", "High" } } },
    { { { "e1", "" }, { "e2", "" } } },
    { { { "Pathx", "1" } } },
    { { { "Domainx", "1" } } },
    { { { "Max-Age-x", "1" } } },
    { { { "Expiresx", "1" } } },
    { { { "Securex", "1" } } },
    { { { "HttpOnlyx", "1" } } },
    { { { "e1", "v1" }, { "Pathology", "none" } } },
};
static const int kNExts = sizeof kExts / sizeof kExts[0];

static const int kNvW[][2] = { { 0, 0 }, { 1, 3 }, { 2, 1 } }; // name/value index pairs used in the big product

// ---- section W --------------------------------------------------------------------------------------------
struct WSpec
{
    int subset, ma, dt, ext, nv;
};
static std::vector<WSpec> gW;     // the product
static uint64_t nWprod, nWnv, nWsec, nW;
static int64_t gSecBase;

static void init_W()
{
    for (int nv = 0; nv < 3; ++nv)
        for (int ext = 0; ext < kNExts; ++ext)
            for (int subset = 0; subset < 64; ++subset)
                for (int ma = 0; ma < ((subset & 4) ? 3 : 1); ++ma)
                    for (int dt = 0; dt < ((subset & 8) ? kNDates : 1); ++dt)
                        gW.push_back({ subset, ma, dt, ext, nv });
    nWprod   = gW.size();
    nWnv     = (uint64_t)kNNames * kNValues * 4;
    nWsec    = gThorough ? 86400 : 3600;
    gSecBase = gThorough ? 951782400LL /* 2000-02-29 00:00:00 */ : 946681200LL - 3600 * 0 /* 1999-12-31 23:00:00 */;
    nW       = nWprod + nWnv + nWsec;
}

static void apply_subset(Model& m, int subset, int ma, int dt)
{
    if (subset & 1)
        m.hasPath = true, m.path = (subset & 32) ? "/a/b" : "/";
    if (subset & 2)
        m.hasDomain = true, m.domain = (subset & 16) ? ".example.com" : "example.com";
    if (subset & 4)
        m.hasMaxAge = true, m.maxAge = kMaxAges[ma];
    if (subset & 8)
        m.hasExpires = true, m.expires = kDates[dt];
    if (subset & 16)
        m.secure = true;
    if (subset & 32)
        m.httpOnly = true;
}

static void roundtrip(const Model& want, vr::Ctx& ctx, bool trivial)
{
    std::string text, extype, what;
    ctx.note("written cookie " + want.canon());
    int k = guard([&] {
        Cookie c = cookie_of(want);
        std::ostringstream os;
        os << c;
        text = os.str();
    },
                  extype, what);
    ctx.count("evaluations", 1);
    ctx.count("transitions", 3);
    if (k)
    {
        ctx.violation("c17:write-threw", "{\"cookie\":" + vr::jstr(want.canon()) + ",\"error\":" + vr::jstr(what) + "}");
        return;
    }
    ctx.note("written cookie text=" + vr::show(text));
    std::string again;
    Parsed got = parse_cookie(text, &again);
    ctx.state(vr::hash_str(got.kind ? got.cls() : got.m.canon(), 3));
    if (!trivial)
        ctx.nontrivial(vr::hash_str(text, 5));
    bool prefixed = false;
    for (auto& kv : want.ext)
        prefixed |= attr_prefixed(kv.first);
    std::string diff = got.kind ? "rejected" : first_difference(want, got.m);
    std::string dj   = "{\"cookie\":" + vr::jstr(want.canon()) + ",\"written\":" + vr::jstr(vr::show(text)) + ",\"read_back\":" + vr::jstr(got.kind ? got.cls() + " " + got.what : got.m.canon()) + "}";
    if (!diff.empty())
    {
        std::string sig = "c17:roundtrip:" + diff;
        if (prefixed)
            sig = "c17:roundtrip:extension-name-starting-with-attribute-name";
        else if (want.ext.size() >= 2 && (diff == "extension-attributes"))
            sig = "c17:roundtrip:second-extension-attribute";
        ctx.violation(sig, dj);
        ctx.outcome("written cookie: round trip broken (" + std::string(got.kind ? got.cls() : "field " + diff) + ")");
    }
    else
    {
        if (again != text)
            ctx.violation("c17:rewrite-differs", "{\"first\":" + vr::jstr(vr::show(text)) + ",\"second\":" + vr::jstr(vr::show(again)) + "}");
        ctx.outcome("written cookie: round trip ok");
    }
    ctx.poll_reports();
}

static void caseW(uint64_t i, vr::Ctx& ctx)
{
    Model m;
    bool trivial = false;
    if (i < nWprod)
    {
        const WSpec& w = gW[i];
        m.name         = kNames[kNvW[w.nv][0]];
        m.value        = kValues[kNvW[w.nv][1]];
        apply_subset(m, w.subset, w.ma, w.dt);
        for (auto& kv : kExts[w.ext].kv)
            m.ext[kv.first] = kv.second;
        trivial = w.subset == 0 && w.ext == 0 && w.nv == 0;
    }
    else if (i < nWprod + nWnv)
    {
        uint64_t x = i - nWprod;
        int as     = int(x % 4);
        x /= 4;
        m.value = kValues[x % kNValues];
        m.name  = kNames[x / kNValues];
        static const int sets[] = { 0, 1, 16 | 32, 63 };
        apply_subset(m, sets[as], 1, 1);
        if (as == 3)
            m.ext["e1"] = "v1";
    }
    else
    {
        m.name       = "t";
        m.value      = "1";
        m.hasExpires = true;
        m.expires    = gSecBase + int64_t(i - nWprod - nWnv);
        m.secure     = true; // something after the date
    }
    roundtrip(m, ctx, trivial);
}

// ---- section H ---------------------------------------------------------------------------------------------
static std::vector<std::vector<int>> gPerms;
static uint64_t nH;
static void init_H()
{
    std::vector<int> cur;
    std::function<void()> rec = [&] {
        gPerms.push_back(cur);
        if (cur.size() == 4)
            return;
        for (int a = 0; a < 7; ++a)
            if (std::find(cur.begin(), cur.end(), a) == cur.end())
            {
                cur.push_back(a);
                rec();
                cur.pop_back();
            }
    };
    rec();
    nH = gPerms.size() * 2 * 3;
}

static std::string recase(const std::string& s, int mode)
{
    std::string o = s;
    for (auto& c : o)
        c = mode == 1 ? char(tolower((unsigned char)c)) : mode == 2 ? char(toupper((unsigned char)c)) : c;
    return o;
}

static void caseH(uint64_t i, vr::Ctx& ctx)
{
    int cm = int(i % 3);
    i /= 3;
    bool space = i % 2 == 0;
    i /= 2;
    const std::vector<int>& perm = gPerms[i];
    Model want;
    want.name        = "sid";
    want.value       = "abc";
    std::string text = "sid=abc";
    bool extNotLast = false;
    for (size_t k = 0; k < perm.size(); ++k)
    {
        text += space ? "; " : ";";
        switch (perm[k])
        {
        case 0:
            text += recase("Path", cm) + "=/x";
            want.hasPath = true, want.path = "/x";
            break;
        case 1:
            text += recase("Domain", cm) + "=example.com";
            want.hasDomain = true, want.domain = "example.com";
            break;
        case 2:
            text += recase("Max-Age", cm) + "=3600";
            want.hasMaxAge = true, want.maxAge = 3600;
            break;
        case 3:
            text += recase("Expires", cm) + "=Sun, 06 Nov 1994 08:49:37 GMT";
            want.hasExpires = true, want.expires = 784111777;
            break;
        case 4:
            text += recase("Secure", cm);
            want.secure = true;
            break;
        case 5:
            text += recase("HttpOnly", cm);
            want.httpOnly = true;
            break;
        case 6:
            text += "SameSite=Lax";
            want.ext["SameSite"] = "Lax";
            if (k + 1 < perm.size())
                extNotLast = true;
            break;
        }
    }
    ctx.note("hand-ordered text=" + vr::show(text));
    Parsed got = parse_cookie(text);
    ctx.count("evaluations", 1);
    ctx.count("transitions", 1);
    ctx.state(vr::hash_str(got.kind ? got.cls() : got.m.canon(), 7));
    if (!perm.empty())
        ctx.nontrivial(vr::hash_str(text, 9));
    std::string diff = got.kind ? "rejected" : first_difference(want, got.m);
    if (!diff.empty())
    {
        std::string sig = extNotLast ? std::string("c17:hand-ordered:attribute-after-extension-attribute") : "c17:hand-ordered:" + diff;
        ctx.violation(sig, "{\"input\":" + vr::jstr(vr::show(text)) + ",\"expected\":" + vr::jstr(want.canon()) + ",\"observed\":" + vr::jstr(got.kind ? got.cls() + " " + got.what : got.m.canon()) + "}");
        ctx.outcome("hand-ordered: wrong (" + std::string(got.kind ? got.cls() : "field " + diff) + ")");
    }
    else
        ctx.outcome("hand-ordered: as expected");
    ctx.poll_reports();
}

// ---- section J ---------------------------------------------------------------------------------------------
static const char* kJNames[]  = { "a", "b", "sid" };
static const char* kJValues[] = { "1", "", "x=y", "2" };
static uint64_t nJ;

using PairSet = std::set<std::pair<std::string, std::string>>;

static void check_jar(const CookieJar& jar, const PairSet& want, const std::string& text, const char* how, vr::Ctx& ctx)
{
    std::string base = std::string("{\"cookie_header\":") + vr::jstr(vr::show(text)) + ",\"via\":" + vr::jstr(how);
    auto render      = [](const std::vector<std::pair<std::string, std::string>>& v) {
        std::string o;
        for (auto& p : v)
            o += p.first + "=" + p.second + " | ";
        return o;
    };
    std::vector<std::pair<std::string, std::string>> wantv(want.begin(), want.end());
    // stored content, straight from the container
    std::vector<std::pair<std::string, std::string>> stored;
    for (const auto& byName : jar.cookies)
        for (const auto& byVal : byName.second)
            stored.emplace_back(byVal.second.name, byVal.second.value);
    std::sort(stored.begin(), stored.end());
    bool contentOk = stored == wantv;
    if (!contentOk)
        ctx.violation("c17:jar:pairs-differ", base + ",\"expected\":" + vr::jstr(render(wantv)) + ",\"stored\":" + vr::jstr(render(stored)) + "}");
    // pre-increment walk (bounded: a broken iterator must not spin)
    std::vector<std::pair<std::string, std::string>> pre, post;
    size_t bound = stored.size() + 2;
    {
        size_t steps = 0;
        for (auto it = jar.begin(); it != jar.end() && steps < bound; ++it, ++steps)
            pre.emplace_back(it->name, it->value);
    }
    {
        size_t steps = 0;
        auto it      = jar.begin();
        while (it != jar.end() && steps < bound)
        {
            Cookie c = *it++;
            post.emplace_back(c.name, c.value);
            ++steps;
        }
    }
    std::sort(pre.begin(), pre.end());
    std::sort(post.begin(), post.end());
    if (pre != stored)
        ctx.violation("c17:jar:iteration:pre-increment", base + ",\"stored\":" + vr::jstr(render(stored)) + ",\"visited\":" + vr::jstr(render(pre)) + "}");
    if (post != stored)
        ctx.violation("c17:jar:iteration:post-increment", base + ",\"stored\":" + vr::jstr(render(stored)) + ",\"visited\":" + vr::jstr(render(post)) + "}");
    // has / get
    bool lookupOk = true;
    std::string why;
    for (const char* n : kJNames)
    {
        bool expect = false;
        std::set<std::string> vals;
        for (auto& p : want)
            if (p.first == n)
                expect = true, vals.insert(p.second);
        if (jar.has(n) != expect)
            lookupOk = false, why = std::string("has(") + n + ")";
        std::string et, ew;
        bool got = false;
        Model gm;
        int k = guard([&] { Cookie c = jar.get(n); got = true; gm = model_of(c); }, et, ew);
        if (expect && (!got || gm.name != n || !vals.count(gm.value)))
            lookupOk = false, why = std::string("get(") + n + ")";
        if (!expect && (k != 1 || got))
            lookupOk = false, why = std::string("get(") + n + ") on a missing name";
    }
    if (!lookupOk && contentOk)
        ctx.violation("c17:jar:has-get", base + ",\"what\":" + vr::jstr(why) + "}");
    ctx.count("transitions", 4 + 2 * stored.size() + 6);
    ctx.state(vr::hash_str(render(stored), 11));
    ctx.outcome(std::string("cookie header: jar ") + (contentOk ? "holds exactly the pairs" : "differs") + ", pre-increment walk " + (pre == stored ? "ok" : "wrong") + ", post-increment walk " + (post == stored ? "ok" : "wrong"));
}

static void caseJ(uint64_t i, vr::Ctx& ctx)
{
    bool space = i % 2 == 0;
    i /= 2;
    static const int ids[12] = { 0, 1, 2, 3, 4, 5, 6, 7, 8, 9, 10, 11 };
    auto seq = gb::nth<int>(i, ids, 12, 4);
    std::string text;
    PairSet want;
    for (size_t k = 0; k < seq.size(); ++k)
    {
        std::string n = kJNames[seq[k] / 4], v = kJValues[seq[k] % 4];
        text += (k ? (space ? "; " : ";") : "") + n + "=" + v;
        want.insert({ n, v });
    }
    ctx.note("cookie header value=" + vr::show(text));
    ctx.count("evaluations", 1);
    if (!(seq.size() == 1 && seq[0] % 4 == 0))
        ctx.nontrivial(vr::hash_str(text, 13));
    {
        CookieJar jar;
        Exact b(text);
        std::string et, ew;
        int k = guard([&] { jar.addFromRaw(b.p, b.n); }, et, ew);
        if (k)
            ctx.violation("c17:jar:valid-header-rejected", "{\"cookie_header\":" + vr::jstr(vr::show(text)) + ",\"error\":" + vr::jstr(ew) + "}");
        else
            check_jar(jar, want, text, "CookieJar::addFromRaw", ctx);
    }
    if (!seq.empty())
    {
        std::string msg = "GET / HTTP/1.1\r\nCookie: " + text + "\r\n\r\n";
        Http::RequestParser p(4096);
        pc::Outcome o = pc::step(p, msg.data(), msg.size());
        if (o.kind != pc::DONE)
            ctx.violation("c17:jar:valid-header-rejected", "{\"cookie_header\":" + vr::jstr(vr::show(text)) + ",\"via\":\"request parser\",\"outcome\":" + vr::jstr(o.str() + " " + o.what) + "}");
        else
            check_jar(p.request.cookies(), want, text, "request parser", ctx);
    }
    ctx.poll_reports();
}

// ---- section J2 (round 6): every token character in a cookie name of a Cookie header --------------------------------
// cookie-name = token (RFC 6265 4.1.1 / RFC 7230 3.2.6): ALPHA / DIGIT / ! # $ % & ' * + - . ^ _ ` | ~ ; the pair in the middle of
// three must be stored whatever token character its name starts with, ends with or consists of
static std::string gTchars;
static uint64_t nJ2;
static void caseJ2(uint64_t i, vr::Ctx& ctx)
{
    bool space = i % 2 == 0;
    int shape  = int(i / 2 % 4);
    char c     = gTchars[i / 8];
    std::string n = shape == 0 ? std::string(1, c) : shape == 1 ? std::string(1, c) + "x" : shape == 2 ? std::string("x") + c : std::string("x") + c + "y";
    std::string sep = space ? "; " : ";";
    for (int pos = 0; pos < 3; ++pos)
    {
        std::vector<std::pair<std::string, std::string>> pairs = { { "first", "1" }, { "last", "2" } };
        pairs.insert(pairs.begin() + pos, { n, "v" });
        std::string text;
        PairSet want;
        for (size_t k = 0; k < pairs.size(); ++k)
        {
            text += (k ? sep : "") + pairs[k].first + "=" + pairs[k].second;
            want.insert(pairs[k]);
        }
        ctx.note("cookie header value=" + vr::show(text));
        ctx.count("evaluations", 1);
        ctx.nontrivial(vr::hash_str(text, 13));
        CookieJar jar;
        Exact b(text);
        std::string et, ew;
        int k = guard([&] { jar.addFromRaw(b.p, b.n); }, et, ew);
        if (k)
            ctx.violation("c17:jar:valid-header-rejected", "{\"cookie_header\":" + vr::jstr(vr::show(text)) + ",\"error\":" + vr::jstr(ew) + "}");
        else
            check_jar(jar, want, text, "CookieJar::addFromRaw", ctx);
        std::string msg = "GET / HTTP/1.1\r\nCookie: " + text + "\r\n\r\n";
        Http::RequestParser p(4096);
        pc::Outcome o = pc::step(p, msg.data(), msg.size());
        if (o.kind != pc::DONE)
            ctx.violation("c17:jar:valid-header-rejected", "{\"cookie_header\":" + vr::jstr(vr::show(text)) + ",\"via\":\"request parser\",\"outcome\":" + vr::jstr(o.str() + " " + o.what) + "}");
        else
            check_jar(p.request.cookies(), want, text, "request parser", ctx);
    }
    ctx.poll_reports();
}

// ---- section M ---------------------------------------------------------------------------------------------
static const char* kMPrefix[] = { "", "a", "a=", "a=b", "a=b;", "a=b; ", "a=b; Path", "a=b; Path=", "a=b; Max-Age=", "a=b; Max-Age=1", "a=b; Expires=",
                                  "a=b; Expires=Sun, 06 Nov 1994 08:49:37 GMT", "a=b; Secure", "a=b; e1", "a=b; e1=", "a=b; e1=v; " };
static const int kNMPrefix    = sizeof kMPrefix / sizeof kMPrefix[0];
static uint64_t nMsuf, bMper, nMblocks;

static void mutated(const std::string& text, vr::Ctx& ctx)
{
    ctx.note("mutated text=" + vr::show(text));
    ctx.count("evaluations", 1);
    ctx.count("transitions", 2);
    ctx.nontrivial(vr::hash_str(text, 15));
    std::string again;
    Parsed got = parse_cookie(text, &again);
    if (got.kind == 2)
        ctx.violation("c17:malformed:non-std-exception:Cookie::fromRaw", "{\"input\":" + vr::jstr(vr::show(text)) + "}");
    ctx.outcome("mutated: cookie " + got.cls());
    uint64_t h = vr::hash_str(got.kind ? got.cls() : got.m.canon(), 17);
    {
        CookieJar jar;
        Exact b(text);
        std::string et, ew;
        size_t visited = 0, stored = 0;
        int k = guard([&] { jar.addFromRaw(b.p, b.n); }, et, ew);
        // whatever was added before a rejection must still be a walkable jar
        for (const auto& byName : jar.cookies)
            stored += byName.second.size();
        for (auto it = jar.begin(); it != jar.end() && visited < stored + 2; ++it)
            ++visited;
        if (k == 2)
            ctx.violation("c17:malformed:non-std-exception:CookieJar::addFromRaw", "{\"input\":" + vr::jstr(vr::show(text)) + "}");
        if (visited != stored)
            ctx.violation("c17:jar:iteration:pre-increment", "{\"cookie_header\":" + vr::jstr(vr::show(text)) + ",\"stored\":" + std::to_string(stored) + ",\"visited\":" + std::to_string(visited) + "}");
        ctx.outcome(std::string("mutated: jar ") + (k == 0 ? "accepted" : k == 1 ? "rejected:" + et : "rejected:non-std exception"));
        h = vr::hash_bytes(&stored, sizeof stored, h + k);
    }
    ctx.state(h);
    ctx.poll_reports();
}

static void caseM(uint64_t blk, vr::Ctx& ctx)
{
    int p      = int(blk / bMper);
    uint64_t b = blk % bMper;
    for (uint64_t s = b * kBlock; s < (b + 1) * kBlock && s < nMsuf; ++s)
    {
        auto v = gb::nth<char>(s, gb::kSigma, gb::kNSigma, Ls);
        mutated(std::string(kMPrefix[p]) + std::string(v.begin(), v.end()), ctx);
    }
}

static uint64_t bW, bH, bJ;
int main(int argc, char** argv)
{
    vr::Options opt = vr::parse_args(argc, argv);
    gThorough       = opt.geti("thorough", 0) != 0;
    Ls              = (int)opt.geti("Ls", gThorough ? 6 : 4);
    if (gThorough && opt.tab_log2 == 22)
        opt.tab_log2 = 27;
    init_W();
    init_H();
    nJ       = 2 * gb::count_upto(12, 4);
    for (int ch = 33; ch < 127; ++ch)
        if (isalnum(ch) || strchr("!#$%&'*+-.^_`|~", ch))
            gTchars += char(ch);
    nJ2 = gTchars.size() * 8;
    nMsuf    = gb::count_upto(gb::kNSigma, Ls);
    bMper    = (nMsuf + kBlock - 1) / kBlock;
    nMblocks = bMper * kNMPrefix;
    bW       = (nW + kBlock - 1) / kBlock;
    bH       = (nH + kBlock - 1) / kBlock;
    bJ       = (nJ + kBlock - 1) / kBlock;
    return vr::run(opt, bW + bH + bJ + nMblocks, [](uint64_t idx, vr::Ctx& ctx) {
        ctx.count("executions", 1);
        auto block = [&](uint64_t blk, uint64_t n, void (*fn)(uint64_t, vr::Ctx&)) {
            for (uint64_t s = blk * kBlock; s < (blk + 1) * kBlock && s < n; ++s)
                fn(s, ctx);
        };
        if (idx < bW)
            block(idx, nW, caseW);
        else if (idx < bW + bH)
            block(idx - bW, nH, caseH);
        else if (idx < bW + bH + bJ)
        {
            block(idx - bW - bH, nJ, caseJ);
            if (idx == bW + bH) // (the whole of J2 rides on the first J block: 616 small headers)
                for (uint64_t s2 = 0; s2 < nJ2; ++s2)
                    caseJ2(s2, ctx);
        }
        else
            caseM(idx - bW - bH - bJ, ctx);
        if (idx % 61 == 0)
            ctx.sample("{\"case\":" + std::to_string(idx) + ",\"last_input\":" + vr::jstr(ctx.shm->slots[ctx.worker].note) + "}");
    });
}
