// C18: media types survive write/parse; invalid ones are rejected cleanly.
//
// Bounded-exhaustive enumeration against the real Http::Mime::MediaType (fromString / fromRaw / toString /
// Q) under ASan + UBSan. No sampling; the case space is a fixed product, cut into blocks of kBlock inputs.
//
//   P  text product   : type x subtype (17 known + vendor + extension, incl. extension subtypes that start
//                       with a known subtype name) x suffix (none, 7 known, extension, extension starting
//                       with a known suffix name) x letter case x {q, parameter} sets  [quick: 2 q x 2
//                       parameter sets; thorough: all 101 canonical q x 6
//                       parameter sets]
//   Q  quality forms  : q = 0.00 .. 1.00 in hundredths x 3 spellings (0.5 / 0.50 / 0.500) x 3 carrier types
//                       x all parameter sets (0-2 parameters, two separators, incl. a parameter whose name
//                       starts with the letter q)
//   B  built objects  : MediaType(top, sub[, suffix]) + setQuality + setParam -> toString() -> parse (all known
//                       type/subtype/suffix x the q set of P x all parameter sets; all 102 q on 3 carriers)
//   M  mutated text   : every string over {t / * + ; = q . 0 9 SP NUL} up to length L, bare and behind
//                       valid prefixes; oracle is a strict three-valued reference recogniser (VALID /
//                       INVALID / UNSPECIFIED)
//
//   R  bad qualities  : q = 1.001 .. 1.100 in thousandths and 16 further out-of-range spellings x 3 carriers x 3 tails:
//                       must be refused with 415
//   S  substitutions  : every byte value at every position of ~45 canonical texts (each type, subtype, suffix name)
//
// Every text is evaluated through fromString, through fromRaw on an exact-size heap buffer without a
// terminating NUL (an over-read is an ASan report) and through fromRaw inside a larger buffer with each
// following-byte class (digit, '.', letter) right after the given length: the result must not depend on it.
//
// Oracle: the expected top/sub/suffix/q/parameters come from the generator's own tables, never from
// pistache; toString() of a parsed media type must be the text it was parsed from; a rejection must be an
// HttpError with code 415.
//
// "Nontrivial" rule: an input counts as nontrivial unless it is a bare lower-case "type/subtype" of two
// known table entries without suffix, quality or parameters (the shape unit tests use).
//
// Not flagged (judgement calls, counted as outcomes only): pistache accepting text the strict reference
// calls invalid (leniency such as ".5", "text/html charset=x", an empty subtype before '+').
#include <pistache/http.h>
#include <pistache/mime.h>

#include <algorithm>
#include <map>
#include <string>
#include <vector>

#include "common/garbage.h"
#include "common/runner.h"

using namespace Pistache;
using Http::Mime::MediaType;
using Http::Mime::Q;
using Http::Mime::Subtype;
using Http::Mime::Suffix;
using Http::Mime::Type;

static const uint64_t kBlock = 256;
static bool gThorough        = false;
static bool gStrict          = false; // --strict=1: also flag acceptance of text the strict reference refuses
static int L = 5, Lp = 3;

// ---- tables (the generator's own knowledge) -----------------------------------------------------------
struct TypeEnt
{
    Type t;
    const char* s;
};
static const TypeEnt kTypes[] = {
    { Type::Star, "*" }, { Type::Text, "text" }, { Type::Image, "image" }, { Type::Audio, "audio" }, { Type::Video, "video" },
    { Type::Application, "application" }, { Type::Message, "message" }, { Type::Multipart, "multipart" }
};
static const int kNTypes = sizeof kTypes / sizeof kTypes[0];

struct SubEnt
{
    Subtype t;
    const char* s;
    int kind; // 0 known, 1 vendor, 2 extension, 3 extension whose name starts with a known subtype name
};
static const SubEnt kSubs[] = {
    { Subtype::Star, "*", 0 }, { Subtype::Plain, "plain", 0 }, { Subtype::Html, "html", 0 }, { Subtype::Xhtml, "xhtml", 0 },
    { Subtype::Xml, "xml", 0 }, { Subtype::Javascript, "javascript", 0 }, { Subtype::Css, "css", 0 },
    { Subtype::OctetStream, "octet-stream", 0 }, { Subtype::Json, "json", 0 }, { Subtype::JsonSchema, "schema+json", 0 },
    { Subtype::JsonSchemaInstance, "schema-instance+json", 0 }, { Subtype::FormUrlEncoded, "x-www-form-urlencoded", 0 },
    { Subtype::FormData, "form-data", 0 }, { Subtype::Png, "png", 0 }, { Subtype::Gif, "gif", 0 }, { Subtype::Bmp, "bmp", 0 },
    { Subtype::Jpeg, "jpeg", 0 },
    { Subtype::Vendor, "vnd.x", 1 }, { Subtype::Vendor, "vnd.ms-excel", 1 },
    { Subtype::Ext, "x-foo", 2 }, { Subtype::Ext, "rtf", 2 },
    { Subtype::Ext, "json-patch", 3 }, { Subtype::Ext, "xml-dtd", 3 }, { Subtype::Ext, "html5", 3 }
};
static const int kNSubs      = sizeof kSubs / sizeof kSubs[0];
static const int kNKnownSubs = 17;

struct SufEnt
{
    Suffix t;
    const char* s;
    int kind; // 0 none, 1 known, 2 extension, 3 extension starting with a known suffix name
};
static const SufEnt kSufs[] = {
    { Suffix::None, "", 0 }, { Suffix::Json, "json", 1 }, { Suffix::Ber, "ber", 1 }, { Suffix::Der, "der", 1 },
    { Suffix::Fastinfoset, "fastinfoset", 1 }, { Suffix::Wbxml, "wbxml", 1 }, { Suffix::Zip, "zip", 1 }, { Suffix::Xml, "xml", 1 },
    { Suffix::Ext, "cbor", 2 }, { Suffix::Ext, "json-seq", 3 }
};
static const int kNSufs      = sizeof kSufs / sizeof kSufs[0];
static const int kNKnownSufs = 8; // incl. none

struct Param
{
    const char* k;
    const char* v;
};
static const Param kParams[] = { { "charset", "utf-8" }, { "boundary", "x.Y-9" }, { "version", "1" }, { "qs", "1" } };
static const int kNParams    = sizeof kParams / sizeof kParams[0];

// parameter sets: none, each single, each ordered pair of distinct parameters; x 2 separators ("; " / ";")
struct PSet
{
    std::vector<int> ps;
    bool space;
};
static std::vector<PSet> gPSets;
static const int kNSpaced = 1 + 4 + 12; // the sets written with "; " come first
static void init_psets()
{
    for (int sp = 1; sp >= 0; --sp)
    {
        if (sp)
            gPSets.push_back({ {}, true });
        for (int a = 0; a < kNParams; ++a)
            gPSets.push_back({ { a }, (bool)sp });
        for (int a = 0; a < kNParams; ++a)
            for (int b = 0; b < kNParams; ++b)
                if (a != b)
                    gPSets.push_back({ { a, b }, (bool)sp });
    }
}

static std::string recase(const std::string& s, int mode)
{
    std::string o = s;
    if (mode == 1)
        for (auto& c : o)
            c = char(toupper((unsigned char)c));
    else if (mode == 2 && !o.empty())
        o[0] = char(toupper((unsigned char)o[0]));
    return o;
}

// ---- what one evaluation observes ----------------------------------------------------------------------
struct Seen
{
    int kind = 0; // 0 accepted, 1 HttpError 415, 2 HttpError other code, 3 other std::exception, 4 non-std exception
    int code = 0;
    std::string what, extype;
    int top = -1, sub = -1, suffix = -1, q = -1;
    std::string rawSub, text;
    std::map<std::string, std::string> params;
    std::string canon() const
    {
        if (kind)
            return "rejected kind=" + std::to_string(kind) + " code=" + std::to_string(code);
        std::string o = "top=" + std::to_string(top) + " sub=" + std::to_string(sub) + " suffix=" + std::to_string(suffix) + " q=" + std::to_string(q) + " rawSub=" + vr::show(rawSub) + " params={";
        for (auto& kv : params)
            o += vr::show(kv.first) + "=" + vr::show(kv.second) + ",";
        return o + "} text=" + vr::show(text);
    }
    std::string cls() const
    {
        switch (kind)
        {
        case 0:
            return "accepted";
        case 1:
            return "rejected:HttpError(415)";
        case 2:
            return "rejected:HttpError(" + std::to_string(code) + ")";
        case 3:
            return "rejected:" + extype;
        default:
            return "rejected:non-std exception";
        }
    }
};

static void observe(const MediaType& m, Seen& s)
{
    s.top    = (int)m.top();
    s.sub    = (int)m.sub();
    s.suffix = (int)m.suffix();
    s.q      = m.q().has_value() ? (int)m.q()->value() : -1;
    if (m.sub() == Subtype::Ext || m.sub() == Subtype::Vendor)
        s.rawSub = m.rawSub();
    s.text = m.toString();
    for (const auto& kv : m.params) // private map: only used to notice parameters nobody asked for
        s.params[kv.first] = kv.second;
}

template <typename F>
static Seen guarded(F&& f)
{
    Seen s;
    try
    {
        MediaType m = f();
        observe(m, s);
    }
    catch (const Http::HttpError& e)
    {
        s.code = e.code();
        s.kind = s.code == 415 ? 1 : 2;
        s.what = e.reason();
    }
    catch (const std::runtime_error& e)
    {
        s.kind   = 3;
        s.extype = "std::runtime_error";
        s.what   = e.what();
    }
    catch (const std::exception& e)
    {
        s.kind   = 3;
        s.extype = "std::exception";
        s.what   = e.what();
    }
    catch (...)
    {
        s.kind = 4;
    }
    return s;
}

static Seen via_string(const std::string& t)
{
    return guarded([&] { return MediaType::fromString(t); });
}
// exact-size heap buffer, no terminating NUL
static Seen via_exact(const std::string& t)
{
    char* p = new char[t.size()];
    memcpy(p, t.data(), t.size());
    Seen s = guarded([&] { return MediaType::fromRaw(p, t.size()); });
    delete[] p;
    return s;
}
// the text followed by other bytes inside the same allocation
static Seen via_followed(const std::string& t, const char* follow)
{
    size_t fl = strlen(follow);
    char* p   = new char[t.size() + fl];
    memcpy(p, t.data(), t.size());
    memcpy(p + t.size(), follow, fl);
    Seen s = guarded([&] { return MediaType::fromRaw(p, t.size()); });
    delete[] p;
    return s;
}
static const char* kFollow[]     = { "5", "75", ".5", "a", "e1" };
static const char* kFollowName[] = { "digit", "digits", "dot-digit", "letter", "exponent" };
static const int kNFollow        = 5;

// what the generator put in
struct Want
{
    bool specified = true; // false: no expectation on the fields (mutated text), only on acceptance
    int top = -1, sub = -1, suffix = -1, q = -1;
    bool checkSub = true, checkQ = true;
    std::string rawSub; // for vendor / extension subtypes
    std::map<std::string, std::string> params;
    // generator-side facts used to name the defect when the text is refused
    bool subKnownPrefix = false, sufKnownPrefix = false, qPrefixedParam = false, vendorUpper = false;
};

static std::string djson(const std::string& text, const Seen& got, const std::string& extra = "")
{
    return "{\"input\":" + vr::jstr(vr::show(text)) + ",\"observed\":" + vr::jstr(got.canon()) + (got.kind ? ",\"error\":" + vr::jstr(got.what) : "") + extra + "}";
}

// One text, all delivery forms. mustAccept: 1 yes, 0 must reject, -1 unspecified.
static void evaluate(const std::string& text, const Want& w, int mustAccept, const char* sec, vr::Ctx& ctx, bool allFollow = true)
{
    ctx.note(std::string(sec) + " input=" + vr::show(text));
    Seen a = via_string(text);
    Seen b = via_exact(text);
    ctx.count("evaluations", 1);
    ctx.count("transitions", 2 + (allFollow ? kNFollow : 3));
    ctx.state(vr::hash_str(a.canon(), 3));

    // rejection must be the unsupported-media-type error
    if (a.kind >= 2)
        ctx.violation(std::string("c18:rejected-with-wrong-error:") + (a.kind == 2 ? "other-http-code" : a.kind == 3 ? a.extype : "non-std"), djson(text, a));
    if (a.canon() != b.canon())
        ctx.violation("c18:fromRaw-differs-from-fromString", djson(text, b, ",\"fromString\":" + vr::jstr(a.canon())));
    for (int f = 0; f < kNFollow; ++f)
    {
        if (!allFollow && (f == 1 || f == 3)) // mutated text: one representative per class (digit, '.', letter)
            continue;
        Seen c = via_followed(text, kFollow[f]);
        if (c.canon() != b.canon())
            ctx.violation(std::string("c18:result-depends-on-bytes-after-length:") + kFollowName[f], djson(text, c, ",\"exact_buffer\":" + vr::jstr(b.canon()) + ",\"following\":" + vr::jstr(kFollow[f])));
    }

    if (a.kind == 0)
    {
        if (a.text != text)
            ctx.violation("c18:tostring-differs", djson(text, a));
        // whatever else is debatable about an accepted text: a type / subtype / suffix from the library's tables may
        // only be reported when the text really spells that name (in any letter case)
        {
            auto lower = [](std::string x) {
                for (auto& c : x)
                    if (c >= 'A' && c <= 'Z')
                        c = char(c + 32);
                return x;
            };
            size_t slash      = text.find('/');
            std::string typeT = lower(text.substr(0, slash));
            std::string rest  = slash == std::string::npos ? std::string() : text.substr(slash + 1);
            rest              = lower(rest.substr(0, rest.find(';')));
            auto endsName     = [&](size_t at) { return at >= rest.size() || rest[at] == ' ' || rest[at] == '\t'; }; // blanks / parameters follow
            for (int k = 0; k < kNTypes; ++k)
                if ((int)kTypes[k].t == a.top && typeT != kTypes[k].s)
                    ctx.violation("c18:known-name-reported-for-other-text:type", djson(text, a, ",\"reported\":" + vr::jstr(kTypes[k].s)));
            for (int k = 0; k < kNKnownSubs; ++k)
                if ((int)kSubs[k].t == a.sub)
                {
                    std::string n = kSubs[k].s;
                    if (rest.compare(0, n.size(), n) != 0 || !(endsName(n.size()) || rest[n.size()] == '+'))
                        ctx.violation("c18:known-name-reported-for-other-text:subtype", djson(text, a, ",\"reported\":" + vr::jstr(n)));
                }
            if (a.sub == (int)Subtype::Vendor && rest.compare(0, 4, "vnd.") != 0)
                ctx.violation("c18:known-name-reported-for-other-text:subtype", djson(text, a, ",\"reported\":\"vnd.\""));
            for (int k = 1; k < kNKnownSufs; ++k)
                if ((int)kSufs[k].t == a.suffix)
                {
                    std::string n = std::string("+") + kSufs[k].s;
                    bool spelled  = false;
                    for (size_t at = rest.find(n); at != std::string::npos && !spelled; at = rest.find(n, at + 1))
                        spelled = endsName(at + n.size());
                    if (!spelled)
                        ctx.violation("c18:known-name-reported-for-other-text:suffix", djson(text, a, ",\"reported\":" + vr::jstr(n)));
                }
        }
        if (mustAccept == 0)
        {
            ctx.outcome(std::string(sec) + " accepted though the strict reference calls it invalid (lenient)");
            ctx.count("lenient-accepts", 1);
            if (gStrict)
                ctx.violation("c18:accepted:not-a-media-type", djson(text, a));
            ctx.sample("{\"lenient_accept\":" + vr::jstr(vr::show(text)) + ",\"observed\":" + vr::jstr(a.canon()) + "}");
        }
        else
            ctx.outcome(std::string(sec) + " accepted");
        if (mustAccept == 1 && w.specified)
        {
            // one violation per input, named after the generator-side cause when there is one
            std::string sig, extra;
            if (a.top != w.top)
                sig = "c18:field-mismatch:type", extra = ",\"expected_top\":" + std::to_string(w.top);
            else if (w.checkSub && a.sub != w.sub)
                sig = w.vendorUpper ? "c18:field-mismatch:vendor-prefix-is-case-sensitive" : "c18:field-mismatch:subtype", extra = ",\"expected_sub\":" + std::to_string(w.sub);
            else if (w.checkSub && !w.rawSub.empty() && a.rawSub != w.rawSub)
                sig = "c18:field-mismatch:raw-subtype-text", extra = ",\"expected_rawSub\":" + vr::jstr(w.rawSub);
            else if (w.checkSub && a.suffix != w.suffix)
                sig = "c18:field-mismatch:suffix", extra = ",\"expected_suffix\":" + std::to_string(w.suffix);
            else if (w.checkQ && a.q != w.q)
                sig = "c18:field-mismatch:q", extra = ",\"expected_q\":" + std::to_string(w.q);
            else if (a.params != w.params)
            {
                std::string e;
                for (auto& kv : w.params)
                    e += kv.first + "=" + kv.second + ",";
                sig = "c18:field-mismatch:parameters", extra = ",\"expected_params\":" + vr::jstr(e);
            }
            if (!sig.empty())
            {
                if (w.subKnownPrefix && sig != "c18:field-mismatch:type")
                    sig = "c18:extension-subtype-starting-with-known-name";
                else if (w.sufKnownPrefix && sig != "c18:field-mismatch:type")
                    sig = "c18:extension-suffix-starting-with-known-name";
                ctx.violation(sig, djson(text, a, extra));
            }
        }
    }
    else
    {
        ctx.outcome(std::string(sec) + " " + a.cls());
        if (mustAccept == 1)
        {
            const char* sig = w.subKnownPrefix ? "c18:extension-subtype-starting-with-known-name"
                : w.sufKnownPrefix             ? "c18:extension-suffix-starting-with-known-name"
                : w.qPrefixedParam             ? "c18:rejected:parameter-name-starting-with-q"
                                               : "c18:rejected:valid-media-type";
            ctx.violation(sig, djson(text, a));
        }
    }
    ctx.poll_reports();
}

// ---- text product ---------------------------------------------------------------------------------------
struct QForm
{
    int q; // -1 none
    std::string text;
};
static std::vector<QForm> gQCanon; // none + canonical spelling of 0..100
static std::vector<QForm> gQAll;   // 3 spellings of 0..100

static void init_q()
{
    char b[32];
    gQCanon.push_back({ -1, "" });
    for (int v = 0; v <= 100; ++v)
    {
        if (v == 0)
            gQCanon.push_back({ 0, "q=0" });
        else if (v == 100)
            gQCanon.push_back({ 100, "q=1" });
        else if (v % 10 == 0)
        {
            snprintf(b, sizeof b, "q=0.%d", v / 10);
            gQCanon.push_back({ v, b });
        }
        else
        {
            snprintf(b, sizeof b, "q=0.%02d", v);
            gQCanon.push_back({ v, b });
        }
        gQAll.push_back(gQCanon.back());
        snprintf(b, sizeof b, "q=%d.%02d", v / 100, v % 100);
        gQAll.push_back({ v, b });
        snprintf(b, sizeof b, "q=%d.%02d0", v / 100, v % 100);
        gQAll.push_back({ v, b });
    }
}

static std::string params_text(const PSet& ps, Want& w)
{
    std::string o;
    for (int p : ps.ps)
    {
        o += ps.space ? "; " : ";";
        o += std::string(kParams[p].k) + "=" + kParams[p].v;
        w.params[kParams[p].k] = kParams[p].v;
        if (kParams[p].k[0] == 'q')
            w.qPrefixedParam = true;
    }
    return o;
}

static std::string media_text(int ti, int si, int fi, int cm, Want& w)
{
    const TypeEnt& t = kTypes[ti];
    const SubEnt& s  = kSubs[si];
    const SufEnt& f  = kSufs[fi];
    std::string o    = recase(t.s, cm) + "/" + recase(s.s, cm);
    if (f.kind)
        o += "+" + recase(f.s, cm);
    w.top    = (int)t.t;
    w.sub    = (int)s.t;
    w.suffix = (int)f.t;
    if (s.kind)
        w.rawSub = recase(s.s, cm);
    w.subKnownPrefix = s.kind == 3;
    w.sufKnownPrefix = f.kind == 3;
    w.vendorUpper    = s.kind == 1 && cm != 0;
    return o;
}

static std::vector<int> gPQ, gPP; // q indices (into gQCanon) and parameter-set indices used by section P
static uint64_t nP, nQ, nB, nM, nMfull, nMpre;
static uint64_t bP, bQ, bB, bM;
static const char* kCarriers[][3] = { { "1", "2", "0" }, { "5", "17", "1" }, { "0", "0", "0" } }; // (type, sub, suffix) indices as text

static bool is_trivial(int si, int fi, int cm, int q, size_t nparams)
{
    return kSubs[si].kind == 0 && kSufs[fi].kind == 0 && cm == 0 && q < 0 && nparams == 0;
}

static void caseP(uint64_t i, vr::Ctx& ctx)
{
    uint64_t x = i;
    int pi = gPP[x % gPP.size()];
    x /= gPP.size();
    int qi = gPQ[x % gPQ.size()];
    x /= gPQ.size();
    int cm = int(x % 3);
    x /= 3;
    int fi = int(x % kNSufs);
    x /= kNSufs;
    int si = int(x % kNSubs);
    x /= kNSubs;
    int ti = int(x);
    Want w;
    std::string text = media_text(ti, si, fi, cm, w);
    const QForm& q   = gQCanon[qi];
    w.q              = q.q;
    if (q.q >= 0)
        text += "; " + q.text;
    text += params_text(gPSets[pi], w);
    evaluate(text, w, 1, "product", ctx);
    if (!is_trivial(si, fi, cm, q.q, gPSets[pi].ps.size()))
        ctx.nontrivial(vr::hash_str(text, 5));
}

static void caseQ(uint64_t i, vr::Ctx& ctx)
{
    uint64_t x = i;
    int pi = int(x % gPSets.size());
    x /= gPSets.size();
    int c = int(x % 3);
    x /= 3;
    int qi = int(x % gQAll.size());
    x /= gQAll.size();
    int place = int(x); // 0: q before the parameters, 1: q after them
    Want w;
    std::string text = media_text(atoi(kCarriers[c][0]), atoi(kCarriers[c][1]), atoi(kCarriers[c][2]), 0, w);
    const QForm& q   = gQAll[qi];
    w.q              = q.q;
    const PSet& ps   = gPSets[pi];
    std::string qt   = (ps.space ? "; " : ";") + q.text;
    if (place == 0)
        text += qt + params_text(ps, w);
    else
        text += params_text(ps, w) + qt;
    evaluate(text, w, 1, "quality", ctx);
    ctx.nontrivial(vr::hash_str(text, 7));
}

// built objects: only what the constructors can express (known subtypes / suffixes)
static uint64_t nB1;
static void caseB(uint64_t i, vr::Ctx& ctx)
{
    int pi, qi, fi, si, ti;
    if (i < nB1)
    {
        uint64_t x = i;
        pi = int(x % kNSpaced); // the separator is the writer's business here: spaced sets only
        x /= kNSpaced;
        qi = gPQ[x % gPQ.size()];
        x /= gPQ.size();
        fi = int(x % kNKnownSufs);
        x /= kNKnownSufs;
        si = int(x % kNKnownSubs);
        x /= kNKnownSubs;
        ti = int(x);
    }
    else
    {
        // every quality value (the writer's formatting of q) on three carriers
        uint64_t x = i - nB1;
        pi = int(x % kNSpaced);
        x /= kNSpaced;
        int c = int(x % 3);
        x /= 3;
        qi = int(x); // index into gQCanon
        static const int carriers[3][3] = { { 1, 2, 0 }, { 5, 8, 7 }, { 0, 0, 0 } }; // text/html, application/json+xml, */*
        ti = carriers[c][0], si = carriers[c][1], fi = carriers[c][2];
    }
    const PSet& ps = gPSets[pi];
    Want w;
    w.top    = (int)kTypes[ti].t;
    w.sub    = (int)kSubs[si].t;
    w.suffix = (int)kSufs[fi].t;
    w.q      = gQCanon[qi].q;
    std::string text;
    std::string what = std::string(kTypes[ti].s) + "/" + kSubs[si].s + (fi ? std::string("+") + kSufs[fi].s : "") + " q=" + std::to_string(w.q);
    ctx.note("built " + what);
    try
    {
        MediaType m = fi ? MediaType(kTypes[ti].t, kSubs[si].t, kSufs[fi].t) : MediaType(kTypes[ti].t, kSubs[si].t);
        if (w.q >= 0)
            m.setQuality(Q((Q::Type)w.q));
        for (int p : ps.ps)
        {
            m.setParam(kParams[p].k, kParams[p].v);
            w.params[kParams[p].k] = kParams[p].v;
            if (kParams[p].k[0] == 'q')
                w.qPrefixedParam = true;
            what += std::string(" ") + kParams[p].k + "=" + kParams[p].v;
        }
        text = m.toString();
        ctx.count("transitions", 2 + ps.ps.size());
    }
    catch (const std::exception& e)
    {
        ctx.violation("c18:building-threw", "{\"built\":" + vr::jstr(what) + ",\"error\":" + vr::jstr(e.what()) + "}");
        return;
    }
    // the writer's text must itself say what was built (generator-side rendering of the same object)
    {
        std::string exp = std::string(kTypes[ti].s) + "/" + kSubs[si].s + (fi ? std::string("+") + kSufs[fi].s : "");
        if (text.compare(0, exp.size(), exp) != 0)
            ctx.violation("c18:written-text-wrong", "{\"built\":" + vr::jstr(what) + ",\"written\":" + vr::jstr(vr::show(text)) + "}");
    }
    evaluate(text, w, 1, "built", ctx);
    if (!is_trivial(si, fi, 0, w.q, ps.ps.size()))
        ctx.nontrivial(vr::hash_str(text, 9));
}

// ---- mutated text ------------------------------------------------------------------------------------------
static const char kMSigma[] = { 't', '/', '*', '+', ';', '=', 'q', '.', '0', '9', ' ', '\0' };
static const int kNM        = sizeof kMSigma;
static const char* kMPrefix[] = { "text/", "text/html", "text/html;", "text/html; ", "text/html;q", "text/html;q=", "text/html;q=0.", "text/html;a", "text/html;a=",
                                  "application/vnd.", "application/json+", "*/*", "image/x" };
static const int kNMPrefix    = sizeof kMPrefix / sizeof kMPrefix[0];

static bool tchar(unsigned char c)
{
    return isalnum(c) || (c && strchr("!#$%&'*+-.^_`|~", c));
}

// Strict reference: type "/" subtype *( OWS ";" OWS token "=" token ), type from the table, q a qvalue.
// returns 1 valid, 0 invalid, -1 unspecified (shapes on which reasonable readers differ)
static int reference(const std::string& s, Want& w)
{
    size_t n = s.size(), i = 0;
    for (char c : s)
        if (c == 0)
            return 0;
    size_t sl = s.find('/');
    if (sl == std::string::npos)
        return 0;
    std::string top = s.substr(0, sl);
    int ti          = -1;
    for (int k = 0; k < kNTypes; ++k)
        if (strcasecmp(top.c_str(), kTypes[k].s) == 0)
            ti = k;
    if (ti < 0)
        return 0;
    w.top = (int)kTypes[ti].t;
    i     = sl + 1;
    size_t b = i;
    while (i < n && tchar(s[i]))
        ++i;
    std::string sub = s.substr(b, i - b);
    if (sub.empty())
        return 0;
    // the subtype/suffix split of names with several, leading or trailing '+' is nobody's business here
    size_t plus = std::count(sub.begin(), sub.end(), '+');
    if (plus > 1 || sub[0] == '+' || sub.back() == '+')
        return -1;
    w.checkSub = false;
    {
        std::string name = sub.substr(0, sub.find('+'));
        for (int k = 0; k < kNKnownSubs; ++k)
        {
            size_t kl = strlen(kSubs[k].s);
            if (name.size() > kl && strncasecmp(name.c_str(), kSubs[k].s, kl) == 0)
                w.subKnownPrefix = true;
        }
        if (plus)
        {
            std::string suf = sub.substr(sub.find('+') + 1);
            for (int k = 1; k < kNKnownSufs; ++k)
            {
                size_t kl = strlen(kSufs[k].s);
                if (suf.size() > kl && strncasecmp(suf.c_str(), kSufs[k].s, kl) == 0)
                    w.sufKnownPrefix = true;
            }
        }
    }
    bool sawQ = false;
    while (i < n)
    {
        while (i < n && s[i] == ' ')
            ++i;
        if (i >= n || s[i] != ';')
            return 0;
        ++i;
        while (i < n && s[i] == ' ')
            ++i;
        b = i;
        while (i < n && tchar(s[i]))
            ++i;
        std::string k = s.substr(b, i - b);
        if (k.empty() || i >= n || s[i] != '=')
            return 0;
        ++i;
        b = i;
        while (i < n && tchar(s[i]))
            ++i;
        std::string v = s.substr(b, i - b);
        if (v.empty())
            return 0;
        if (k == "q" || k == "Q")
        {
            // qvalue = ( "0" [ "." 0*3DIGIT ] ) / ( "1" [ "." 0*3("0") ] )
            if (sawQ)
                return -1;
            sawQ = true;
            if (v[0] != '0' && v[0] != '1')
                return 0;
            if (v.size() > 1 && v[1] != '.')
                return 0;
            if (v.size() > 5)
                return 0;
            int frac = 0, digits = 0;
            for (size_t j = 2; j < v.size(); ++j)
            {
                if (!isdigit((unsigned char)v[j]))
                    return 0;
                frac = frac * 10 + (v[j] - '0');
                ++digits;
            }
            if (v[0] == '1' && frac != 0)
                return 0;
            if (digits <= 2)
                w.q = (v[0] - '0') * 100 + (digits == 1 ? frac * 10 : frac);
            else
                w.checkQ = false; // thousandths: rounding is the reader's choice
        }
        else
        {
            if (k[0] == 'q' || k[0] == 'Q')
                w.qPrefixedParam = true;
            if (w.params.count(k))
                return -1; // repeated parameter: which one wins is unspecified
            w.params[k] = v;
        }
    }
    return 1;
}

static void mutated(const std::string& text, vr::Ctx& ctx)
{
    Want w;
    int r = reference(text, w);
    evaluate(text, w, r, r == 1 ? "mutated(ref valid)" : r == 0 ? "mutated(ref invalid)" : "mutated(ref unspecified)", ctx, false);
    ctx.nontrivial(vr::hash_str(text, 11));
}

// ---- R: qualities outside 0..1 (just outside as well as far outside) must be refused with 415 ------------------------
static std::vector<std::string> gBadQ;
static void init_badq()
{
    char b[32];
    for (int t = 1001; t <= 1100; ++t) // 1.001 .. 1.100: thousandths just above 1
    {
        snprintf(b, sizeof b, "%d.%03d", t / 1000, t % 1000);
        gBadQ.push_back(b);
    }
    for (const char* x : { "1.0001", "1.00001", "1.5", "2", "2.0", "9", "10", "100", "1e1", "1e2", "1E9", "-0.001", "-0.5", "-1", "-1e-3", "1.0000000001" })
        gBadQ.push_back(x);
}
static void caseR(uint64_t i, vr::Ctx& ctx)
{
    static const char* kCar[] = { "text/html", "application/json", "*/*" };
    static const char* kTail[] = { "", "; charset=utf-8", " " };
    const std::string& q = gBadQ[i / 9];
    std::string text     = std::string(kCar[i % 3]) + "; q=" + q + kTail[i / 3 % 3];
    Want w;
    w.specified = false;
    ctx.note("out-of-range quality input=" + vr::show(text));
    Seen a = via_string(text);
    Seen b = via_exact(text);
    ctx.count("evaluations", 1);
    ctx.count("transitions", 2);
    if (a.kind == 0 || b.kind == 0)
        ctx.violation("c18:accepted:quality-out-of-range", djson(text, a.kind == 0 ? a : b));
    else if (a.kind >= 2)
        ctx.violation(std::string("c18:rejected-with-wrong-error:") + (a.kind == 2 ? "other-http-code" : a.kind == 3 ? a.extype : "non-std"), djson(text, a));
    else if (b.kind >= 2)
        ctx.violation(std::string("c18:rejected-with-wrong-error:") + (b.kind == 2 ? "other-http-code" : b.kind == 3 ? b.extype : "non-std"), djson(text, b));
    ctx.outcome("out-of-range quality " + a.cls());
    ctx.nontrivial(vr::hash_str(text, 17));
}

// ---- L (round 6): quality numerals of every length - what other software prints for 1/3, 2/3, 0.1+0.2, zero-padded values ----
// q = d.ddd... with 1..40 fraction digits over five digit patterns; the numeral is one token whatever its length: the media type
// must be accepted, the quality must be the value rounded or truncated to hundredths, and a parameter that follows must survive
static uint64_t nL;
static void caseL(uint64_t i, vr::Ctx& ctx)
{
    static const char* kPat[] = { "3", "6", "50", "0", "30000000000000004", "9" };
    int tail = int(i % 3), c = int(i / 3 % 3), pat = int(i / 9 % 6), len = 1 + int(i / 54);
    std::string frac;
    while ((int)frac.size() < len)
        frac += kPat[pat];
    frac.resize(len);
    bool one = pat == 3 && len % 2 == 0; // "1.000...": the other legal integer part
    std::string num = std::string(one ? "1." : "0.") + frac;
    Want w;
    std::string text = media_text(atoi(kCarriers[c][0]), atoi(kCarriers[c][1]), atoi(kCarriers[c][2]), 0, w);
    text += "; q=" + num;
    if (tail == 1)
    {
        text += "; charset=utf-8";
        w.params["charset"] = "utf-8";
    }
    else if (tail == 2)
    {
        text += ";b=1";
        w.params["b"] = "1";
    }
    w.checkQ = false;
    evaluate(text, w, 1, "long quality numeral", ctx);
    // the value, to the hundredth (rounding or truncation are both the reader's choice)
    Seen a = via_string(text);
    if (a.kind == 0)
    {
        double v = one ? 1.0 : strtod(num.c_str(), nullptr);
        int lo = int(v * 100), hi = int(v * 100 + 0.5);
        if (a.q != lo && a.q != hi)
            ctx.violation("c18:field-mismatch:q", djson(text, a, ",\"expected_q\":" + std::to_string(lo) + ",\"or\":" + std::to_string(hi)));
    }
    ctx.nontrivial(vr::hash_str(text, 19));
}

// ---- S: single-byte substitutions of canonical texts (every byte value at every position) ---------------------------
static std::vector<std::string> gSTexts;
static std::vector<std::pair<int, int>> gSIndex; // (text, position), one case each = 255 inputs
static void init_subst()
{
    for (int k = 0; k < kNTypes; ++k)
        gSTexts.push_back(std::string(kTypes[k].s) + "/plain");
    for (int k = 0; k < kNSubs; ++k)
        gSTexts.push_back(std::string("application/") + kSubs[k].s);
    for (int k = 1; k < kNSufs; ++k)
        gSTexts.push_back(std::string("application/x-foo+") + kSufs[k].s);
    gSTexts.push_back("text/html; q=0.5; charset=utf-8");
    gSTexts.push_back("*/*");
    for (size_t t = 0; t < gSTexts.size(); ++t)
        for (size_t p = 0; p < gSTexts[t].size(); ++p)
            gSIndex.push_back({ (int)t, (int)p });
}
static void caseS(uint64_t i, vr::Ctx& ctx)
{
    const std::string& base = gSTexts[gSIndex[i].first];
    int pos                 = gSIndex[i].second;
    for (int b = 0; b < 256; ++b)
    {
        if ((char)b == base[pos])
            continue;
        std::string t = base;
        t[pos]        = (char)b;
        Want w;
        int r = reference(t, w);
        evaluate(t, w, r, r == 1 ? "substituted(ref valid)" : r == 0 ? "substituted(ref invalid)" : "substituted(ref unspecified)", ctx, false);
        ctx.nontrivial(vr::hash_str(t, 13));
    }
}

static void caseM(uint64_t i, vr::Ctx& ctx)
{
    uint64_t blocksFull = (nMfull + kBlock - 1) / kBlock, blocksPre = (nMpre + kBlock - 1) / kBlock;
    if (i < blocksFull)
    {
        for (uint64_t s = i * kBlock; s < (i + 1) * kBlock && s < nMfull; ++s)
        {
            auto v = gb::nth<char>(s, kMSigma, kNM, L);
            mutated(std::string(v.begin(), v.end()), ctx);
        }
        return;
    }
    i -= blocksFull;
    int p        = int(i / blocksPre);
    uint64_t blk = i % blocksPre;
    for (uint64_t s = blk * kBlock; s < (blk + 1) * kBlock && s < nMpre; ++s)
    {
        auto v = gb::nth<char>(s, kMSigma, kNM, Lp);
        mutated(std::string(kMPrefix[p]) + std::string(v.begin(), v.end()), ctx);
    }
}

// ---- T: API sequences on a built media type --------------------------------------------------------------------------
// a MediaType built from table entries (type, subtype[, suffix]) and then driven through every sequence of up to 4
// operations over { take the string form, setQuality(0.5), setQuality(1), setQuality(0.05), setParam(charset, utf-8),
// setParam(b, 1), continue on a copy }. After every operation the string form must describe the object as it is now:
// parsing it gives back type, subtype, suffix, the quality set last and exactly the parameters set so far.
static const int kNTOps = 7;
static const char* kTOpNames[] = { "toString", "setQuality(0.5)", "setQuality(1)", "setQuality(0.05)", "setParam(charset,utf-8)", "setParam(b,1)", "copy" };
static uint64_t nT;
static void caseT(uint64_t i, vr::Ctx& ctx)
{
    static const struct
    {
        Type t;
        Subtype s;
        Suffix f;
        bool withSuffix;
    } carriers[] = { { Type::Text, Subtype::Plain, Suffix::None, false }, { Type::Application, Subtype::Json, Suffix::None, false }, { Type::Application, Subtype::Xhtml, Suffix::Xml, true }, { Type::Star, Subtype::Star, Suffix::None, false } };
    const int nCar = 4;
    int car        = int(i % nCar);
    uint64_t code  = i / nCar;
    // sequences of length 1..4, shortest first
    int len = 1;
    uint64_t span = kNTOps;
    while (code >= span)
    {
        code -= span;
        span *= kNTOps;
        ++len;
    }
    std::vector<int> ops(len);
    for (int k = len - 1; k >= 0; --k)
    {
        ops[k] = int(code % kNTOps);
        code /= kNTOps;
    }
    std::string desc = std::string("built #") + std::to_string(car) + ":";
    for (int o : ops)
        desc += std::string(" ") + kTOpNames[o];
    ctx.note("api " + desc);
    MediaType m = carriers[car].withSuffix ? MediaType(carriers[car].t, carriers[car].s, carriers[car].f) : MediaType(carriers[car].t, carriers[car].s);
    int wantQ   = -1;
    std::map<std::string, std::string> wantP;
    for (size_t k = 0; k < ops.size(); ++k)
    {
        switch (ops[k])
        {
        case 0:
            (void)m.toString();
            break;
        case 1:
            m.setQuality(Q(50));
            wantQ = 50;
            break;
        case 2:
            m.setQuality(Q(100));
            wantQ = 100;
            break;
        case 3:
            m.setQuality(Q(5));
            wantQ = 5;
            break;
        case 4:
            m.setParam("charset", "utf-8");
            wantP["charset"] = "utf-8";
            break;
        case 5:
            m.setParam("b", "1");
            wantP["b"] = "1";
            break;
        default: {
            MediaType copy = m;
            m              = copy;
        }
        }
        std::string text = m.toString();
        Seen s           = via_string(text);
        bool ok = s.kind == 0 && s.top == (int)carriers[car].t && s.sub == (int)carriers[car].s && s.suffix == (int)carriers[car].f && s.q == wantQ && s.params == wantP;
        ctx.count("evaluations", 1);
        ctx.count("transitions", 1);
        ctx.state(vr::hash_str(text));
        if (!ok)
        {
            std::string wp;
            for (auto& kv : wantP)
                wp += kv.first + "=" + kv.second + ",";
            ctx.violation(std::string("c18:api-sequence:string-form-does-not-describe-the-object:after-") + kTOpNames[ops[k]],
                          "{\"sequence\":" + vr::jstr(desc) + ",\"position\":" + std::to_string(k) + ",\"string_form\":" + vr::jstr(text) + ",\"parsed_back\":" + vr::jstr(s.canon()) + ",\"object_q\":" + std::to_string(wantQ) + ",\"object_params\":" + vr::jstr(wp) + "}");
            break;
        }
    }
    ctx.nontrivial(vr::hash_str(desc, 7));
    ctx.outcome("api sequence of " + std::to_string(ops.size()));
}

int main(int argc, char** argv)
{
    vr::Options opt = vr::parse_args(argc, argv);
    gThorough       = opt.geti("thorough", 0) != 0;
    gStrict         = opt.geti("strict", 0) != 0;
    if (gThorough && opt.tab_log2 == 22)
        opt.tab_log2 = 27; // ~64M distinct inputs
    L               = (int)opt.geti("L", gThorough ? 7 : 5);
    Lp              = (int)opt.geti("Lp", gThorough ? 5 : 3);
    init_psets();
    init_q();
    if (gThorough)
    {
        for (size_t k = 0; k < gQCanon.size(); ++k)
            gPQ.push_back((int)k);
        gPP = { 0, 1 /* charset */, 4 /* qs */, 5 /* charset; boundary */, 17 /* ;charset */, 21 /* ;charset;boundary */ };
    }
    else
    {
        gPQ = { 0, 51 /* q=0.5 */, 6 /* q=0.05 */ };
        gPP = { 0, 1 /* charset */, 5 /* charset; boundary */ };
    }
    nP     = (uint64_t)kNTypes * kNSubs * kNSufs * 3 * gPQ.size() * gPP.size();
    nQ     = (uint64_t)2 * gQAll.size() * 3 * gPSets.size();
    nB1    = (uint64_t)kNTypes * kNKnownSubs * kNKnownSufs * gPQ.size() * kNSpaced;
    nB     = nB1 + (uint64_t)gQCanon.size() * 3 * kNSpaced;
    nMfull = gb::count_upto(kNM, L);
    nMpre  = gb::count_upto(kNM, Lp);
    bP     = (nP + kBlock - 1) / kBlock;
    bQ     = (nQ + kBlock - 1) / kBlock;
    bB     = (nB + kBlock - 1) / kBlock;
    bM     = (nMfull + kBlock - 1) / kBlock + (uint64_t)kNMPrefix * ((nMpre + kBlock - 1) / kBlock);
    init_subst();
    init_badq();
    static uint64_t bS, bR, bT;
    bS             = gSIndex.size();
    bR             = gBadQ.size() * 9;
    nL             = 54ull * 40;
    nT             = 4ull * (7 + 49 + 343 + 2401);
    bT             = (nT + kBlock - 1) / kBlock;
    uint64_t total = bP + bQ + bB + bM + bS + bR + bT;
    return vr::run(opt, total, [](uint64_t idx, vr::Ctx& ctx) {
        ctx.count("executions", 1);
        auto block = [&](uint64_t blk, uint64_t n, void (*fn)(uint64_t, vr::Ctx&)) {
            for (uint64_t s = blk * kBlock; s < (blk + 1) * kBlock && s < n; ++s)
                fn(s, ctx);
        };
        if (idx < bP)
            block(idx, nP, caseP);
        else if (idx < bP + bQ)
            block(idx - bP, nQ, caseQ);
        else if (idx < bP + bQ + bB)
            block(idx - bP - bQ, nB, caseB);
        else if (idx < bP + bQ + bB + bM)
            caseM(idx - bP - bQ - bB, ctx);
        else if (idx < bP + bQ + bB + bM + bS)
            caseS(idx - bP - bQ - bB - bM, ctx);
        else if (idx < bP + bQ + bB + bM + bS + bR)
        {
            caseR(idx - bP - bQ - bB - bM - bS, ctx);
            if (idx == bP + bQ + bB + bM + bS) // (the 2160 long-numeral inputs ride on the first R case)
                for (uint64_t l = 0; l < nL; ++l)
                    caseL(l, ctx);
        }
        else
            block(idx - bP - bQ - bB - bM - bS - bR, nT, caseT);
        if (idx % 97 == 0)
            ctx.sample("{\"case\":" + std::to_string(idx) + ",\"last_input\":" + vr::jstr(ctx.shm->slots[ctx.worker].note) + "}");
    });
}
