// C19: address and port text forms are parsed exactly or rejected.
//
// Bounded-exhaustive enumeration of address / port texts against the real Pistache::Address (both
// constructors, const char* form, Address(IP, Port)), Port(std::string), Ipv4 / Ipv6 and operator<<.
// No sampling: every section below is a finite product that is walked completely.
//
//   quads    every dotted quad over the octets {0,1,9,10,99,100,127,199,200,249,250,255}^4 x ports
//            (text form, (host, Port) form, Address(Ipv4(a,b,c,d), Port))
//   ports    hosts {127.0.0.1, [::1], *, localhost, ...} x every port number 0..65535 as text, plus the
//            out-of-range / garbled / signed / blank-led / 2^16, 2^32, 2^64 wrap-around texts; the same
//            texts through Port(std::string)
//   v4forms  1..5 (thorough: 6) dot-joined parts over {"0","7","255","256","","01","0x1","999"}: strict quads,
//            empty octets (leading / trailing / double dot), 3 and 5 octets, >255, resolver short forms
//   v6       every "::" position (a groups before, b after, a+b<=7) and the full 8-group form over the
//            group alphabet {0,1,ffff} (thorough: + "00Ab"), bracketed with and without port, (host, Port)
//            form, and without brackets
//   v6tail   IPv6 prefixes x dotted-quad tails (v4-mapped, v4-compatible, NAT64, malformed tails)
//   v6edit   ~70 curated IPv6 / bracket / colon texts and every single-character deletion, substitution and
//            insertion over {: 0 f g . [ ] % SP} of each
//   clutter  every string of length <= 7 (thorough: 8) over {[ ] : 1 . a}
//   ipctor   Address(Ipv6(g0..g7), Port) over {0,1,ffff}^8
//
// Reference (independent of pistache, written from RFC 3986 host syntax / RFC 4291 section 2.2 and the
// property text): own strict dotted-quad reader, own IPv6 text expander (inet_pton is consulted as a
// second opinion on every literal; a disagreement is reported under a "harness:" signature), own port
// reader. Every text is classified
//   VALID    strict dotted quad | "[" IPv6 "]" | "*" | "localhost", optionally ":" 1*DIGIT (no leading
//            zero, value <= 65535): must be accepted with exactly these bytes / family / port (80 if
//            absent), host() must denote the same bytes, and operator<< must print a text that is VALID
//            again and denotes the same address (checked by the reference and by re-parsing with pistache)
//   INVALID  empty / non-numeric / negative / >65535 port, malformed literal, stray brackets and colons,
//            IPv6 without brackets: must throw std::invalid_argument
//   LENIENT  forms the property leaves open: resolver short forms ("127.1", "1", octal / hex parts), host
//            names (they cannot resolve here: no DNS), ports with a sign, leading blanks or leading
//            zeros, texts with an embedded NUL. Nothing is demanded except: when accepted and the numeric
//            port value is known it must be that port, and the printed form must round-trip.
//
// DNS: pistache hands the host part of non-bracketed texts to getaddrinfo. The sandbox has no resolver
// and a lookup could block, so this executable interposes getaddrinfo and adds AI_NUMERICHOST: numeric
// conversions are unaffected, a name lookup fails at once (which is what "DNS is absent" means).
//
// Counters: executions = runner cases (blocks of inputs); evaluations = texts / argument tuples judged;
// transitions = pistache API calls. states = distinct observable results (accepted family/bytes/port or
// exception type); non-trivial inputs = everything except a strict dotted quad with no port or a plain
// decimal port in 1..65534 (i.e. IPv6, aliases, boundary ports, lenient and invalid texts);
// outcomes = (host kind, reference class and reason, observed result).
#include "common/runner.h"
#include "common/locale_env.h"

#include <pistache/net.h>

#include <arpa/inet.h>
#include <dlfcn.h>
#include <netdb.h>
#include <sstream>

using namespace Pistache;

// ---- no-DNS model ------------------------------------------------------------------------------------
static uint64_t gLookups = 0;
extern "C" int getaddrinfo(const char* node, const char* service, const struct addrinfo* hints, struct addrinfo** res)
{
    using Fn       = int (*)(const char*, const char*, const struct addrinfo*, struct addrinfo**);
    static Fn real = reinterpret_cast<Fn>(dlsym(RTLD_NEXT, "getaddrinfo"));
    struct addrinfo h;
    memset(&h, 0, sizeof h);
    if (hints)
        h = *hints;
    h.ai_flags |= AI_NUMERICHOST;
    ++gLookups;
    return real(node, service, &h, res);
}

// ---- reference -----------------------------------------------------------------------------------------
namespace ref
{
    enum Cls { VALID,
               INVALID,
               LENIENT };
    static const char* cls_name(Cls c) { return c == VALID ? "valid" : c == INVALID ? "invalid" : "lenient"; }

    static bool is_digit(char c) { return c >= '0' && c <= '9'; }
    static int hexval(char c)
    {
        if (c >= '0' && c <= '9')
            return c - '0';
        if (c >= 'a' && c <= 'f')
            return c - 'a' + 10;
        if (c >= 'A' && c <= 'F')
            return c - 'A' + 10;
        return -1;
    }

    // dec-octet "." dec-octet "." dec-octet "." dec-octet, dec-octet = 0 | [1-9][0-9]{0,2} <= 255
    static bool strict_quad(const std::string& s, uint8_t out[4])
    {
        size_t i = 0;
        for (int k = 0; k < 4; ++k)
        {
            if (k)
            {
                if (i >= s.size() || s[i] != '.')
                    return false;
                ++i;
            }
            size_t st  = i;
            unsigned v = 0;
            while (i < s.size() && is_digit(s[i]) && i - st < 4)
            {
                v = v * 10 + unsigned(s[i] - '0');
                ++i;
            }
            size_t n = i - st;
            if (n == 0 || n > 3 || (n > 1 && s[st] == '0') || v > 255)
                return false;
            out[k] = uint8_t(v);
        }
        return i == s.size();
    }

    // BSD "numbers-and-dots" notation (what a resolver accepts beyond strict quads): 1..4 parts, each
    // decimal / 0octal / 0xhex, all but the last <= 255, the last fills the remaining bytes
    static bool numbers_and_dots(const std::string& s)
    {
        std::vector<std::string> parts(1);
        for (char c : s)
        {
            if (c == '.')
                parts.emplace_back();
            else
                parts.back() += c;
        }
        if (parts.size() > 4)
            return false;
        static const uint64_t lim[5] = { 0, 0xffffffffull, 0xffffffull, 0xffffull, 0xffull };
        for (size_t k = 0; k < parts.size(); ++k)
        {
            const std::string& p = parts[k];
            if (p.empty())
                return false;
            uint64_t v = 0;
            int base   = 10;
            size_t i   = 0;
            if (p.size() > 2 && p[0] == '0' && (p[1] == 'x' || p[1] == 'X'))
            {
                base = 16;
                i    = 2;
            }
            else if (p.size() > 1 && p[0] == '0')
            {
                base = 8;
                i    = 1;
            }
            for (; i < p.size(); ++i)
            {
                int d = hexval(p[i]);
                if (d < 0 || d >= base)
                    return false;
                v = v * base + d;
                if (v > 0xffffffffull)
                    return false;
            }
            if (k + 1 < parts.size() ? v > 255 : v > lim[parts.size()])
                return false;
        }
        return true;
    }

    // RFC 4291 2.2: 8 groups of 1..4 hex digits; one "::" stands for one or more zero groups; the last
    // 32 bits may be written as a dotted quad
    static bool ipv6(const std::string& s, uint8_t out[16])
    {
        if (s.empty())
            return false;
        size_t dc = s.find("::");
        bool comp = dc != std::string::npos;
        if (comp && s.find("::", dc + 1) != std::string::npos)
            return false;
        std::string left = comp ? s.substr(0, dc) : s, right = comp ? s.substr(dc + 2) : std::string();
        auto list = [](const std::string& t, bool lastList, std::vector<uint16_t>& g) -> bool {
            if (t.empty())
                return true;
            std::vector<std::string> ps(1);
            for (char c : t)
            {
                if (c == ':')
                    ps.emplace_back();
                else
                    ps.back() += c;
            }
            for (size_t k = 0; k < ps.size(); ++k)
            {
                const std::string& p = ps[k];
                if (p.empty())
                    return false;
                if (p.find('.') != std::string::npos)
                {
                    uint8_t q[4];
                    if (!lastList || k + 1 != ps.size() || !strict_quad(p, q))
                        return false;
                    g.push_back(uint16_t(q[0] << 8 | q[1]));
                    g.push_back(uint16_t(q[2] << 8 | q[3]));
                    continue;
                }
                if (p.size() > 4)
                    return false;
                unsigned v = 0;
                for (char c : p)
                {
                    int d = hexval(c);
                    if (d < 0)
                        return false;
                    v = v * 16 + unsigned(d);
                }
                g.push_back(uint16_t(v));
            }
            return true;
        };
        std::vector<uint16_t> a, b;
        if (!list(left, !comp, a) || !list(right, true, b))
            return false;
        if (comp ? a.size() + b.size() > 7 : a.size() != 8)
            return false;
        memset(out, 0, 16);
        for (size_t k = 0; k < a.size(); ++k)
        {
            out[2 * k]     = uint8_t(a[k] >> 8);
            out[2 * k + 1] = uint8_t(a[k]);
        }
        for (size_t k = 0; k < b.size(); ++k)
        {
            size_t at      = 8 - b.size() + k;
            out[2 * at]     = uint8_t(b[k] >> 8);
            out[2 * at + 1] = uint8_t(b[k]);
        }
        return true;
    }

    struct PortR
    {
        Cls cls;
        long value; // -1: not defined
        const char* why;
    };
    static PortR port(const std::string& p)
    {
        if (p.empty())
            return { INVALID, -1, "empty-port" };
        if (p.find('\0') != std::string::npos)
            return { LENIENT, -1, "port-with-embedded-nul" };
        size_t i = 0;
        while (i < p.size() && (p[i] == ' ' || (p[i] >= '\t' && p[i] <= '\r')))
            ++i;
        bool blanks = i > 0, sign = false, neg = false;
        if (i < p.size() && (p[i] == '+' || p[i] == '-'))
        {
            sign = true;
            neg  = p[i] == '-';
            ++i;
        }
        size_t st = i;
        while (i < p.size() && is_digit(p[i]))
            ++i;
        if (i == st || i != p.size())
            return { INVALID, -1, "non-numeric-port" };
        size_t nz = st;
        while (nz + 1 < p.size() && p[nz] == '0')
            ++nz;
        bool lead = nz > st;
        long v    = 0;
        if (p.size() - nz > 5)
            v = 65536;
        else
            for (size_t k = nz; k < p.size(); ++k)
                v = v * 10 + (p[k] - '0');
        if (neg && v != 0)
            return { INVALID, -1, "negative-port" };
        if (v > 65535)
            return { INVALID, -1, "port-out-of-range" };
        if (blanks || sign || lead)
            return { LENIENT, v, blanks ? "port-with-leading-blank" : sign ? "port-with-sign" : "port-with-leading-zero" };
        return { VALID, v, "port" };
    }

    struct Addr
    {
        Cls cls         = INVALID;
        const char* kind = "malformed"; // ipv4 | ipv6 | alias | ipv4-short-form | hostname | malformed
        std::string why;                 // what makes it invalid / lenient ("" for valid)
        int family      = 0;
        uint8_t bytes[16] = {};
        long port       = -1; // -1: not defined
        bool hasPort    = false;
        bool hostKnown  = false;
        bool selfcheck_failed = false;
        std::string selfcheck;
    };

    static bool hostname_chars(const std::string& h)
    {
        for (unsigned char c : h)
            if (!(isalnum(c) || c == '.' || c == '-' || c == '_'))
                return false;
        return true;
    }

    static void second_opinion(Addr& r, int af, const std::string& text, bool mine, const uint8_t* bytes)
    {
        if (text.find('\0') != std::string::npos)
            return;
        uint8_t buf[16] = {};
        bool theirs     = inet_pton(af, text.c_str(), buf) == 1;
        size_t n        = af == AF_INET ? 4 : 16;
        if (theirs != mine || (mine && memcmp(buf, bytes, n) != 0))
        {
            r.selfcheck_failed = true;
            r.selfcheck        = std::string(af == AF_INET ? "ipv4 " : "ipv6 ") + "reference=" + (mine ? "valid" : "invalid") + " inet_pton=" + (theirs ? "valid" : "invalid");
        }
    }

    static Addr address(const std::string& s)
    {
        Addr r;
        std::string portText;
        bool portPresent = false;
        bool hostBad = false;
        Cls hostCls  = VALID;
        if (!s.empty() && s[0] == '[')
        {
            r.kind       = "ipv6";
            size_t close = s.find(']');
            if (close == std::string::npos)
            {
                r.kind = "malformed";
                r.why  = "unterminated-bracket";
                return r;
            }
            std::string inside = s.substr(1, close - 1), rest = s.substr(close + 1);
            bool ok = ipv6(inside, r.bytes);
            second_opinion(r, AF_INET6, inside, ok, r.bytes);
            if (!ok)
            {
                r.kind = "malformed";
                r.why  = inside.empty() ? "empty-brackets" : inside.find_first_of("[]") != std::string::npos ? "nested-bracket" : "bad-ipv6";
                return r;
            }
            if (!rest.empty() && rest[0] != ':')
            {
                r.why = "garbage-after-bracket";
                return r;
            }
            r.family    = AF_INET6;
            r.hostKnown = true;
            if (!rest.empty())
            {
                portPresent = true;
                portText    = rest.substr(1);
            }
        }
        else
        {
            size_t ob = s.find('['), cb = s.find(']');
            if (ob != std::string::npos || cb != std::string::npos)
            {
                r.why = (ob != std::string::npos && cb != std::string::npos && ob < cb) ? "garbage-before-bracket" : "stray-bracket";
                return r;
            }
            size_t colons = 0;
            for (char c : s)
                colons += c == ':';
            if (colons >= 2)
            {
                uint8_t tmp[16];
                size_t lc = s.rfind(':');
                bool v6   = ipv6(s, tmp) || ipv6(s.substr(0, lc), tmp);
                r.why     = v6 ? "ipv6-without-brackets" : "colon-clutter";
                return r;
            }
            size_t c         = s.find(':');
            std::string host = s.substr(0, c);
            if (c != std::string::npos)
            {
                portPresent = true;
                portText    = s.substr(c + 1);
            }
            uint8_t q[4];
            bool strict = strict_quad(host, q);
            second_opinion(r, AF_INET, host, strict, q);
            r.family = AF_INET;
            if (host == "*" || host == "localhost")
            {
                r.kind      = "alias";
                r.hostKnown = true;
                if (host == "localhost")
                {
                    r.bytes[0] = 127;
                    r.bytes[3] = 1;
                }
            }
            else if (strict)
            {
                r.kind      = "ipv4";
                r.hostKnown = true;
                memcpy(r.bytes, q, 4);
            }
            else if (host.empty())
            {
                hostBad = true;
                r.why   = "empty-host";
            }
            else if (host.find('\0') != std::string::npos)
            {
                hostCls = LENIENT;
                r.kind  = "hostname";
                r.why   = "host-with-embedded-nul";
            }
            else if (numbers_and_dots(host))
            {
                hostCls = LENIENT;
                r.kind  = "ipv4-short-form";
                r.why   = "resolver-short-form";
            }
            else if (host.find_first_not_of("0123456789.") == std::string::npos)
            {
                hostBad = true;
                r.why   = "bad-ipv4";
            }
            else if (hostname_chars(host))
            {
                hostCls = LENIENT;
                r.kind  = "hostname";
                r.why   = "host-name";
            }
            else
            {
                hostBad = true;
                r.why   = "bad-host-character";
            }
        }
        r.hasPort = portPresent;
        PortR p { VALID, 80, "no-port" };
        if (portPresent)
            p = port(portText);
        if (hostBad)
        {
            r.cls = INVALID;
            return r;
        }
        if (p.cls == INVALID)
        {
            r.cls = INVALID;
            r.why = p.why;
            return r;
        }
        r.port = p.value;
        if (hostCls == LENIENT || p.cls == LENIENT)
        {
            r.cls = LENIENT;
            if (hostCls != LENIENT)
                r.why = p.why;
            return r;
        }
        r.cls = VALID;
        r.why.clear();
        return r;
    }
} // namespace ref

// ---- observation of the implementation -------------------------------------------------------------------
struct Obs
{
    bool ok = false;
    std::string exc;
    int family       = 0;
    uint8_t bytes[16] = {};
    int port         = -1;
    std::string host, printed;
    std::string str() const
    {
        if (!ok)
            return "rejected:" + exc;
        return std::string("accepted ") + (family == AF_INET ? "ipv4 " : family == AF_INET6 ? "ipv6 " : "family? ") + "host=" + host + " port=" + std::to_string(port) + " printed=" + printed;
    }
    uint64_t hash() const
    {
        if (!ok)
            return vr::hash_str(exc, 3);
        return vr::hash_bytes(bytes, 16, uint64_t(family) * 70000 + uint64_t(port) + 7);
    }
};

static void read_back(const Address& a, Obs& o)
{
    o.ok     = true;
    o.family = a.family();
    o.port   = static_cast<uint16_t>(a.port());
    o.host   = a.host();
    if (o.family == AF_INET)
    {
        in_addr_t x = 0;
        a.ip_.toNetwork(&x);
        memcpy(o.bytes, &x, 4);
    }
    else if (o.family == AF_INET6)
    {
        struct in6_addr x;
        memset(&x, 0, sizeof x);
        a.ip_.toNetwork(&x);
        memcpy(o.bytes, &x, 16);
    }
    std::ostringstream os;
    // the caller's stream is the caller's business: printed into a stream with the classic locale (a stream imbued with a
    // digit-grouping locale prints the port as any other number, "8,080" - the C++ convention, not pistache's choice)
    os.imbue(std::locale::classic());
    os << a;
    o.printed = os.str();
}

template <typename Make>
static Obs observe(Make make)
{
    Obs o;
    try
    {
        Address a = make();
        read_back(a, o);
    }
    catch (const std::invalid_argument&)
    {
        o.exc = "std::invalid_argument";
    }
    catch (const std::out_of_range&)
    {
        o.exc = "std::out_of_range";
    }
    catch (const std::logic_error&)
    {
        o.exc = "std::logic_error";
    }
    catch (const std::runtime_error&)
    {
        o.exc = "std::runtime_error";
    }
    catch (const std::exception&)
    {
        o.exc = "std::exception";
    }
    catch (...)
    {
        o.exc = "unknown-exception";
    }
    return o;
}

// ---- judging ---------------------------------------------------------------------------------------------
static std::map<std::string, int> gSigCount; // per worker process: keep the log small, one defect = one signature
static void violate(vr::Ctx& ctx, const std::string& sig, const std::string& detail)
{
    if (++gSigCount[sig] <= 3 || ctx.verbose)
        ctx.violation(sig, detail);
    else
        ctx.count("violations_not_logged", 1);
}

static std::string bytes_text(int family, const uint8_t* b)
{
    char buf[64];
    if (family == AF_INET)
        snprintf(buf, sizeof buf, "%u.%u.%u.%u", b[0], b[1], b[2], b[3]);
    else
        snprintf(buf, sizeof buf, "%02x%02x:%02x%02x:%02x%02x:%02x%02x:%02x%02x:%02x%02x:%02x%02x:%02x%02x", b[0], b[1], b[2], b[3], b[4], b[5], b[6], b[7],
                 b[8], b[9], b[10], b[11], b[12], b[13], b[14], b[15]);
    return buf;
}

static std::string detail(const std::string& input, const char* api, const ref::Addr& r, const Obs& o, const std::string& extra = "")
{
    std::string exp = std::string(ref::cls_name(r.cls)) + (r.why.empty() ? "" : " (" + r.why + ")");
    if (r.cls == ref::VALID)
        exp += " " + bytes_text(r.family, r.bytes) + " port " + std::to_string(r.port);
    return "{\"input\":" + vr::jstr(vr::show(input)) + ",\"api\":" + vr::jstr(api) + ",\"expected\":" + vr::jstr(exp) + ",\"observed\":" + vr::jstr(vr::show(o.str())) + (extra.empty() ? "" : ",\"note\":" + vr::jstr(vr::show(extra))) + "}";
}

static bool same_addr(const Obs& a, int family, const uint8_t* bytes, long port)
{
    return a.ok && a.family == family && a.port == port && memcmp(a.bytes, bytes, family == AF_INET ? 4 : 16) == 0;
}

// printing gives back an equivalent text: judged by the reference and by re-parsing with the implementation
static void check_print(vr::Ctx& ctx, const std::string& input, const char* api, const ref::Addr& r, const Obs& o)
{
    ref::Addr pr = ref::address(o.printed);
    bool refOk   = pr.cls == ref::VALID && pr.family == o.family && pr.port == o.port && memcmp(pr.bytes, o.bytes, 16) == 0;
    if (!refOk)
    {
        std::string what = (o.family == AF_INET6 && (o.printed.empty() || o.printed[0] != '[')) ? "ipv6-without-brackets" : "text-not-equivalent";
        violate(ctx, "c19:print-parse:" + what, detail(input, api, r, o, "printed text is " + std::string(ref::cls_name(pr.cls)) + (pr.why.empty() ? "" : " (" + pr.why + ")") + " for the reference reader"));
        return;
    }
    Obs again = observe([&] { return Address(o.printed); });
    ctx.count("transitions", 1);
    if (!again.ok)
        violate(ctx, "c19:print-parse:reparse-rejected", detail(input, api, r, o, "re-parse: " + again.str()));
    else if (!same_addr(again, o.family, o.bytes, o.port))
        violate(ctx, "c19:print-parse:reparse-differs", detail(input, api, r, o, "re-parse: " + again.str()));
}

static bool trivial(const ref::Addr& r)
{
    return r.cls == ref::VALID && !strcmp(r.kind, "ipv4") && (!r.hasPort || (r.port >= 1 && r.port <= 65534));
}

static void judge(vr::Ctx& ctx, const std::string& input, const char* api, const ref::Addr& r, const Obs& o)
{
    ctx.count("evaluations", 1);
    ctx.count("transitions", o.ok ? 6 : 1);
    ctx.state(o.hash());
    if (!trivial(r))
        ctx.nontrivial(vr::hash_str(input, 19));
    ctx.outcome(std::string(r.kind) + (r.hasPort ? "+port " : " ") + ref::cls_name(r.cls) + (r.why.empty() ? "" : "(" + r.why + ")") + " -> " + (o.ok ? "accepted" : "rejected:" + o.exc));
    if (r.selfcheck_failed)
        violate(ctx, "harness:c19:reference-disagrees-with-inet_pton", detail(input, api, r, o, r.selfcheck));
    const std::string portKind = r.hasPort ? "with-port" : "no-port";
    switch (r.cls)
    {
    case ref::VALID:
        if (!o.ok)
        {
            violate(ctx, std::string("c19:rejected:valid-") + r.kind + ":" + portKind, detail(input, api, r, o));
            return;
        }
        if (o.family != r.family)
            violate(ctx, std::string("c19:family-differs:") + r.kind, detail(input, api, r, o));
        else if (memcmp(o.bytes, r.bytes, 16) != 0)
            violate(ctx, std::string("c19:host-differs:") + r.kind, detail(input, api, r, o));
        else
        {
            // host() must denote the same address (IPv4: the canonical dotted quad itself)
            uint8_t hb[16] = {};
            bool hostOk    = r.family == AF_INET ? (ref::strict_quad(o.host, hb) && memcmp(hb, r.bytes, 4) == 0) : (ref::ipv6(o.host, hb) && memcmp(hb, r.bytes, 16) == 0);
            if (!hostOk)
                violate(ctx, std::string("c19:host-text-differs:") + r.kind, detail(input, api, r, o));
        }
        if (o.port != r.port)
            violate(ctx, std::string("c19:port-differs:") + (r.hasPort ? "given-port" : "default-port"), detail(input, api, r, o));
        check_print(ctx, input, api, r, o);
        break;
    case ref::INVALID:
        if (o.ok)
            violate(ctx, "c19:accepted:" + r.why, detail(input, api, r, o));
        else if (o.exc != "std::invalid_argument")
            violate(ctx, "c19:wrong-exception:" + o.exc, detail(input, api, r, o));
        break;
    case ref::LENIENT:
        if (o.ok)
        {
            if (r.port >= 0 && o.port != r.port)
                violate(ctx, "c19:port-differs:lenient-form", detail(input, api, r, o));
            check_print(ctx, input, api, r, o);
        }
        else if (o.exc != "std::invalid_argument")
            ctx.count("lenient_rejected_with_other_exception", 1);
        break;
    }
}

static void eval_text(vr::Ctx& ctx, const std::string& text, bool alsoCstr = false)
{
    ctx.note("Address(string) input=" + vr::show(text));
    ref::Addr r = ref::address(text);
    Obs o       = observe([&] { return Address(text); });
    judge(ctx, text, "Address(std::string)", r, o);
    if (alsoCstr && text.find('\0') == std::string::npos)
    {
        Obs c = observe([&] { return Address(text.c_str()); });
        judge(ctx, text, "Address(const char*)", r, c);
    }
    if (ctx.nsamples < ctx.max_samples && !trivial(r) && (ctx.idx % 7 == 0))
        ctx.sample("{\"input\":" + vr::jstr(vr::show(text)) + ",\"reference\":" + vr::jstr(std::string(ref::cls_name(r.cls)) + " " + r.kind + " " + r.why) + ",\"observed\":" + vr::jstr(vr::show(o.str())) + "}");
    ctx.poll_reports();
}

static void eval_host_port(vr::Ctx& ctx, const std::string& host, uint16_t port)
{
    std::string text = host + ":" + std::to_string(port);
    ctx.note("Address(host,Port) host=" + vr::show(host) + " port=" + std::to_string(port));
    ref::Addr r = ref::address(text);
    Obs o       = observe([&] { return Address(host, Port(port)); });
    judge(ctx, text, "Address(std::string host, Port)", r, o);
    ctx.poll_reports();
}

static void eval_port_ctor(vr::Ctx& ctx, const std::string& text)
{
    ctx.note("Port(string) input=" + vr::show(text));
    ref::PortR r = ref::port(text);
    bool ok      = false;
    long got     = -1;
    std::string exc;
    try
    {
        Port p(text);
        ok  = true;
        got = static_cast<uint16_t>(p);
        if (p.toString() != std::to_string(got))
            violate(ctx, "c19:port-ctor:toString-differs", "{\"input\":" + vr::jstr(vr::show(text)) + ",\"toString\":" + vr::jstr(p.toString()) + "}");
    }
    catch (const std::invalid_argument&)
    {
        exc = "std::invalid_argument";
    }
    catch (const std::exception&)
    {
        exc = "other std::exception";
    }
    catch (...)
    {
        exc = "unknown-exception";
    }
    ctx.count("evaluations", 1);
    ctx.count("transitions", ok ? 3 : 1);
    ctx.state(ok ? uint64_t(got) + 1000 : vr::hash_str(exc, 5));
    if (!(r.cls == ref::VALID && r.value >= 1 && r.value <= 65534))
        ctx.nontrivial(vr::hash_str(text, 23));
    ctx.outcome(std::string("Port(string) ") + ref::cls_name(r.cls) + "(" + r.why + ") -> " + (ok ? "accepted" : "rejected:" + exc));
    std::string d = "{\"input\":" + vr::jstr(vr::show(text)) + ",\"api\":\"Port(std::string)\",\"expected\":" + vr::jstr(std::string(ref::cls_name(r.cls)) + " (" + r.why + ") value " + std::to_string(r.value)) + ",\"observed\":" + vr::jstr(ok ? "accepted " + std::to_string(got) : "rejected:" + exc) + "}";
    if (r.cls == ref::VALID && !ok)
        violate(ctx, "c19:port-ctor:rejected-valid", d);
    else if (r.cls == ref::INVALID && ok)
        violate(ctx, std::string("c19:port-ctor:accepted:") + r.why, d);
    else if (r.cls == ref::INVALID && exc != "std::invalid_argument")
        violate(ctx, "c19:port-ctor:wrong-exception", d);
    else if (ok && r.value >= 0 && got != r.value)
        violate(ctx, "c19:port-ctor:value-differs", d);
    ctx.poll_reports();
}

// ---- the case space ---------------------------------------------------------------------------------------
static bool gThorough      = false;
static const uint64_t kBlk = 256;

struct Section
{
    std::string name;
    uint64_t n; // inputs
    std::function<void(uint64_t, vr::Ctx&)> run;
    uint64_t block;
    uint64_t firstCase = 0, cases = 0;
};
static std::vector<Section> gSecs;

static const int kOct[]  = { 0, 1, 9, 10, 99, 100, 127, 199, 200, 249, 250, 255 };
static const int kNOct   = 12;
static std::vector<std::string> gQuadPorts;   // texts appended to every quad ("" = no port)
static std::vector<std::string> gPortTexts;   // port texts of the port section
static std::vector<std::string> gPortHostsAll, gPortHostsFew;
static std::vector<std::string> gSpecialPorts;

static void init_ports()
{
    gSpecialPorts = { "", "0", "1", "80", "1023", "1024", "65535", "65536", "65537", "65616", "99999", "100000", "-1", "-80", "-65536", "-0", "+80", " 80", "\t80", "80 ", "080", "00080", "0000000080",
                      "8a", "a8", "0x50", "0x", "8 0", "8.0", "80.", "80:", ":80", "80:80", "1e3", "4294967295", "4294967296", "4294967376", "2147483647", "2147483648",
                      "9223372036854775807", "9223372036854775808", "18446744073709551615", "18446744073709551616", "18446744073709551696", "99999999999999999999",
                      "-99999999999999999999", " ", "+", "-", "+-80", "--80", "a", "http", std::string("80\0", 3), std::string("80\0x", 4), std::string("\0" "80", 3), "８０" };
    for (int p = 0; p <= 65535; ++p)
        gPortTexts.push_back(std::to_string(p));
    for (int p = 65536; p <= 65700; ++p)
        gPortTexts.push_back(std::to_string(p));
    for (long p = 131070; p <= 131160; ++p) // 2*65536 + small
        gPortTexts.push_back(std::to_string(p));
    for (auto& s : gSpecialPorts)
        gPortTexts.push_back(s);
    gPortHostsFew = { "127.0.0.1", "[::1]" };
    gPortHostsAll = { "127.0.0.1", "[::1]", "*", "localhost", "255.255.255.255", "0.0.0.0", "[::]", "[ffff:ffff:ffff:ffff:ffff:ffff:ffff:ffff]", "[::ffff:10.0.0.1]" };
    if (gThorough)
        for (auto& s : gSpecialPorts)
            gQuadPorts.push_back(s.empty() ? "" : ":" + s);
    else
        gQuadPorts = { "", ":0", ":80", ":65535", ":65536" };
    gQuadPorts.push_back(":"); // empty port after the colon
}

// quads --------------------------------------------------------------------------------------------------
static void run_quad(uint64_t i, vr::Ctx& ctx)
{
    int o[4];
    uint64_t x = i;
    for (int k = 3; k >= 0; --k)
    {
        o[k] = kOct[x % kNOct];
        x /= kNOct;
    }
    std::string q = std::to_string(o[0]) + "." + std::to_string(o[1]) + "." + std::to_string(o[2]) + "." + std::to_string(o[3]);
    for (auto& p : gQuadPorts)
        eval_text(ctx, q + p);
    static const uint16_t ps[] = { 0, 80, 65535 };
    for (uint16_t p : ps)
        eval_host_port(ctx, q, p);
    // Address(Ipv4(a,b,c,d), Port)
    for (uint16_t p : ps)
    {
        ctx.note("Address(Ipv4,Port) " + q + " port=" + std::to_string(p));
        ref::Addr r = ref::address(q + ":" + std::to_string(p));
        Obs ob      = observe([&] { return Address(Ipv4(uint8_t(o[0]), uint8_t(o[1]), uint8_t(o[2]), uint8_t(o[3])), Port(p)); });
        judge(ctx, q + ":" + std::to_string(p), "Address(Ipv4(a,b,c,d), Port)", r, ob);
        ctx.poll_reports();
    }
}

// ports --------------------------------------------------------------------------------------------------
static void run_port(uint64_t i, vr::Ctx& ctx)
{
    uint64_t np            = gPortTexts.size();
    uint64_t h             = i / np;
    const std::string& p   = gPortTexts[i % np];
    const auto& hostsAll   = gThorough ? gPortHostsAll : gPortHostsFew;
    if (h < hostsAll.size())
    {
        eval_text(ctx, hostsAll[h] + ":" + p, true);
        // (host, Port) form for every representable port number
        if (i % np <= 65535)
            eval_host_port(ctx, hostsAll[h], uint16_t(i % np));
    }
    else
        eval_port_ctor(ctx, p);
}
// the same port inputs while the process-wide C++ locale groups digits ("8,080") - the port given must not depend on it
static void run_port_locale(uint64_t i, vr::Ctx& ctx)
{
    static const char* hosts[] = { "127.0.0.1", "[::1]", "*" };
    vr::ScopedGlobalLocale loc(1 + int(i / 65536 / 3));
    const char* h = hosts[i / 65536 % 3];
    uint16_t p    = uint16_t(i % 65536);
    eval_host_port(ctx, h, p);
    if (p % 7 == 0 || p < 1200 || p > 65000)
        eval_text(ctx, std::string(h) + ":" + std::to_string(p), true);
}
static void run_port_special(uint64_t i, vr::Ctx& ctx)
{
    uint64_t np = gSpecialPorts.size();
    eval_text(ctx, gPortHostsAll[i / np] + ":" + gSpecialPorts[i % np], true);
}

// IPv4 part sequences ---------------------------------------------------------------------------------------
static const char* kParts[] = { "0", "7", "255", "256", "", "01", "0x1", "999" };
static const int kNParts    = 8;
static int gMaxParts        = 5;
static void run_v4forms(uint64_t i, vr::Ctx& ctx)
{
    uint64_t p = kNParts;
    for (int n = 1; n <= gMaxParts; ++n, p *= kNParts)
    {
        if (i < p)
        {
            std::string s;
            uint64_t x = i;
            std::vector<const char*> parts(n);
            for (int k = n - 1; k >= 0; --k)
            {
                parts[k] = kParts[x % kNParts];
                x /= kNParts;
            }
            for (int k = 0; k < n; ++k)
                s += std::string(k ? "." : "") + parts[k];
            eval_text(ctx, s);
            eval_text(ctx, s + ":80");
            eval_host_port(ctx, s, 8080);
            return;
        }
        i -= p;
    }
}
static uint64_t count_v4forms()
{
    uint64_t t = 0, p = kNParts;
    for (int n = 1; n <= gMaxParts; ++n, p *= kNParts)
        t += p;
    return t;
}

// IPv6 shapes -------------------------------------------------------------------------------------------------
static std::vector<std::string> gGroups;
struct Shape
{
    int a, b; // groups before / after "::"; a = 8, b = -1: full form
    uint64_t first, n;
};
static std::vector<Shape> gShapes;
static uint64_t init_shapes()
{
    gGroups = { "0", "1", "ffff" };
    if (gThorough)
        gGroups.push_back("00Ab");
    uint64_t at = 0;
    auto pw     = [](uint64_t b, int e) {
        uint64_t r = 1;
        while (e-- > 0)
            r *= b;
        return r;
    };
    gShapes.push_back({ 8, -1, at, pw(gGroups.size(), 8) });
    at += gShapes.back().n;
    for (int a = 0; a <= 7; ++a)
        for (int b = 0; a + b <= 7; ++b)
        {
            gShapes.push_back({ a, b, at, pw(gGroups.size(), a + b) });
            at += gShapes.back().n;
        }
    // too many groups around "::" (must be rejected): a + b = 8
    for (int a = 0; a <= 8; ++a)
    {
        gShapes.push_back({ a, 8 - a, at, gThorough ? pw(gGroups.size(), 8) : 1 });
        at += gShapes.back().n;
    }
    return at;
}
static void eval_v6(vr::Ctx& ctx, const std::string& t)
{
    eval_text(ctx, "[" + t + "]");
    eval_text(ctx, "[" + t + "]:8080");
    eval_host_port(ctx, "[" + t + "]", 65535);
    eval_text(ctx, t);           // without brackets
    eval_text(ctx, t + ":8080"); // without brackets, with a "port"
}
static void run_v6(uint64_t i, vr::Ctx& ctx)
{
    size_t si = 0;
    while (si + 1 < gShapes.size() && gShapes[si + 1].first <= i)
        ++si;
    const Shape& sh = gShapes[si];
    uint64_t x      = i - sh.first;
    int k           = sh.b < 0 ? 8 : sh.a + sh.b;
    std::vector<std::string> g(k);
    for (int j = k - 1; j >= 0; --j)
    {
        g[j] = gGroups[x % gGroups.size()];
        x /= gGroups.size();
    }
    std::string t;
    if (sh.b < 0)
    {
        for (int j = 0; j < 8; ++j)
            t += std::string(j ? ":" : "") + g[j];
    }
    else
    {
        for (int j = 0; j < sh.a; ++j)
            t += std::string(j ? ":" : "") + g[j];
        t += "::";
        for (int j = 0; j < sh.b; ++j)
            t += std::string(j ? ":" : "") + g[sh.a + j];
    }
    eval_v6(ctx, t);
}

// IPv6 with dotted-quad tail ----------------------------------------------------------------------------------
static std::vector<std::string> gTailPrefixes, gTails;
static void init_tails()
{
    gTailPrefixes = { "::", "::ffff:", "::FFFF:", "1::", "64:ff9b::", "1:2:3:4:5:6:", "0:0:0:0:0:ffff:", "::1:2:3:4:5:", "1:2:3:4:5::", "1:2:3:4:5:6:7:", "::1:2:3:4:5:6:", "1:2:3:4:5:6::", "", ":", "1:" };
    static const int o3[] = { 0, 1, 255 };
    for (int a : o3)
        for (int b : o3)
            for (int c : o3)
                for (int d : o3)
                    gTails.push_back(std::to_string(a) + "." + std::to_string(b) + "." + std::to_string(c) + "." + std::to_string(d));
    for (const char* t : { "1.2.3", "1.2.3.4.5", "256.1.1.1", "1.1.1.256", "01.2.3.4", "1.2.3.04", "1..2.3", ".1.2.3", "1.2.3.", "1.2.3.4:", "1.2.3.4::", "1.2.3.4:5", "0x1.2.3.4", "1.2.3.a", "1.2", "1" })
        gTails.push_back(t);
}
static void run_v6tail(uint64_t i, vr::Ctx& ctx)
{
    eval_v6(ctx, gTailPrefixes[i / gTails.size()] + gTails[i % gTails.size()]);
}

// curated texts and their single edits ------------------------------------------------------------------------
static std::vector<std::string> gEdits;
static void init_edits()
{
    std::vector<std::string> bases = {
        // bracketed IPv6, with and without port
        "[::]", "[::1]", "[1::]", "[::1]:8080", "[::]:0", "[1::]:65535", "[0:0:0:0:0:0:0:0]", "[0:0:0:0:0:0:0:1]:80", "[2001:db8::1]", "[2001:DB8::A]:443",
        "[2001:0db8:85a3:0000:0000:8a2e:0370:7334]", "[2001:db8:85a3::8a2e:370:7334]:9080", "[fe80::1]", "[ff02::1:ff00:1]:1", "[1:2:3:4:5:6:7:8]", "[1:2:3:4:5:6:7::]",
        "[::2:3:4:5:6:7:8]", "[1::8]:8", "[1:2:3:4::5:6:7]", "[::ffff:1.2.3.4]", "[::ffff:1.2.3.4]:80", "[::1.2.3.4]", "[64:ff9b::192.0.2.33]:8080", "[1:2:3:4:5:6:1.2.3.4]",
        // malformed IPv6
        "[1:2:3:4:5:6:7:8:9]", "[1:2:3:4:5:6:7]", "[12345::]", "[g::]", "[:::]", "[::1::]", "[1:::2]", "[:1]", "[1:]", "[]", "[]:80", "[:]", "[fe80::1%eth0]", "[fe80::1%1]:80",
        "[1:2:3:4:5:6:7:1.2.3.4]", "[::ffff:256.1.1.1]", "[1.2.3.4]", "[1.2.3.4]:80", "[1.2.3.4::]", "[ ::1]", "[::1 ]", "[::0x1]", "[::-1]",
        // bracket / colon clutter
        "[::1]80", "[::1]x", "[::1]]", "[::1]]:80", "[::1]x:80", "[::1]:80x", "[::1]::80", "[::1]:", "[::1]:-1", "[::1]:65536", "[::1] :80", "[::1]: 80", "[[::1]]", "[[::1]]:80", "[::1",
        "[::1:80", "::1]", "::1]:80", "]::1[", "][", "[", "]", "x[::1]", "x[::1]:80", " [::1]:80", "1[::1]:80", ":[::1]:80", "[[::1]:80", "][::1]:80", "1::1[abc]", "x::[ab]", ":::[11]",
        "1::1[abc]:80", "::1", "::1:8080", "::", ":::80", "2001:db8::1", "2001:db8::1:80", "1:2:3:4:5:6:7:8", "1:2:3:4:5:6:7:8:80", "::ffff:1.2.3.4", "::ffff:1.2.3.4:80",
        // IPv4 / aliases
        "127.0.0.1", "127.0.0.1:8080", "127.0.0.1:", "0.0.0.0:0", "255.255.255.255:65535", "*", "*:8080", "*:", "localhost", "localhost:8080", "localhost:", "localhost:65536", "*:65536",
        "1.2.3.4.", ".1.2.3.4", "1..3.4", "1.2.3", "1.2.3.4.5", "256.0.0.1", "1.2.3.256:80", "127.0.0.1::80", "127.0.0.1:80:", ":127.0.0.1:80", "127.0.0.1:80:80", "", ":", "::", ":80",
        "127.0.0.1 :80", " 127.0.0.1:80", "127.0.0.1: 80", "127.0.0.1:+80", "127.0.0.1:-80", "127.1", "127.1:80", "1", "1:1", "0x7f.0.0.1", "0177.0.0.1", "2130706433", "01.02.03.04", "**", "*.", "*1", "LOCALHOST", "localhost.", "localhos"
    };
    static const char subs[] = { ':', '0', 'f', 'g', '.', '[', ']', '%', ' ' };
    std::set<std::string> seen;
    auto add = [&](const std::string& s) {
        if (seen.insert(s).second)
            gEdits.push_back(s);
    };
    for (auto& b : bases)
        add(b);
    for (auto& b : bases)
    {
        for (size_t i = 0; i < b.size(); ++i)
        {
            std::string s = b;
            s.erase(i, 1);
            add(s);
            for (char c : subs)
                if (b[i] != c)
                {
                    s    = b;
                    s[i] = c;
                    add(s);
                }
        }
        for (size_t i = 0; i <= b.size(); ++i)
            for (char c : subs)
            {
                std::string s = b;
                s.insert(i, 1, c);
                add(s);
            }
    }
}
static void run_edit(uint64_t i, vr::Ctx& ctx)
{
    const std::string& s = gEdits[i];
    eval_text(ctx, s, true);
    eval_host_port(ctx, s, 80);
}

// clutter -----------------------------------------------------------------------------------------------------
static const char kClutter[] = { '[', ']', ':', '1', '.', 'a' };
static const int kNClutter   = 6;
static int gClutterLen       = 7;
static void run_clutter(uint64_t i, vr::Ctx& ctx)
{
    uint64_t p = 1;
    for (int l = 0; l <= gClutterLen; ++l, p *= kNClutter)
    {
        if (i < p)
        {
            std::string s(l, '?');
            for (int k = l - 1; k >= 0; --k)
            {
                s[k] = kClutter[i % kNClutter];
                i /= kNClutter;
            }
            eval_text(ctx, s);
            if (l < gClutterLen) // (host, Port) appends ":<port>": keep the total within the same bound
                eval_host_port(ctx, s, 80);
            return;
        }
        i -= p;
    }
}
static uint64_t count_clutter()
{
    uint64_t t = 0, p = 1;
    for (int l = 0; l <= gClutterLen; ++l, p *= kNClutter)
        t += p;
    return t;
}

// Address(Ipv6(g0..g7), Port) ------------------------------------------------------------------------------------
static void run_ipctor(uint64_t i, vr::Ctx& ctx)
{
    static const uint16_t gv[] = { 0, 1, 0xffff, 0x0db8 };
    const int ng               = gThorough ? 4 : 3;
    uint16_t g[8];
    for (int k = 7; k >= 0; --k)
    {
        g[k] = gv[i % ng];
        i /= ng;
    }
    char buf[64];
    snprintf(buf, sizeof buf, "[%x:%x:%x:%x:%x:%x:%x:%x]:8080", g[0], g[1], g[2], g[3], g[4], g[5], g[6], g[7]);
    ctx.note(std::string("Address(Ipv6,Port) ") + buf);
    ref::Addr r = ref::address(buf);
    Obs o       = observe([&] { return Address(Ipv6(g[0], g[1], g[2], g[3], g[4], g[5], g[6], g[7]), Port(8080)); });
    judge(ctx, buf, "Address(Ipv6(g0..g7), Port)", r, o);
    ctx.poll_reports();
}

static void add_section(const std::string& name, uint64_t n, std::function<void(uint64_t, vr::Ctx&)> run, uint64_t block = kBlk)
{
    Section s { name, n, std::move(run), block };
    s.firstCase = gSecs.empty() ? 0 : gSecs.back().firstCase + gSecs.back().cases;
    s.cases     = (n + block - 1) / block;
    gSecs.push_back(std::move(s));
}

int main(int argc, char** argv)
{
    vr::Options opt = vr::parse_args(argc, argv);
    gThorough       = opt.geti("thorough", 0) != 0;
    gClutterLen     = int(opt.geti("clutter", gThorough ? 8 : 7));
    gMaxParts       = int(opt.geti("parts", gThorough ? 6 : 5));
    init_ports();
    init_tails();
    init_edits();
    uint64_t nv6 = init_shapes();

    add_section("quads", 20736, run_quad, 32);
    add_section("ports", ((gThorough ? gPortHostsAll.size() : gPortHostsFew.size()) + 1) * gPortTexts.size(), run_port);
    add_section("ports-locale", 2 * 3 * 65536, run_port_locale);
    add_section("ports-special", gPortHostsAll.size() * gSpecialPorts.size(), run_port_special, 64);
    add_section("v4forms", count_v4forms(), run_v4forms);
    add_section("v6", nv6, run_v6, 128);
    add_section("v6tail", gTailPrefixes.size() * gTails.size(), run_v6tail, 64);
    add_section("v6edit", gEdits.size(), run_edit);
    add_section("clutter", count_clutter(), run_clutter, 512);
    add_section("ipctor", gThorough ? 65536 : 6561, run_ipctor);
    uint64_t total = gSecs.back().firstCase + gSecs.back().cases;

    if (opt.geti("describe", 0))
    {
        for (auto& s : gSecs)
            printf("%-14s inputs=%" PRIu64 " cases=[%" PRIu64 ",%" PRIu64 ")\n", s.name.c_str(), s.n, s.firstCase, s.firstCase + s.cases);
        return 0;
    }

    return vr::run(opt, total, [](uint64_t idx, vr::Ctx& ctx) {
        ctx.count("executions", 1);
        for (auto& s : gSecs)
            if (idx < s.firstCase + s.cases)
            {
                uint64_t b = idx - s.firstCase;
                for (uint64_t i = b * s.block; i < (b + 1) * s.block && i < s.n; ++i)
                    s.run(i, ctx);
                ctx.count(("inputs:" + s.name).c_str(), std::min(s.block, s.n - b * s.block));
                break;
            }
    });
}
