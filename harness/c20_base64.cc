// C20: Base64 and Basic credentials round-trip for every byte string.
//
// Bounded-exhaustive enumeration against the real Base64Encoder / Base64Decoder (include/pistache/base64.h,
// src/common/base64.cc) and Http::Header::Authorization (set/getBasicUser/getBasicPassword). No sampling:
//
//   short     every byte string of length 0..2 (65 793)
//   triples   every byte string of length 3 (16 777 216); quads: every 4-character text over the 64 alphabet characters,
//             '=' and '!' (18 974 736) through the decoder against the strict reference
//   boundary  every string of length 3..4 (thorough: ..5) over the 16 byte values
//             {00 01 3e 3f 40 7f 80 bf c0 fb fc fe ff ':' 'A' '='}
//   long      for every length 0..300 (thorough: 0..1200): b^n for all 256 byte values b, and two rolling
//             patterns (so every length modulo 3 meets every byte value in every position class)
//   cred      user names: every byte string of length <= 1 without ':', every printable non-colon string of
//             length 2, length 3 over a 12-character subset x 17 passwords (empty, with ':' in every position,
//             NUL, bytes >= 0x80, long); plus user names with ':' (refused by the setter); thorough: also all
//             94^3 printable user names of length 3 x 4 passwords of length 0..3
//   rekey     one Authorization object: set or parse credentials A, read, set credentials B, read (8 x 8 pairs)
//   invalid   every string of length <= 6 (thorough: 7) over {A b 9 + / = ! 0x80}: through the decoder and
//             through an Authorization header carrying it as Basic credentials
//   damaged   for every length 0..300: the valid encoding with one character replaced at the first, a middle
//             and each of the last four positions by '=', '!', 0x80, NUL; truncated by 1..3; one character
//             appended ("non-Base64 text of any length")
//
// Reference: own RFC 4648 section 4 encoder and strict decoder (alphabet table, '=' padding, canonical zero
// pad bits), nothing shared with pistache.
// Oracles: Encode() / EncodeString() text identical to the reference text and of the announced size;
// Decode(reference text) == original bytes, CalculateDecodedSize() == original length;
// get(set(user, password)) == (user, password) and the header text is "Basic " + reference encoding;
// text that is not valid Base64: an exception or a result, the same on a second run, and for every input no
// ASan / UBSan report. Texts handed to the decoder live in a heap std::string whose bytes after the
// terminating NUL are poisoned, byte vectors have exact capacity, so a read outside the input is a report.
// What an invalid text decodes to (the decoder takes the leading decodable run and ignores the rest) is
// not judged: the property allows "an error or a clean decode".
//
// Counters: executions = runner cases (blocks); evaluations = inputs judged; transitions = calls into
// pistache. states = distinct results (encoded text / decoded bytes / exception). non-trivial inputs = all but
// byte strings whose length is a multiple of 3 with every byte in 0x01..0x7f (no padding, no sign /
// NUL issue), i.e. padded lengths, bytes >= 0x80 or NUL, credentials, invalid and damaged texts.
#include "common/runner.h"

#include <pistache/base64.h>
#include <pistache/http_header.h>

#include <sanitizer/asan_interface.h>

using namespace Pistache;

// ---- reference (RFC 4648 section 4) -----------------------------------------------------------------------
namespace ref
{
    static const char kTable[65] = "ABCDEFGHIJKLMNOPQRSTUVWXYZabcdefghijklmnopqrstuvwxyz0123456789+/";

    static std::string encode(const std::string& in)
    {
        std::string out;
        size_t i = 0;
        for (; i + 3 <= in.size(); i += 3)
        {
            uint32_t v = uint32_t(uint8_t(in[i])) << 16 | uint32_t(uint8_t(in[i + 1])) << 8 | uint8_t(in[i + 2]);
            out += kTable[v >> 18 & 63];
            out += kTable[v >> 12 & 63];
            out += kTable[v >> 6 & 63];
            out += kTable[v & 63];
        }
        size_t rem = in.size() - i;
        if (rem == 1)
        {
            uint32_t v = uint32_t(uint8_t(in[i])) << 16;
            out += kTable[v >> 18 & 63];
            out += kTable[v >> 12 & 63];
            out += "==";
        }
        else if (rem == 2)
        {
            uint32_t v = uint32_t(uint8_t(in[i])) << 16 | uint32_t(uint8_t(in[i + 1])) << 8;
            out += kTable[v >> 18 & 63];
            out += kTable[v >> 12 & 63];
            out += kTable[v >> 6 & 63];
            out += '=';
        }
        return out;
    }

    static int sextet(unsigned char c)
    {
        for (int k = 0; k < 64; ++k)
            if (kTable[k] == char(c))
                return k;
        return -1;
    }

    // strict: length multiple of 4, alphabet only, padding only in the last quantum, pad bits zero
    static bool decode(const std::string& in, std::string& out)
    {
        out.clear();
        if (in.size() % 4 != 0)
            return false;
        for (size_t i = 0; i < in.size(); i += 4)
        {
            bool last = i + 4 == in.size();
            int a = sextet(in[i]), b = sextet(in[i + 1]), c = sextet(in[i + 2]), d = sextet(in[i + 3]);
            if (a < 0 || b < 0)
                return false;
            if (c >= 0 && d >= 0)
            {
                uint32_t v = uint32_t(a) << 18 | uint32_t(b) << 12 | uint32_t(c) << 6 | uint32_t(d);
                out += char(v >> 16);
                out += char(v >> 8 & 255);
                out += char(v & 255);
            }
            else if (last && in[i + 2] == '=' && in[i + 3] == '=')
            {
                if (b & 15)
                    return false;
                out += char(a << 2 | b >> 4);
            }
            else if (last && c >= 0 && in[i + 3] == '=')
            {
                if (c & 3)
                    return false;
                out += char(a << 2 | b >> 4);
                out += char((b & 15) << 4 | c >> 2);
            }
            else
                return false;
        }
        return true;
    }
} // namespace ref

// ---- helpers ------------------------------------------------------------------------------------------------
static std::map<std::string, int> gSigCount; // per worker process: one defect = one signature, few log lines
static void violate(vr::Ctx& ctx, const std::string& sig, const std::string& detail)
{
    if (++gSigCount[sig] <= 3 || ctx.verbose)
        ctx.violation(sig, detail);
    else
        ctx.count("violations_not_logged", 1);
}

// a std::string on the heap whose storage after the terminating NUL is poisoned (covers the unused part of
// the small-string buffer; longer strings get capacity == size, followed by the allocator's red zone)
struct GuardedString
{
    std::string* s;
    const char* p = nullptr;
    size_t n      = 0;
    explicit GuardedString(const std::string& bytes)
    {
        s = new std::string(bytes.data(), bytes.size());
        if (s->capacity() > s->size())
        {
            p = s->data() + s->size() + 1;
            n = s->capacity() - s->size();
            ASAN_POISON_MEMORY_REGION(p, n);
        }
    }
    ~GuardedString()
    {
        if (n)
            ASAN_UNPOISON_MEMORY_REGION(p, n);
        delete s;
    }
    GuardedString(const GuardedString&) = delete;
    GuardedString& operator=(const GuardedString&) = delete;
};

static std::string bytes_of(const std::vector<std::byte>& v)
{
    std::string s;
    s.reserve(v.size());
    for (std::byte b : v)
        s += char(b);
    return s;
}

static std::string dj(const std::string& k, const std::string& v) { return vr::jstr(k) + ":" + vr::jstr(vr::show(v)); }
static std::string short_show(const std::string& s) { return s.size() <= 96 ? s : s.substr(0, 48) + "..." + s.substr(s.size() - 40) + " (" + std::to_string(s.size()) + " bytes)"; }

struct Decoded
{
    bool ok = false;
    std::string bytes, exc;
    size_t announced = size_t(-1);
    uint64_t hash() const { return ok ? vr::hash_str(bytes, 31) : vr::hash_str(exc, 37); }
    std::string str() const { return ok ? "decoded " + std::to_string(bytes.size()) + " bytes: " + short_show(bytes) : "rejected:" + exc; }
};

static Decoded run_decoder(const std::string& text)
{
    Decoded d;
    GuardedString g(text);
    try
    {
        Base64Decoder dec(*g.s);
        d.bytes = bytes_of(dec.Decode());
        d.ok    = true;
        if (bytes_of(dec.GetRawDecodedData()) != d.bytes)
            d.exc = "GetRawDecodedData differs";
        d.announced = dec.CalculateDecodedSize();
    }
    catch (const std::out_of_range&)
    {
        d.exc = "std::out_of_range";
    }
    catch (const std::runtime_error&)
    {
        d.exc = "std::runtime_error";
    }
    catch (const std::exception&)
    {
        d.exc = "std::exception";
    }
    catch (...)
    {
        d.exc = "unknown-exception";
    }
    return d;
}

static bool trivial_bytes(const std::string& x)
{
    if (x.size() % 3)
        return false;
    for (unsigned char c : x)
        if (c == 0 || c >= 0x80)
            return false;
    return true;
}

// ---- oracle 1: encode / decode of a byte string ---------------------------------------------------------------
static void eval_bytes(vr::Ctx& ctx, const std::string& x)
{
    ctx.note("bytes len=" + std::to_string(x.size()) + " x=" + vr::show(short_show(x)));
    const std::string want = ref::encode(x);
    const std::string mod  = "len%3==" + std::to_string(x.size() % 3);
    std::string d0         = "{" + dj("bytes", short_show(x)) + ",\"length\":" + std::to_string(x.size()) + "," + dj("expected_text", short_show(want));

    // Encoder over an exact-size byte vector
    std::string got1, got2;
    {
        std::vector<std::byte> raw(x.size());
        for (size_t i = 0; i < x.size(); ++i)
            raw[i] = std::byte(uint8_t(x[i]));
        raw.shrink_to_fit();
        Base64Encoder enc(raw);
        got1 = enc.Encode();
        if (enc.GetBase64EncodedString() != got1)
            violate(ctx, "c20:encode-differs:accessor", d0 + "," + dj("Encode", short_show(got1)) + "," + dj("GetBase64EncodedString", short_show(enc.GetBase64EncodedString())) + "}");
    }
    {
        GuardedString g(x);
        got2 = Base64Encoder::EncodeString(*g.s);
    }
    size_t announced = Base64Encoder::CalculateEncodedSize(x.size());
    ctx.count("transitions", 4);
    if (got1 != want)
        violate(ctx, "c20:encode-differs:" + mod, d0 + "," + dj("api", "Base64Encoder::Encode") + "," + dj("observed_text", short_show(got1)) + "}");
    if (got2 != want)
        violate(ctx, "c20:encode-differs:" + mod, d0 + "," + dj("api", "Base64Encoder::EncodeString") + "," + dj("observed_text", short_show(got2)) + "}");
    if (announced != want.size())
        violate(ctx, "c20:encoded-size-differs:" + mod, d0 + ",\"CalculateEncodedSize\":" + std::to_string(announced) + ",\"expected\":" + std::to_string(want.size()) + "}");

    // Decoder on the reference text (not on pistache's own output: a symmetric error must not cancel out)
    Decoded d = run_decoder(want);
    ctx.count("transitions", 3);
    if (!d.ok)
        violate(ctx, "c20:decode-rejects-valid:" + mod, d0 + "," + dj("observed", d.str()) + "}");
    else
    {
        if (d.bytes != x)
            violate(ctx, "c20:decode-differs:" + mod, d0 + "," + dj("observed", d.str()) + "}");
        if (d.announced != x.size())
            violate(ctx, "c20:decoded-size-differs:" + mod, d0 + ",\"CalculateDecodedSize\":" + std::to_string(d.announced) + "}");
        if (!d.exc.empty())
            violate(ctx, "c20:decode-differs:accessor", d0 + "," + dj("observed", d.exc) + "}");
    }
    ctx.count("evaluations", 1);
    ctx.state(vr::hash_str(got1, 41) ^ d.hash());
    if (!trivial_bytes(x))
        ctx.nontrivial(vr::hash_str(x, 43));
    ctx.outcome("bytes " + mod + (x.find_first_of(std::string("\0", 1)) != std::string::npos ? " with-NUL" : "") + " -> encode " + (got1 == want ? "canonical" : "DIFFERS") + ", decode " + (d.ok ? (d.bytes == x ? "round-trips" : "DIFFERS") : "rejected:" + d.exc));
    ctx.poll_reports();
}

// ---- oracle 2: credentials ------------------------------------------------------------------------------------
static void eval_cred(vr::Ctx& ctx, const std::string& user, const std::string& pass)
{
    ctx.note("cred user=" + vr::show(user) + " password=" + vr::show(short_show(pass)));
    std::string d0   = "{" + dj("user", user) + "," + dj("password", short_show(pass));
    bool colon       = user.find(':') != std::string::npos;
    std::string what = colon ? "user-with-colon" : "user";
    std::string res;
    try
    {
        Http::Header::Authorization a;
        a.setBasicUserPassword(user, pass);
        ctx.count("transitions", 1);
        if (colon)
        {
            // the setter documents that it refuses such a name; accepting it would make the pair ambiguous
            violate(ctx, "c20:credentials:user-with-colon-accepted", d0 + "," + dj("header", a.value()) + "}");
            res = "accepted";
        }
        else
        {
            std::string want = "Basic " + ref::encode(user + ":" + pass);
            if (a.value() != want)
                violate(ctx, "c20:credentials:header-text-differs", d0 + "," + dj("expected", short_show(want)) + "," + dj("observed", short_show(a.value())) + "}");
            if (!a.hasMethod<Http::Header::Authorization::Method::Basic>() || a.getMethod() != Http::Header::Authorization::Method::Basic)
                violate(ctx, "c20:credentials:method-not-basic", d0 + "," + dj("observed", a.value()) + "}");
            std::string u = a.getBasicUser(), p = a.getBasicPassword();
            ctx.count("transitions", 4);
            if (u != user)
                violate(ctx, "c20:credentials:user-differs", d0 + "," + dj("observed_user", u) + "," + dj("header", short_show(a.value())) + "}");
            if (p != pass)
                violate(ctx, "c20:credentials:password-differs", d0 + "," + dj("observed_password", short_show(p)) + "," + dj("header", short_show(a.value())) + "}");
            // the same through a header that was parsed from text (what a server sees)
            Http::Header::Authorization b;
            b.parse(want);
            if (b.getBasicUser() != user || b.getBasicPassword() != pass)
                violate(ctx, "c20:credentials:parsed-header-differs", d0 + "," + dj("header", short_show(want)) + "," + dj("observed_user", b.getBasicUser()) + "," + dj("observed_password", short_show(b.getBasicPassword())) + "}");
            ctx.count("transitions", 3);
            res = (u == user && p == pass) ? "round-trips" : "DIFFERS";
            ctx.state(vr::hash_str(a.value(), 47));
        }
    }
    catch (const std::runtime_error& e)
    {
        res = "rejected:std::runtime_error";
        if (!colon)
            violate(ctx, "c20:credentials:throws", d0 + "," + dj("exception", std::string("std::runtime_error: ") + e.what()) + "}");
    }
    catch (const std::exception& e)
    {
        res = "rejected:std::exception";
        violate(ctx, "c20:credentials:throws", d0 + "," + dj("exception", e.what()) + "}");
    }
    ctx.count("evaluations", 1);
    ctx.nontrivial(vr::hash_str(user + ":" + pass, 53));
    ctx.outcome("credentials " + what + (user.empty() ? " (empty)" : "") + (pass.empty() ? ", empty password" : pass.find(':') != std::string::npos ? ", password with colon" : ", password") + " -> " + res);
    ctx.poll_reports();
}

// ---- oracle 3: text that need not be valid Base64 -------------------------------------------------------------
static void eval_text(vr::Ctx& ctx, const std::string& text, const char* sec)
{
    ctx.note(std::string(sec) + " text=" + vr::show(short_show(text)));
    std::string d0 = "{" + dj("text", short_show(text)) + ",\"length\":" + std::to_string(text.size());
    std::string strict;
    bool valid = ref::decode(text, strict);
    Decoded a = run_decoder(text), b = run_decoder(text);
    ctx.count("transitions", 6);
    if (a.ok != b.ok || a.bytes != b.bytes || a.exc != b.exc)
        violate(ctx, "c20:invalid:result-not-repeatable", d0 + "," + dj("first", a.str()) + "," + dj("second", b.str()) + "}");
    if (valid)
    {
        if (!a.ok)
            violate(ctx, "c20:decode-rejects-valid:text", d0 + "," + dj("observed", a.str()) + "}");
        else if (a.bytes != strict)
            violate(ctx, "c20:decode-differs:text", d0 + "," + dj("expected", short_show(strict)) + "," + dj("observed", a.str()) + "}");
    }
    else if (a.ok && a.bytes.size() > text.size() / 4 * 3 + 2)
        violate(ctx, "c20:invalid:decoded-more-than-the-input-holds", d0 + "," + dj("observed", a.str()) + "}");
    // the same text as Basic credentials of a received header
    std::string viaHeader;
    {
        Http::Header::Authorization h;
        h.parse("Basic " + text);
        std::string r1, r2;
        for (int k = 0; k < 2; ++k)
        {
            std::string& r = k ? r2 : r1;
            try
            {
                std::string u = h.getBasicUser(), p = h.getBasicPassword();
                r             = "user=" + u + " password=" + p;
            }
            catch (const std::out_of_range&)
            {
                r = "rejected:std::out_of_range";
            }
            catch (const std::runtime_error&)
            {
                r = "rejected:std::runtime_error";
            }
            catch (const std::exception&)
            {
                r = "rejected:std::exception";
            }
        }
        ctx.count("transitions", 5);
        if (r1 != r2)
            violate(ctx, "c20:invalid:result-not-repeatable", d0 + "," + dj("first", r1) + "," + dj("second", r2) + ",\"api\":\"Authorization\"}");
        if (valid && !text.empty())
        {
            size_t c         = strict.find(':');
            std::string want = c == std::string::npos ? "user= password=" : "user=" + strict.substr(0, c) + " password=" + strict.substr(c + 1);
            if (r1 != want)
                violate(ctx, "c20:credentials:parsed-header-differs", d0 + "," + dj("expected", want) + "," + dj("observed", r1) + "}");
        }
        viaHeader = r1.compare(0, 9, "rejected:") == 0 ? r1 : "result";
    }
    ctx.count("evaluations", 1);
    ctx.state(a.hash());
    ctx.nontrivial(vr::hash_str(text, 59));
    std::string shape = valid ? "valid text" : text.size() % 4 ? "invalid text len%4!=0" : "invalid text len%4==0";
    ctx.outcome(std::string(sec) + " " + shape + " -> decoder " + (a.ok ? (valid ? "decoded" : a.bytes.empty() ? "decoded to nothing" : "decoded leading part") : "rejected:" + a.exc) + ", header " + viaHeader);
    if (ctx.nsamples < ctx.max_samples && !valid && a.ok && ctx.idx % 5 == 0)
        ctx.sample("{" + dj("text", short_show(text)) + "," + dj("decoder", a.str()) + "}");
    ctx.poll_reports();
}

// ---- case space -----------------------------------------------------------------------------------------------
static bool gThorough = false;
static int gMaxLen    = 300;
static int gBoundaryLen = 4, gInvalidLen = 6;

struct Section
{
    std::string name;
    uint64_t n;
    std::function<void(uint64_t, vr::Ctx&)> run;
    uint64_t block;
    uint64_t firstCase = 0, cases = 0;
};
static std::vector<Section> gSecs;
static void add_section(const std::string& name, uint64_t n, std::function<void(uint64_t, vr::Ctx&)> run, uint64_t block)
{
    Section s { name, n, std::move(run), block };
    s.firstCase = gSecs.empty() ? 0 : gSecs.back().firstCase + gSecs.back().cases;
    s.cases     = (n + block - 1) / block;
    gSecs.push_back(std::move(s));
}

// idx -> string over alpha, lengths lo..hi, shortest first
static std::string nth_string(uint64_t i, const unsigned char* alpha, uint64_t a, int lo, int hi)
{
    uint64_t p = 1;
    for (int l = 0; l < lo; ++l)
        p *= a;
    for (int l = lo; l <= hi; ++l, p *= a)
    {
        if (i < p)
        {
            std::string s(l, '\0');
            for (int k = l - 1; k >= 0; --k)
            {
                s[k] = char(alpha[i % a]);
                i /= a;
            }
            return s;
        }
        i -= p;
    }
    return std::string();
}
static uint64_t count_strings(uint64_t a, int lo, int hi)
{
    uint64_t p = 1, t = 0;
    for (int l = 0; l <= hi; ++l, p *= a)
        if (l >= lo)
            t += p;
    return t;
}

static unsigned char kAll[256];
static const unsigned char kBoundary[16] = { 0x00, 0x01, 0x3e, 0x3f, 0x40, 0x7f, 0x80, 0xbf, 0xc0, 0xfb, 0xfc, 0xfe, 0xff, ':', 'A', '=' };
static const unsigned char kInvalid[8]   = { 'A', 'b', '9', '+', '/', '=', '!', 0x80 };

static void run_short(uint64_t i, vr::Ctx& ctx) { eval_bytes(ctx, nth_string(i, kAll, 256, 0, 2)); }
static void run_boundary(uint64_t i, vr::Ctx& ctx) { eval_bytes(ctx, nth_string(i, kBoundary, 16, 3, gBoundaryLen)); }
// lean exhaustive families (round 6): the full report is produced by eval_bytes / eval_text on the first disagreement only
static void run_triples(uint64_t i, vr::Ctx& ctx)
{
    std::string x(3, '\0');
    x[0] = char(i >> 16), x[1] = char(i >> 8 & 255), x[2] = char(i & 255);
    const std::string want = ref::encode(x);
    bool okay              = false;
    {
        GuardedString g(x);
        okay = Base64Encoder::EncodeString(*g.s) == want && Base64Encoder::CalculateEncodedSize(3) == 4;
    }
    if (okay)
    {
        Decoded d = run_decoder(want);
        okay      = d.ok && d.bytes == x && d.exc.empty() && d.announced == 3;
    }
    ctx.count("transitions", 5);
    if (!okay)
        eval_bytes(ctx, x);
    else
    {
        ctx.count("evaluations", 1);
        if ((i & 4095) == 0)
        {
            ctx.note("triples from " + std::to_string(i));
            ctx.poll_reports();
        }
    }
}
static unsigned char kQuad[66];
static void run_quads(uint64_t i, vr::Ctx& ctx)
{
    std::string t(4, '\0');
    uint64_t k = i;
    for (int p = 3; p >= 0; --p, k /= 66)
        t[p] = char(kQuad[k % 66]);
    std::string strict;
    bool valid = ref::decode(t, strict);
    Decoded a  = run_decoder(t);
    ctx.count("transitions", 3);
    bool okay = valid ? (a.ok && a.bytes == strict && a.exc.empty()) : (!a.ok || a.bytes.size() <= 3);
    if (!okay)
        eval_text(ctx, t, "quad");
    else
    {
        ctx.count("evaluations", 1);
        if ((i & 4095) == 0)
        {
            ctx.note("quads from " + std::to_string(i));
            ctx.state(a.hash());
            ctx.outcome(std::string("quad ") + (valid ? "valid text -> decoded" : a.ok ? "invalid text -> decoded leniently" : "invalid text -> rejected:" + a.exc));
            ctx.poll_reports();
        }
    }
}
static void run_long(uint64_t i, vr::Ctx& ctx)
{
    size_t n = i / 258;
    int pat  = int(i % 258);
    std::string x(n, '\0');
    if (pat < 256)
        x.assign(n, char(pat));
    else if (pat == 256)
        for (size_t k = 0; k < n; ++k)
            x[k] = char(k & 255); // 0,1,2,...
    else
        for (size_t k = 0; k < n; ++k)
            x[k] = char((255 - k * 7 + n * 13) & 255); // descending stride, offset by the length
    eval_bytes(ctx, x);
}

// credentials
static std::vector<std::string> gUsers, gPasswords;
static std::vector<char> gPrintable;
static void init_cred()
{
    gUsers.push_back("");
    for (int c = 0; c < 256; ++c)
        if (c != ':')
            gUsers.push_back(std::string(1, char(c)));
    std::vector<char> printable;
    for (int c = 0x20; c <= 0x7e; ++c)
        if (c != ':')
            printable.push_back(char(c));
    for (char a : printable)
        for (char b : printable)
            gUsers.push_back(std::string() + a + b);
    gPrintable              = printable;
    std::vector<char> three = { 'a', 'Z', '0', '~', '!', ' ', '@', '/', '+', '=', '.', '-' };
    for (char a : three)
        for (char b : three)
            for (char c : three)
                gUsers.push_back(std::string() + a + b + c);
    for (const char* u : { "Aladdin", "user@example.com", "a-rather-long-user-name-0123456789", "\xc3\xa9\xc3\xa0", ":", "a:", ":a", "a:b", "::" })
        gUsers.push_back(u);
    gPasswords = { "", ":", "p", "pw", "pwd", "pass", "::", "a:b", ":x", "x:", std::string("p\0w", 3), std::string("\0", 1), "\x80\xff", "open sesame", "QUJD", "====",
                   "a-long-password-with-every-kind-of-byte-\x01\x7f\x80\xfe\xff-and-a-colon-:-in-it" };
}
static void run_cred(uint64_t i, vr::Ctx& ctx) { eval_cred(ctx, gUsers[i / gPasswords.size()], gPasswords[i % gPasswords.size()]); }
// thorough: every printable non-colon user name of length 3 x passwords of length 0, 1, 2, 3 (every alignment)
static void run_cred3(uint64_t i, vr::Ctx& ctx)
{
    static const std::string pw[4] = { "", "p", "\x80\xff", "a:b" };
    const uint64_t n               = gPrintable.size();
    uint64_t u                     = i / 4;
    std::string user;
    user += gPrintable[u / (n * n)];
    user += gPrintable[u / n % n];
    user += gPrintable[u % n];
    eval_cred(ctx, user, pw[i % 4]);
}

// one header object used for two credentials in a row: what is read back is the pair set last
static void run_rekey(uint64_t i, vr::Ctx& ctx)
{
    static const std::pair<const char*, const char*> kPairs[] = { { "alice", "wonderland" }, { "bob", "s3cret:with:colons" }, { "a", "" }, { "Aladdin", "open sesame" },
                                                                  { "x", "y" }, { "user-with-a-long-name", "p" }, { "u", "\xff\xfe" }, { "", "only-password" } };
    const int n = sizeof kPairs / sizeof kPairs[0];
    auto& A = kPairs[i / n % n];
    auto& B = kPairs[i % n];
    int how = int(i / (n * n)); // 0: set A, 1: parse A
    Http::Header::Authorization h;
    std::string what = std::string(how ? "parse" : "set") + "(" + A.first + "," + short_show(A.second) + "); get; set(" + B.first + "," + short_show(B.second) + "); get";
    ctx.note("rekey " + what);
    std::string r;
    try
    {
        if (how == 0)
            h.setBasicUserPassword(A.first, A.second);
        else
            h.parse("Basic " + ref::encode(std::string(A.first) + ":" + A.second));
        std::string u1 = h.getBasicUser(), p1 = h.getBasicPassword();
        if (u1 != A.first || p1 != A.second)
            violate(ctx, "c20:credentials:first-read-differs", "{" + dj("sequence", what) + "," + dj("observed_user", u1) + "}");
        h.setBasicUserPassword(B.first, B.second);
        std::string u2 = h.getBasicUser(), p2 = h.getBasicPassword();
        if (u2 != B.first || p2 != B.second)
            violate(ctx, "c20:credentials:read-after-a-second-set-returns-the-earlier-pair", "{" + dj("sequence", what) + "," + dj("observed_user", u2) + "," + dj("observed_password", short_show(p2)) + "}");
        r = "ok";
    }
    catch (const std::exception& e)
    {
        violate(ctx, "c20:credentials:rekey-threw", "{" + dj("sequence", what) + "," + dj("what", e.what()) + "}");
        r = "threw";
    }
    ctx.count("evaluations", 1);
    ctx.count("transitions", 6);
    ctx.nontrivial(vr::hash_str(what, 61));
    ctx.outcome("rekey " + r);
    ctx.poll_reports();
}

static void run_invalid(uint64_t i, vr::Ctx& ctx) { eval_text(ctx, nth_string(i, kInvalid, 8, 0, gInvalidLen), "invalid"); }

// damaged encodings: one runner case = one length
static void run_damaged(uint64_t n, vr::Ctx& ctx)
{
    std::string x(n, '\0');
    for (size_t k = 0; k < n; ++k)
        x[k] = char((k * 31 + n) & 255);
    const std::string good = ref::encode(x);
    static const char repl[] = { '=', '!', char(0x80), '\0' };
    std::set<size_t> pos;
    if (!good.empty())
    {
        pos.insert(0);
        pos.insert(good.size() / 2);
        for (size_t k = 1; k <= 4 && k <= good.size(); ++k)
            pos.insert(good.size() - k);
    }
    eval_text(ctx, good, "damaged");
    for (size_t p : pos)
        for (char c : repl)
            if (good[p] != c)
            {
                std::string t = good;
                t[p]          = c;
                eval_text(ctx, t, "damaged");
            }
    for (size_t cut = 1; cut <= 3 && cut <= good.size(); ++cut)
        eval_text(ctx, good.substr(0, good.size() - cut), "damaged");
    for (char c : { 'A', '=', '!', '\0' })
        eval_text(ctx, good + c, "damaged");
    // nothing but padding, of every length (long ones live on the heap: stepping back over the padding must stop at
    // the beginning of the text)
    eval_text(ctx, std::string(n, '='), "damaged");
    // padding where data is expected: a whole quantum of '=' in front / in the middle
    eval_text(ctx, "====" + good, "damaged");
    eval_text(ctx, good.substr(0, good.size() / 8 * 4) + "A===" + good.substr(good.size() / 8 * 4), "damaged");
}

int main(int argc, char** argv)
{
    vr::Options opt = vr::parse_args(argc, argv);
    gThorough       = opt.geti("thorough", 0) != 0;
    gMaxLen         = int(opt.geti("maxlen", gThorough ? 1200 : 300));
    gBoundaryLen    = int(opt.geti("boundary", gThorough ? 5 : 4));
    gInvalidLen     = int(opt.geti("invalid", gThorough ? 7 : 6));
    for (int c = 0; c < 256; ++c)
        kAll[c] = (unsigned char)c;
    init_cred();

    add_section("short", count_strings(256, 0, 2), run_short, 512);
    add_section("boundary", count_strings(16, 3, gBoundaryLen), run_boundary, 512);
    memcpy(kQuad, ref::kTable, 64);
    kQuad[64] = '=', kQuad[65] = '!';
    add_section("triples", 1u << 24, run_triples, 1u << 15);           // every byte string of length 3
    add_section("quads", uint64_t(66) * 66 * 66 * 66, run_quads, 1u << 15); // every 4-character text over the Base64 alphabet, '=' and '!'
    add_section("long", uint64_t(gMaxLen + 1) * 258, run_long, 86);
    add_section("cred", gUsers.size() * gPasswords.size(), run_cred, 17 * 32);
    if (gThorough)
        add_section("cred3", uint64_t(gPrintable.size()) * gPrintable.size() * gPrintable.size() * 4, run_cred3, 512);
    add_section("rekey", 2 * 8 * 8, run_rekey, 64);
    add_section("invalid", count_strings(8, 0, gInvalidLen), run_invalid, 512);
    add_section("damaged", uint64_t(gMaxLen + 1), run_damaged, 1);
    uint64_t total = gSecs.back().firstCase + gSecs.back().cases;

    if (opt.geti("describe", 0))
    {
        for (auto& s : gSecs)
            printf("%-10s inputs=%" PRIu64 " cases=[%" PRIu64 ",%" PRIu64 ")\n", s.name.c_str(), s.n, s.firstCase, s.firstCase + s.cases);
        return 0;
    }

    return vr::run(opt, total, [](uint64_t idx, vr::Ctx& ctx) {
        ctx.count("executions", 1);
        for (auto& s : gSecs)
            if (idx < s.firstCase + s.cases)
            {
                uint64_t b = idx - s.firstCase;
                for (uint64_t i = b * s.block; i < (b + 1) * s.block && i < s.n; ++i)
                    s.run(i, ctx);
                ctx.count(("inputs:" + s.name).c_str(), std::min(s.block, s.n - b * s.block));
                break;
            }
    });
}
