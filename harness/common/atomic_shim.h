// Scheduling points at the level of the memory operations themselves, independent of source hooks:
// a drop-in replacement for std::atomic whose every operation first yields to the cooperative scheduler.
// Usage, in a harness translation unit, BEFORE the pistache header under test is first included:
//
//     #include "common/atomic_shim.h"      // pulls in the standard headers the pistache header needs
//     #define atomic verif_atomic
//     #include <pistache/mailbox.h>
//     #undef atomic
//
// std::verif_atomic<T> wraps a real std::atomic<T> (so TSan still sees the real atomic operations) and
// forwards every operation after calling vs_point(VS_ATOMIC_OP, this).
#pragma once
#include <array>
#include <atomic>
#include <condition_variable>
#include <memory>
#include <mutex>
#include <stdexcept>
#include <sys/eventfd.h>
#include <unistd.h>

#include "vsched.h"

#ifndef VS_ATOMIC_OP
#define VS_ATOMIC_OP 50
#endif

namespace std
{
    template <typename T>
    struct verif_atomic
    {
        atomic<T> a;

        verif_atomic() noexcept = default;
        constexpr verif_atomic(T v) noexcept
            : a(v)
        { }
        verif_atomic(const verif_atomic&) = delete;
        verif_atomic& operator=(const verif_atomic&) = delete;

        void pt() const noexcept { vs_point(VS_ATOMIC_OP, this); }

        T load(memory_order o = memory_order_seq_cst) const noexcept
        {
            pt();
            return a.load(o);
        }
        void store(T v, memory_order o = memory_order_seq_cst) noexcept
        {
            pt();
            a.store(v, o);
        }
        T exchange(T v, memory_order o = memory_order_seq_cst) noexcept
        {
            pt();
            return a.exchange(v, o);
        }
        bool compare_exchange_weak(T& e, T d, memory_order s, memory_order f) noexcept
        {
            pt();
            return a.compare_exchange_strong(e, d, s, f); // no spurious failures: keeps executions finite
        }
        bool compare_exchange_weak(T& e, T d, memory_order o = memory_order_seq_cst) noexcept
        {
            pt();
            return a.compare_exchange_strong(e, d, o);
        }
        bool compare_exchange_strong(T& e, T d, memory_order s, memory_order f) noexcept
        {
            pt();
            return a.compare_exchange_strong(e, d, s, f);
        }
        bool compare_exchange_strong(T& e, T d, memory_order o = memory_order_seq_cst) noexcept
        {
            pt();
            return a.compare_exchange_strong(e, d, o);
        }
        template <typename U = T>
        auto fetch_add(U v, memory_order o = memory_order_seq_cst) noexcept -> decltype(std::declval<atomic<U>&>().fetch_add(v, o))
        {
            pt();
            return a.fetch_add(v, o);
        }
        template <typename U = T>
        auto fetch_sub(U v, memory_order o = memory_order_seq_cst) noexcept -> decltype(std::declval<atomic<U>&>().fetch_sub(v, o))
        {
            pt();
            return a.fetch_sub(v, o);
        }
        operator T() const noexcept { return load(); }
        T operator=(T v) noexcept
        {
            store(v);
            return v;
        }
        template <typename U = T>
        auto operator++(int) noexcept -> decltype(std::declval<atomic<U>&>()++)
        {
            pt();
            return a++;
        }
        template <typename U = T>
        auto operator++() noexcept -> decltype(++std::declval<atomic<U>&>())
        {
            pt();
            return ++a;
        }
    };
} // namespace std
