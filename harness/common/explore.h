// Stateless, deviation(preemption)-bounded DFS over the schedules of a small multi-threaded scenario whose
// threads are gated by vsched. One "execution" = fresh scenario objects + fresh threads, run to completion (or
// to a deadlock: no enabled thread while some thread is unfinished).
#pragma once
#include "vsched.h"

#include <functional>
#include <poll.h>
#include <unistd.h>
#include <cstdio>
#include <pthread.h>
#include <string>
#include <vector>

namespace ex
{
    struct Abort
    { }; // thrown into threads parked at harness-level waits when an execution is abandoned

    // harness-level blocking wait: parked until fd is readable
    inline void wait_readable(int fd)
    {
        vs_point(VS_WAIT_READABLE, (const void*)(long)fd);
        if (vs_aborted())
            throw Abort();
    }

    inline bool enabled(const vs_info& i)
    {
        if (i.done)
            return false;
        if (i.kind == VS_A_LOCK)
            return vs_mutex_free(i.addr) != 0;
        if (i.kind == VS_WAIT_READABLE)
        {
            struct pollfd p;
            p.fd      = (int)(long)i.addr;
            p.events  = POLLIN;
            p.revents = 0;
            return ::poll(&p, 1, 0) > 0 && (p.revents & POLLIN);
        }
        return true;
    }

    struct Point
    {
        uint8_t nEnabled;
        uint8_t choice;        // index into the canonical enabled list
        bool runningEnabled;   // the thread that ran last could have continued
        int8_t tid;            // thread actually run
        int16_t kind;          // where it was parked
    };

    struct Execution
    {
        std::vector<Point> points;
        bool deadlock  = false;
        bool horizon   = false;
        std::vector<int> stuck; // kinds at which unfinished threads are parked (deadlock)
        int preemptions() const
        {
            int n = 0;
            for (auto& p : points)
                if (p.runningEnabled && p.choice != 0)
                    ++n;
            return n;
        }
        std::string schedule() const
        {
            std::string s;
            for (auto& p : points)
                s += std::to_string((int)p.tid);
            return s;
        }
    };

    struct Scenario
    {
        // create objects and vs_spawn() the threads
        std::function<void()> setup;
        // all threads are done or the execution was abandoned: judge (may inspect x.deadlock) and tear down
        std::function<void(const Execution&)> finish;
        int horizon = 4000;
    };

    inline Execution run(const Scenario& sc, const std::vector<uint8_t>& prefix)
    {
        Execution x;
        vs_reset();
        sc.setup();
        int n    = vs_nthreads();
        int last = -1;
        for (;;)
        {
            // canonical order: the thread that ran last first (if still enabled), then ascending ids
            int order[VS_MAX_THREADS];
            int m          = 0;
            bool anyAlive  = false;
            bool lastEn    = false;
            vs_info infos[VS_MAX_THREADS];
            for (int t = 0; t < n; ++t)
            {
                infos[t] = vs_get(t);
                if (!infos[t].done)
                    anyAlive = true;
            }
            if (last >= 0 && enabled(infos[last]))
            {
                order[m++] = last;
                lastEn     = true;
            }
            for (int t = 0; t < n; ++t)
                if (t != last && enabled(infos[t]))
                    order[m++] = t;
            if (m == 0)
            {
                if (anyAlive)
                {
                    x.deadlock = true;
                    for (int t = 0; t < n; ++t)
                        if (!infos[t].done)
                            x.stuck.push_back(infos[t].kind);
                }
                break;
            }
            if ((int)x.points.size() >= sc.horizon)
            {
                x.horizon = true;
                break;
            }
            size_t i   = x.points.size();
            int choice = i < prefix.size() ? prefix[i] : 0;
            if (choice >= m)
            {
                fprintf(stderr, "HARNESS-NONDETERMINISM: replayed choice %d out of range (%d enabled) at point %zu\n", choice, m, i);
                _exit(4);
            }
            Point p;
            p.nEnabled       = (uint8_t)m;
            p.choice         = (uint8_t)choice;
            p.runningEnabled = lastEn;
            p.tid            = (int8_t)order[choice];
            p.kind           = (int16_t)infos[order[choice]].kind;
            x.points.push_back(p);
            last = order[choice];
            vs_step(last);
        }
        if (x.deadlock || x.horizon)
            vs_kill_all();
        else
            vs_join_all();
        sc.finish(x);
        return x;
    }

    struct Stats
    {
        uint64_t executions = 0, transitions = 0, deadlocks = 0, maxPoints = 0;
        bool budgetHit      = false;
        bool stop           = false; // set by the harness to end the exploration early (enough violations)
    };

    // explore every schedule with at most `bound` preemptions (bound < 0: unbounded)
    inline void explore(const Scenario& sc, int bound, Stats& st, uint64_t maxExec, const std::function<void(const Execution&)>& onExec, int shard = 0, int nshards = 1)
    {
        uint64_t rootChild = 0;
        std::vector<std::vector<uint8_t>> stack;
        stack.push_back({});
        while (!stack.empty())
        {
            if (st.stop)
                return;
            if (st.executions >= maxExec)
            {
                st.budgetHit = true;
                return;
            }
            std::vector<uint8_t> prefix = std::move(stack.back());
            stack.pop_back();
            Execution x = run(sc, prefix);
            ++st.executions;
            st.transitions += x.points.size();
            if (x.deadlock)
                ++st.deadlocks;
            if (x.points.size() > st.maxPoints)
                st.maxPoints = x.points.size();
            onExec(x);
            // branch on every point after the prefix
            int cost = 0;
            for (size_t i = 0; i < x.points.size(); ++i)
            {
                const Point& p = x.points[i];
                if (i >= prefix.size())
                {
                    for (int alt = 1; alt < p.nEnabled; ++alt)
                    {
                        int c = cost + (p.runningEnabled ? 1 : 0);
                        if (bound >= 0 && c > bound)
                            continue;
                        // the children of the root execution are dealt out to the shards
                        if (prefix.empty() && nshards > 1 && (int)(rootChild++ % nshards) != shard)
                            continue;
                        std::vector<uint8_t> np;
                        np.reserve(i + 1);
                        for (size_t k = 0; k < i; ++k)
                            np.push_back(x.points[k].choice);
                        np.push_back((uint8_t)alt);
                        stack.push_back(std::move(np));
                    }
                }
                if (p.runningEnabled && p.choice != 0)
                    ++cost;
            }
        }
    }
} // namespace ex
