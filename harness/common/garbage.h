// Grammar-directed garbage: parser "modes" (valid prefixes that put the request / response parser in a
// distinct state) x every string over a small alphabet up to a length bound, with and without a tail that
// would complete the message. Shared by C03 (robustness oracle) and C01 (delivery-independence oracle).
#pragma once
#include <string>
#include <vector>

namespace gb
{
    struct Mode
    {
        bool response;
        const char* name;
        std::string prefix;
        std::string tail;
        std::string alpha = std::string(); // symbols of this mode (filled in by modes(): kSigma, plus URI delimiters in the target / query modes)
    };

    static const char kSigma[] = { 'A', '0', 'f', '-', ' ', ':', ';', '=', '\r', '\n', '\0', '\xff' };
    static constexpr int kNSigma = sizeof kSigma;

    inline std::vector<Mode> modes()
    {
        const std::string rl = "GET / HTTP/1.1\r\n";
        const std::string ch = "POST / HTTP/1.1\r\nTransfer-Encoding: chunked\r\n\r\n";
        const std::string rs = "HTTP/1.1 200 OK\r\n";
        std::vector<Mode> v = {
            { false, "start", "", " / HTTP/1.1\r\n\r\n" },
            { false, "in-method", "GE", "T / HTTP/1.1\r\n\r\n" },
            { false, "after-method-sp", "GET ", " HTTP/1.1\r\n\r\n" },
            { false, "in-target", "GET /ab", " HTTP/1.1\r\n\r\n" },
            { false, "in-query-key", "GET /a?k", " HTTP/1.1\r\n\r\n" },
            { false, "in-query-value", "GET /a?k=v", " HTTP/1.1\r\n\r\n" },
            { false, "after-query-amp", "GET /a?k=v&", " HTTP/1.1\r\n\r\n" },
            { false, "in-version", "GET / HTT", "\r\n\r\n" },
            { false, "after-reqline-cr", "GET / HTTP/1.1\r", "\n\r\n" },
            { false, "header-start", rl, "\r\n\r\n" },
            { false, "in-header-name", rl + "Hos", ": a\r\n\r\n" },
            { false, "after-colon", rl + "Host:", "\r\n\r\n" },
            { false, "in-header-value", rl + "Host: a", "\r\n\r\n" },
            { false, "after-header-cr", rl + "Host: a\r", "\n\r\n" },
            { false, "before-blank-line", rl + "Host: a\r\n", "\r\n" },
            { false, "in-length-body", "POST / HTTP/1.1\r\nContent-Length: 10\r\n\r\nabc", "0123456789" },
            { false, "chunk-size-start", ch, "\r\n0\r\n\r\n" },
            { false, "in-chunk-size", ch + "5", "\r\nabcde\r\n0\r\n\r\n" },
            { false, "in-chunk-data", ch + "5\r\nab", "cde\r\n0\r\n\r\n" },
            { false, "chunk-terminator", ch + "5\r\nabcde", "\r\n0\r\n\r\n" },
            { false, "chunk-terminator-cr", ch + "5\r\nabcde\r", "\n0\r\n\r\n" },
            { false, "last-chunk-size", ch + "5\r\nabcde\r\n0", "\r\n\r\n" },
            { false, "after-last-chunk", ch + "5\r\nabcde\r\n0\r\n", "\r\n" },
            { false, "length-and-chunked", "POST / HTTP/1.1\r\nContent-Length: 3\r\nTransfer-Encoding: chunked\r\n", "\r\nabc" },
            { false, "in-cookie-value", rl + "Cookie: a=1; b", "\r\n\r\n" },
            { true, "rsp-start", "", " 200 OK\r\n\r\n" },
            { true, "rsp-in-version", "HTTP/1.", " 200 OK\r\n\r\n" },
            { true, "rsp-after-version", "HTTP/1.1 ", " OK\r\n\r\n" },
            { true, "rsp-in-code", "HTTP/1.1 20", " OK\r\n\r\n" },
            { true, "rsp-in-reason", "HTTP/1.1 200 ", "\r\n\r\n" },
            { true, "rsp-after-cr", "HTTP/1.1 200 OK\r", "\n\r\n" },
            { true, "rsp-in-set-cookie", rs + "Set-Cookie: a=1", "\r\n\r\n" },
            { true, "rsp-chunk-size-start", rs + "Transfer-Encoding: chunked\r\n\r\n", "\r\n0\r\n\r\n" },
            { true, "rsp-in-length-body", rs + "Content-Length: 4\r\n\r\nab", "cdef" },
        };
        for (auto& m : v)
        {
            m.alpha.assign(kSigma, kNSigma);
            std::string n = m.name;
            if (n.find("target") != std::string::npos || n.find("query") != std::string::npos || n == "after-method-sp")
                m.alpha += "&?/%#";
        }
        return v;
    }

    // number of strings over an alphabet of a symbols with length 0..L
    inline uint64_t count_upto(uint64_t a, int L)
    {
        uint64_t n = 0, p = 1;
        for (int l = 0; l <= L; ++l)
        {
            n += p;
            p *= a;
        }
        return n;
    }
    // idx -> string (shortest first)
    template <typename Sym>
    std::vector<Sym> nth(uint64_t idx, const Sym* alpha, uint64_t a, int L)
    {
        uint64_t p = 1;
        for (int l = 0; l <= L; ++l)
        {
            if (idx < p)
            {
                std::vector<Sym> s(l);
                for (int i = l - 1; i >= 0; --i)
                {
                    s[i] = alpha[idx % a];
                    idx /= a;
                }
                return s;
            }
            idx -= p;
            p *= a;
        }
        return {};
    }
} // namespace gb
