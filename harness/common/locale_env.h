// Environment dimension "global C++ locale": an application that calls std::locale::global(std::locale("")) under, say,
// en_US / de_DE gets digit grouping (and another decimal point) in every stream created afterwards. The sandbox has only
// the C / POSIX locales installed, so the equivalent is built from the classic locale plus a numpunct facet.
#pragma once
#include <locale>
#include <string>

namespace vr
{
    struct GroupingPunct : std::numpunct<char>
    {
        char do_thousands_sep() const override { return ','; }
        std::string do_grouping() const override { return "\3"; }
        char do_decimal_point() const override { return '.'; }
    };
    struct CommaDecimalPunct : std::numpunct<char>
    {
        char do_thousands_sep() const override { return '.'; }
        std::string do_grouping() const override { return "\3"; }
        char do_decimal_point() const override { return ','; }
    };
    // RAII: installs the locale as the global one, restores the classic locale afterwards
    struct ScopedGlobalLocale
    {
        explicit ScopedGlobalLocale(int kind) // 1: grouping "1,024"; 2: grouping "1.024" and decimal comma
        {
            if (kind == 1)
                std::locale::global(std::locale(std::locale::classic(), new GroupingPunct));
            else if (kind == 2)
                std::locale::global(std::locale(std::locale::classic(), new CommaDecimalPunct));
        }
        ~ScopedGlobalLocale() { std::locale::global(std::locale::classic()); }
    };
}
