// Single-threaded stepping of the real Tcp::Transport + Aio::Reactor (SyncImpl) over socketpairs.
//
// No source change in pistache: the harness executable defines epoll_wait / epoll_ctl / send / sendfile,
// which interposes the calls made by the pistache objects.
//   * Loop::step() runs exactly one epoll_wait batch of the shipped event loop (Reactor::runOnce is an
//     endless loop; the interposed epoll_wait ends the step by throwing through it);
//   * send/sendfile consult a per-descriptor plan (full / accept k / would-block) - the kernel answers the
//     properties C06/C07 quantify over; a descriptor "held in would-block" has EPOLLOUT stripped from what
//     epoll_wait returns and is released by re-issuing the recorded epoll_ctl(MOD), so that the kernel itself
//     generates the writable edge.
// Include in exactly one translation unit per harness.
#pragma once
#include <pistache/http.h>
#include <pistache/peer.h>
#include <pistache/reactor.h>
#include <pistache/transport.h>

#include <deque>
#include <dlfcn.h>
#include <map>
#include <set>
#include <sys/epoll.h>
#include <sys/sendfile.h>
#include <sys/socket.h>
#include <sys/stat.h>
#include <fcntl.h>
#include <dirent.h>

namespace lp
{
    using namespace Pistache;

    struct StepDone
    { };
    // thrown out of send()/sendfile() when the caller keeps retrying a descriptor that answers would-block
    // without returning to epoll_wait (busy-wait): ends the step instead of spinning forever
    struct Livelock
    {
        int fd;
    };
    static constexpr int kBusyWaitLimit = 3;
    static constexpr size_t kHalf       = (size_t)-2; // ACCEPT placeholders resolved against the asked length
    static constexpr size_t kAllButOne  = (size_t)-3;

    enum AnsKind { FULL,
                   ACCEPT,
                   BLOCK };
    struct Answer
    {
        AnsKind kind;
        size_t k; // ACCEPT: bytes accepted
    };

    struct SendRecord
    {
        int fd;
        size_t asked;
        ssize_t result;
        bool file;
    };

    struct World
    {
        bool loop_active  = false;
        bool batch_done   = false;
        bool had_events   = false;
        int epoll_calls   = 0;
        std::map<int, std::deque<Answer>> plan;      // per socket fd: answers for successive write calls
        std::map<int, bool> held;                    // fd held in would-block (EPOLLOUT suppressed)
        std::map<int, int> release_in;               // fd -> loop steps until the harness should release it (from the plan)
        uint64_t plan_used = 0;                      // plan entries consumed (non-default answers actually hit)
        std::map<std::pair<int, int>, epoll_event> interest; // (epfd, fd) -> last registered event
        std::set<std::pair<int, int>> oneshot_spent;         // one-shot registrations that have reported an event since their last epoll_ctl
        std::vector<SendRecord> sends;               // every write call observed
        std::map<int, int> consecutive_block;        // fd -> would-block answers since the last epoll_wait
        int max_consecutive_block = 0;
        bool livelock             = false;
        std::vector<int> event_order;                // optional: order in which fds' events are handed out (front first)
        int extra_attempts_allowed = 0;              // write attempts the application itself triggers within one batch (flush calls)
        uint64_t send_calls = 0;
        void reset()
        {
            *this = World();
        }
    };
    inline World& W()
    {
        static World w;
        return w;
    }

    template <typename F>
    F real(const char* name)
    {
        return reinterpret_cast<F>(dlsym(RTLD_NEXT, name));
    }
} // namespace lp

extern "C" {
int epoll_wait(int epfd, struct epoll_event* evs, int maxev, int timeout)
{
    static auto fn = lp::real<int (*)(int, epoll_event*, int, int)>("epoll_wait");
    lp::World& w   = lp::W();
    if (!w.loop_active)
        return fn(epfd, evs, maxev, timeout);
    ++w.epoll_calls;
    w.consecutive_block.clear();
    if (w.batch_done)
        throw lp::StepDone();
    int n = fn(epfd, evs, maxev, 0);
    if (n < 0)
        return n;
    // suppress writability of descriptors held in would-block
    int m = 0;
    for (int i = 0; i < n; ++i)
    {
        epoll_event e = evs[i];
        int fd        = (int)(e.data.u64 & 0xffffffffu);
        auto h        = w.held.find(fd);
        if (h != w.held.end() && h->second)
        {
            e.events &= ~uint32_t(EPOLLOUT);
            if ((e.events & (EPOLLIN | EPOLLHUP | EPOLLRDHUP | EPOLLERR)) == 0)
                continue;
        }
        evs[m++] = e;
    }
    n = m;
    if (n == 0)
        throw lp::StepDone();
    if (!w.event_order.empty())
    {
        std::stable_sort(evs, evs + n, [&](const epoll_event& a, const epoll_event& b) {
            auto pos = [&](const epoll_event& e) {
                int fd  = (int)(e.data.u64 & 0xffffffffu);
                auto it = std::find(w.event_order.begin(), w.event_order.end(), fd);
                return it == w.event_order.end() ? 1000000 : int(it - w.event_order.begin());
            };
            return pos(a) < pos(b);
        });
    }
    for (int i = 0; i < n; ++i)
    {
        int fd  = (int)(evs[i].data.u64 & 0xffffffffu);
        auto it = w.interest.find({ epfd, fd });
        if (it != w.interest.end() && (it->second.events & EPOLLONESHOT))
            w.oneshot_spent.insert({ epfd, fd }); // (disabled in the kernel until the application's next epoll_ctl)
    }
    w.batch_done = true;
    w.had_events = true;
    return n;
}

int epoll_ctl(int epfd, int op, int fd, struct epoll_event* ev)
{
    static auto fn = lp::real<int (*)(int, int, int, epoll_event*)>("epoll_ctl");
    lp::World& w   = lp::W();
    if (op == EPOLL_CTL_DEL)
        w.interest.erase({ epfd, fd });
    else if (ev)
        w.interest[{ epfd, fd }] = *ev;
    w.oneshot_spent.erase({ epfd, fd });
    return fn(epfd, op, fd, ev);
}

static ssize_t lp_answer(int fd, size_t len, bool file, const std::function<ssize_t(size_t)>& doit)
{
    lp::World& w = lp::W();
    ++w.send_calls;
    lp::Answer a { lp::FULL, 0 };
    auto it = w.plan.find(fd);
    bool held = w.held.count(fd) && w.held[fd];
    if (held)
        a = { lp::BLOCK, 0 };
    else if (it != w.plan.end() && !it->second.empty())
    {
        a = it->second.front();
        it->second.pop_front();
    }
    ssize_t r;
    if (a.kind != lp::FULL && !held)
        ++w.plan_used;
    if (a.kind == lp::BLOCK)
    {
        if (!held)
            w.release_in[fd] = (int)a.k;
        w.held[fd] = true;
        errno      = EAGAIN;
        r          = -1;
        int c      = ++w.consecutive_block[fd];
        if (c > w.max_consecutive_block)
            w.max_consecutive_block = c;
        if (c >= lp::kBusyWaitLimit + w.extra_attempts_allowed)
        {
            // the caller retries without going back to epoll_wait: record the busy-wait verdict and let the
            // descriptor accept data again, so that the execution ends instead of spinning forever
            w.livelock = true;
            w.held[fd] = false;
        }
    }
    else
    {
        size_t n = len;
        if (a.kind == lp::ACCEPT)
        {
            size_t k = a.k;
            if (k == lp::kHalf)
                k = len / 2 ? len / 2 : 1;
            else if (k == lp::kAllButOne)
                k = len > 1 ? len - 1 : 1;
            if (k < len)
                n = k;
        }
        r = doit(n);
    }
    w.sends.push_back({ fd, len, r, file });
    return r;
}

ssize_t send(int fd, const void* buf, size_t len, int flags)
{
    static auto fn = lp::real<ssize_t (*)(int, const void*, size_t, int)>("send");
    if (!lp::W().loop_active)
        return fn(fd, buf, len, flags);
    return lp_answer(fd, len, false, [&](size_t n) { return fn(fd, buf, n, flags); });
}

ssize_t sendfile(int out_fd, int in_fd, off_t* offset, size_t count)
{
    static auto fn = lp::real<ssize_t (*)(int, int, off_t*, size_t)>("sendfile");
    if (!lp::W().loop_active)
        return fn(out_fd, in_fd, offset, count);
    return lp_answer(out_fd, count, true, [&](size_t n) { return fn(out_fd, in_fd, offset, n); });
}
}

namespace lp
{
    inline int count_open_fds()
    {
        int n  = 0;
        DIR* d = opendir("/proc/self/fd");
        if (!d)
            return -1;
        while (readdir(d))
            ++n;
        closedir(d);
        return n - 3; // ".", "..", and the directory's own descriptor
    }

    inline std::vector<int> list_fds()
    {
        std::vector<int> v;
        DIR* d = opendir("/proc/self/fd");
        if (!d)
            return v;
        int self = dirfd(d);
        while (auto* e = readdir(d))
        {
            if (e->d_name[0] == '.')
                continue;
            int fd = atoi(e->d_name);
            if (fd != self)
                v.push_back(fd);
        }
        closedir(d);
        std::sort(v.begin(), v.end());
        return v;
    }

    struct Loop
    {
        std::vector<int> fdsBefore; // pistache never closes its NotifyFd descriptors: the harness reclaims them
        std::shared_ptr<Aio::Reactor> reactor;
        std::shared_ptr<Tcp::Transport> transport;
        Aio::Reactor::Key key;
        std::vector<int> clientFds;

        explicit Loop(const std::shared_ptr<Tcp::Handler>& handler)
        {
            fdsBefore = list_fds();
            W().reset();
            reactor = Aio::Reactor::create();
            reactor->init(Aio::SyncContext());
            transport = std::make_shared<Tcp::Transport>(handler);
            key       = reactor->addHandler(transport);
            // what SyncImpl::run() does before entering the loop
            transport->context_.tid = std::this_thread::get_id();
            W().loop_active         = true;
        }
        ~Loop()
        {
            W().loop_active = false;
            for (int fd : clientFds)
                if (fd >= 0)
                    ::close(fd);
            // close server-side sockets still owned by the transport
            for (auto& p : transport->peers)
                ::close(p.first);
            transport.reset();
            reactor.reset();
            // whatever this loop opened and did not close (eventfds of NotifyFd, files of abandoned writes)
            for (int fd : list_fds())
                if (!std::binary_search(fdsBefore.begin(), fdsBefore.end(), fd))
                    ::close(fd);
        }

        // returns the client end; the server end is registered as a new peer
        int connect_peer(std::shared_ptr<Tcp::Peer>* out = nullptr)
        {
            int sv[2];
            if (socketpair(AF_UNIX, SOCK_STREAM | SOCK_NONBLOCK | SOCK_CLOEXEC, 0, sv) != 0)
            {
                perror("socketpair");
                abort();
            }
            static Address addr("127.0.0.1", 4242);
            auto peer = Tcp::Peer::Create(sv[0], addr);
            transport->handleNewPeer(peer);
            clientFds.push_back(sv[1]);
            if (out)
                *out = peer;
            return sv[1];
        }

        // one epoll_wait batch of the real loop; false when nothing was pending
        bool step()
        {
            World& w     = W();
            w.batch_done = false;
            w.had_events = false;
            try
            {
                reactor->runOnce();
            }
            catch (const StepDone&)
            { }
            catch (const Livelock&)
            { }
            return w.had_events;
        }
        int settle(int maxSteps = 64)
        {
            int n = 0;
            while (n < maxSteps && step())
                ++n;
            return n;
        }

        void hold(int fd) { W().held[fd] = true; }
        // let the kernel report writability again (real edge through the recorded registration)
        void release(int fd)
        {
            World& w  = W();
            w.held[fd] = false;
            static auto ctl = real<int (*)(int, int, int, epoll_event*)>("epoll_ctl");
            for (auto& kv : w.interest)
                if (kv.first.second == fd && !w.oneshot_spent.count(kv.first))
                {
                    epoll_event ev = kv.second;
                    ctl(kv.first.first, EPOLL_CTL_MOD, fd, &ev);
                }
        }
    };

    inline void client_send(int fd, const std::string& s)
    {
        static auto fn = real<ssize_t (*)(int, const void*, size_t, int)>("send");
        size_t off     = 0;
        while (off < s.size())
        {
            ssize_t r = fn(fd, s.data() + off, s.size() - off, MSG_NOSIGNAL);
            if (r <= 0)
                break;
            off += r;
        }
    }
    inline std::string client_recv_all(int fd)
    {
        std::string out;
        char buf[65536];
        for (;;)
        {
            ssize_t r = ::recv(fd, buf, sizeof buf, MSG_DONTWAIT);
            if (r <= 0)
                break;
            out.append(buf, r);
        }
        return out;
    }
} // namespace lp
