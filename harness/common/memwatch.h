// Allocation watcher built on the sanitizer allocator hooks: largest single request and peak growth of
// live heap bytes inside a window. Used as the "never reserves memory beyond the limit" oracle.
#pragma once
#include <cstddef>
#include <cstdint>
#include <execinfo.h>
#include <string>

extern "C" {
int __sanitizer_install_malloc_and_free_hooks(void (*malloc_hook)(const volatile void*, size_t),
                                              void (*free_hook)(const volatile void*));
size_t __sanitizer_get_allocated_size(const volatile void* p);
void __sanitizer_symbolize_pc(void* pc, const char* fmt, char* out_buf, size_t out_buf_size);
}

namespace mw
{
    struct State
    {
        bool on            = false;
        int64_t live       = 0;
        int64_t peak       = 0;
        size_t largest     = 0;
        size_t threshold   = SIZE_MAX; // capture a call-site for the first allocation above this
        char site[256]     = { 0 };
        bool in_hook       = false;
    };
    inline State& st()
    {
        static State s;
        return s;
    }

    inline void malloc_hook(const volatile void* p, size_t sz)
    {
        State& s = st();
        if (!s.on || s.in_hook)
            return;
        s.live += (int64_t)sz;
        if (s.live > s.peak)
            s.peak = s.live;
        if (sz > s.largest)
        {
            s.largest = sz;
            if (sz > s.threshold && !s.site[0])
            {
                s.in_hook = true;
                void* bt[24];
                int n = backtrace(bt, 24);
                for (int i = 2; i < n; ++i)
                {
                    char buf[200];
                    __sanitizer_symbolize_pc(bt[i], "%f", buf, sizeof buf);
                    std::string f = buf;
                    if (f.find("Pistache::") != std::string::npos)
                    {
                        size_t par = f.find('(');
                        if (par != std::string::npos)
                            f = f.substr(0, par);
                        snprintf(s.site, sizeof s.site, "%s", f.c_str());
                        break;
                    }
                }
                s.in_hook = false;
            }
        }
        (void)p;
    }
    inline void free_hook(const volatile void* p)
    {
        State& s = st();
        if (!s.on || s.in_hook || !p)
            return;
        s.live -= (int64_t)__sanitizer_get_allocated_size(p);
    }
    inline void install()
    {
        static bool done = false;
        if (!done)
        {
            __sanitizer_install_malloc_and_free_hooks(malloc_hook, free_hook);
            done = true;
        }
    }
    struct Window
    {
        explicit Window(size_t threshold)
        {
            install();
            State& s    = st();
            s.live      = 0;
            s.peak      = 0;
            s.largest   = 0;
            s.threshold = threshold;
            s.site[0]   = 0;
            s.on        = true;
        }
        ~Window() { st().on = false; }
        size_t largest() const { return st().largest; }
        int64_t peak() const { return st().peak; }
        std::string site() const { return st().site; }
    };
} // namespace mw
