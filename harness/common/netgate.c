/* netgate.c - gate for event-loop threads: every pistache thread parks when it calls epoll_wait and runs
 * only while the controller has granted it a step. Raw futex hand-off, compiled WITHOUT sanitizer
 * instrumentation (no happens-before edges for TSan from the gate itself). */
#define _GNU_SOURCE
#include "netgate.h"

#include <errno.h>
#include <linux/futex.h>
#include <stdint.h>
#include <stdio.h>
#include <string.h>
#include <sys/syscall.h>
#include <time.h>
#include <unistd.h>

typedef struct {
    volatile int used;
    volatile int parked;   /* futex: actor -> controller */
    volatile int go;       /* futex: controller -> actor */
    volatile int exited;
    volatile int epfd;
    volatile uint64_t parks;
    volatile int kind;           /* 0: at epoll_wait, 1: about to lock the mutex at addr, 2: start of a harness thread */
    const void* volatile addr;
    volatile int fine;           /* this thread also parks at mutex acquisitions */
} ng_actor;

static ng_actor g_actors[NG_MAX_ACTORS];
static volatile int g_nactors = 0;
static volatile int g_active  = 0; /* gate on/off */
static volatile int g_event   = 0; /* futex: any actor parked/exited */
static __thread int t_actor   = -1;

static long futex(volatile int* addr, int op, int val, const struct timespec* ts)
{
    return syscall(SYS_futex, addr, op, val, ts, NULL, 0);
}

void ng_reset(void)
{
    memset((void*)g_actors, 0, sizeof g_actors);
    g_nactors = 0;
    g_event   = 0;
}
void ng_set_active(int on) { __atomic_store_n(&g_active, on, __ATOMIC_RELEASE); }
int ng_active(void) { return __atomic_load_n(&g_active, __ATOMIC_ACQUIRE); }
int ng_self(void) { return t_actor; }
int ng_count(void) { return __atomic_load_n(&g_nactors, __ATOMIC_ACQUIRE); }

int ng_thread_begin(void)
{
    int id = __atomic_fetch_add(&g_nactors, 1, __ATOMIC_ACQ_REL);
    if (id >= NG_MAX_ACTORS)
        return -1;
    g_actors[id].used = 1;
    t_actor           = id;
    return id;
}
/* ids are handed out by the creator (deterministic program order), see netsim.h */
int ng_reserve(void)
{
    int id = __atomic_fetch_add(&g_nactors, 1, __ATOMIC_ACQ_REL);
    if (id >= NG_MAX_ACTORS)
        return -1;
    g_actors[id].used = 1;
    return id;
}
void ng_adopt(int id) { t_actor = id; }

void ng_thread_end(void)
{
    if (t_actor < 0)
        return;
    ng_actor* a = &g_actors[t_actor];
    __atomic_store_n(&a->exited, 1, __ATOMIC_RELEASE);
    __atomic_store_n(&g_event, 1, __ATOMIC_RELEASE);
    futex(&g_event, FUTEX_WAKE, 64, NULL);
    t_actor = -1;
}

static void park_common(ng_actor* a);

void ng_park(int epfd)
{
    if (t_actor < 0 || !ng_active())
        return;
    ng_actor* a = &g_actors[t_actor];
    a->epfd     = epfd;
    a->kind     = 0;
    park_common(a);
}

void ng_park_at(int kind, const void* addr)
{
    if (t_actor < 0 || !ng_active())
        return;
    ng_actor* a = &g_actors[t_actor];
    a->kind     = kind;
    a->addr     = addr;
    park_common(a);
}

int ng_kind(int id) { return g_actors[id].kind; }
const void* ng_addr(int id) { return g_actors[id].addr; }
void ng_set_fine(int id, int on) { g_actors[id].fine = on; }
int ng_is_fine(void) { return t_actor >= 0 && g_actors[t_actor].fine; }
int ng_mutex_free(const void* m) { return __atomic_load_n((const int*)m, __ATOMIC_RELAXED) == 0; }

static void park_common(ng_actor* a)
{
    a->parks++;
    __atomic_store_n(&a->parked, 1, __ATOMIC_RELEASE);
    __atomic_store_n(&g_event, 1, __ATOMIC_RELEASE);
    futex(&g_event, FUTEX_WAKE, 64, NULL);
    while (!__atomic_load_n(&a->go, __ATOMIC_ACQUIRE) && ng_active())
    {
        struct timespec ts = { 0, 50 * 1000 * 1000 };
        futex(&a->go, FUTEX_WAIT, 0, &ts);
    }
    __atomic_store_n(&a->go, 0, __ATOMIC_RELEASE);
    __atomic_store_n(&a->parked, 0, __ATOMIC_RELEASE);
}

int ng_is_parked(int id) { return __atomic_load_n(&g_actors[id].parked, __ATOMIC_ACQUIRE); }
int ng_has_exited(int id) { return __atomic_load_n(&g_actors[id].exited, __ATOMIC_ACQUIRE); }
int ng_epfd(int id) { return g_actors[id].epfd; }

static uint64_t now_ms(void)
{
    struct timespec ts;
    syscall(SYS_clock_gettime, CLOCK_MONOTONIC, &ts);
    return (uint64_t)ts.tv_sec * 1000 + ts.tv_nsec / 1000000;
}

/* wait until actor id is parked or has exited; 0 ok, -1 timeout */
int ng_wait_parked(int id, int timeout_ms)
{
    uint64_t t0 = now_ms();
    for (;;)
    {
        if (ng_is_parked(id) || ng_has_exited(id))
            return 0;
        if ((int)(now_ms() - t0) > timeout_ms)
            return -1;
        __atomic_store_n(&g_event, 0, __ATOMIC_RELEASE);
        if (ng_is_parked(id) || ng_has_exited(id))
            return 0;
        struct timespec ts = { 0, 2 * 1000 * 1000 };
        futex(&g_event, FUTEX_WAIT, 0, &ts);
    }
}

/* let a parked actor run until it parks again (or exits); 0 ok, -1 timeout, -2 not parked */
int ng_step(int id, int timeout_ms)
{
    ng_actor* a = &g_actors[id];
    if (!ng_is_parked(id))
        return -2;
    uint64_t before = a->parks;
    __atomic_store_n(&a->go, 1, __ATOMIC_RELEASE);
    futex(&a->go, FUTEX_WAKE, 1, NULL);
    uint64_t t0 = now_ms();
    for (;;)
    {
        if (ng_has_exited(id))
            return 0;
        if (a->parks != before && ng_is_parked(id))
            return 0;
        if ((int)(now_ms() - t0) > timeout_ms)
            return -1;
        __atomic_store_n(&g_event, 0, __ATOMIC_RELEASE);
        if (ng_has_exited(id) || (a->parks != before && ng_is_parked(id)))
            return 0;
        struct timespec ts = { 0, 2 * 1000 * 1000 };
        futex(&g_event, FUTEX_WAIT, 0, &ts);
    }
}

/* open the gate for good: every parked thread continues and is never parked again */
void ng_release_all(void)
{
    ng_set_active(0);
    for (int i = 0; i < NG_MAX_ACTORS; ++i)
        if (g_actors[i].used)
        {
            __atomic_store_n(&g_actors[i].go, 1, __ATOMIC_RELEASE);
            futex(&g_actors[i].go, FUTEX_WAKE, 1, NULL);
        }
}
