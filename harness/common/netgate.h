#ifndef NETGATE_H
#define NETGATE_H
#ifdef __cplusplus
extern "C" {
#endif
#define NG_MAX_ACTORS 16
void ng_reset(void);
void ng_set_active(int on);
int ng_active(void);
int ng_self(void);
int ng_count(void);
int ng_thread_begin(void);
int ng_reserve(void);
void ng_adopt(int id);
void ng_thread_end(void);
void ng_park(int epfd);
void ng_park_at(int kind, const void* addr); /* kind 1: before locking mutex addr; 2: thread start */
int ng_kind(int id);
const void* ng_addr(int id);
void ng_set_fine(int id, int on);
int ng_is_fine(void);
int ng_mutex_free(const void* mutex);
int ng_is_parked(int id);
int ng_has_exited(int id);
int ng_epfd(int id);
int ng_wait_parked(int id, int timeout_ms);
int ng_step(int id, int timeout_ms);
void ng_release_all(void);
#ifdef __cplusplus
}
#endif
#endif
