// netsim: owned environment for harnesses that run REAL pistache event-loop threads (Http::Endpoint acceptor +
// workers, Experimental::Client reactor threads).
//   * every thread pistache creates gets an actor id (in creation order) and is gated at epoll_wait: it runs only
//     while the controller (the harness main thread) has granted it a step (common/netgate.c);
//   * time is virtual: clock_gettime(CLOCK_MONOTONIC) answers from a simulated clock, timerfd_create returns an
//     eventfd and timerfd_settime arms a simulated timer; sim::tick() advances the clock and writes the
//     expiration counts, so pistache's read(timerfd) keeps its real semantics and the real epoll reports it;
//   * send/sendfile answer from a per-descriptor plan (full / accept k / would-block and hold) as in loop.h;
//   * close() is watched for descriptors that are not open (double release).
// No pistache source is touched: the harness executable defines these libc symbols.
// Include in exactly one translation unit per harness.
#pragma once
#include <pistache/endpoint.h>
#include <pistache/peer.h>
#include <pistache/transport.h>
#include <pistache/http.h>

#include <algorithm>
#include <arpa/inet.h>
#include <deque>
#include <dirent.h>
#include <dlfcn.h>
#include <fcntl.h>
#include <map>
#include <netinet/in.h>
#include <netinet/tcp.h>
#include <poll.h>
#include <set>
#include <thread>
#include <sys/epoll.h>
#include <sys/eventfd.h>
#include <sys/sendfile.h>
#include <sys/socket.h>
#include <sys/timerfd.h>

#include "netgate.h"

// The simulator's own bookkeeping is touched by whichever thread holds the gate; the gate is invisible to
// TSan (on purpose), so these accesses are excluded from race detection with TSan's ignore annotations.
#if defined(__SANITIZE_THREAD__)
extern "C" {
void AnnotateIgnoreReadsBegin(const char* f, int l);
void AnnotateIgnoreReadsEnd(const char* f, int l);
void AnnotateIgnoreWritesBegin(const char* f, int l);
void AnnotateIgnoreWritesEnd(const char* f, int l);
}
namespace sim
{
    struct TsanIgnore
    {
        TsanIgnore()
        {
            AnnotateIgnoreReadsBegin(__FILE__, __LINE__);
            AnnotateIgnoreWritesBegin(__FILE__, __LINE__);
        }
        ~TsanIgnore()
        {
            AnnotateIgnoreWritesEnd(__FILE__, __LINE__);
            AnnotateIgnoreReadsEnd(__FILE__, __LINE__);
        }
    };
}
#else
namespace sim
{
    struct TsanIgnore
    { };
}
#endif

namespace sim
{
    using namespace Pistache;

    enum AnsKind { FULL,
                   ACCEPT,
                   BLOCK };
    struct Answer
    {
        AnsKind kind;
        size_t k;
    };

    struct Timer
    {
        bool armed       = false;
        int64_t expiryNs = 0, intervalNs = 0;
    };

    struct State
    {
        bool capture_threads = false;
        bool virtual_time    = false;
        int64_t nowNs        = 1000000000000ll; // virtual CLOCK_MONOTONIC
        std::map<int, Timer> timers;            // virtual timerfds (really eventfds)
        std::map<int, std::deque<Answer>> plan;
        std::map<int, bool> held;
        std::map<std::pair<int, int>, epoll_event> interest;
        std::vector<int> bad_closes;            // close() of a descriptor that is not open
        std::map<int, int> consecutive_block;
        bool livelock        = false;
        uint64_t activity    = 0;               // bumped whenever something happened that may create readiness
        int last_events[NG_MAX_ACTORS];
        uint64_t last_activity[NG_MAX_ACTORS];
        uint64_t send_calls  = 0;
        int accept_failures  = 0;               // the next n accept4() calls of gated threads fail with EMFILE
        bool park_threads_at_start = false;     // captured threads wait for the controller before running their body
        int connect_failures = 0;               // the next n connect() calls of gated threads fail at once (ENETUNREACH)
        int block_after_sends = -1;             // >= 0: every descriptor accepts that many send()/sendfile() calls, then answers
                                                // would-block (held) until it has been released once
        std::map<int, int> sends_on;            // descriptor -> calls answered so far
        std::set<int> released_once;
        bool eventfd_read_is_a_point = false;   // fine threads also yield before every read() of an eventfd (a mailbox's notification)
        bool epoll_ctl_is_a_point = false;      // fine threads also yield before every epoll_ctl()
        bool hold_spares_send = false;          // a held descriptor blocks sendfile() only (header goes out, file body stalls)
        std::set<int> blocked;                  // held descriptors that have answered would-block since they were held
        std::map<int, int> fail_next_write;     // descriptor -> errno for its next send()/sendfile()
        std::set<std::pair<int, int>> oneshot_spent; // (epfd, fd) registered with EPOLLONESHOT that has reported an event
                                                     // since its last epoll_ctl: disabled, as in the kernel
        std::map<int, int> fail_next_read;      // descriptor -> errno for its next recv() by a gated thread (the connection is dead from then on)
        // all of this is touched by one thread at a time (gate), so no locking
        void reset()
        {
            *this = State();
            for (int i = 0; i < NG_MAX_ACTORS; ++i)
            {
                last_events[i]   = -1;
                last_activity[i] = 0;
            }
        }
    };
    inline State& S()
    {
        static State s;
        return s;
    }

    template <typename F>
    F real(const char* name)
    {
        return reinterpret_cast<F>(dlsym(RTLD_NEXT, name));
    }

    struct Tramp
    {
        void* (*fn)(void*);
        void* arg;
        int id;
        bool parkAtStart;
    };
    inline void* tramp(void* p)
    {
        Tramp t = *static_cast<Tramp*>(p);
        delete static_cast<Tramp*>(p);
        ng_adopt(t.id);
        if (t.parkAtStart)
            ng_park_at(2, nullptr); // the controller decides when this thread begins
        void* r = t.fn(t.arg);
        ng_thread_end();
        return r;
    }
} // namespace sim

extern "C" {
int pthread_create(pthread_t* th, const pthread_attr_t* attr, void* (*fn)(void*), void* arg)
{
    static auto fnreal = sim::real<int (*)(pthread_t*, const pthread_attr_t*, void* (*)(void*), void*)>("pthread_create");
    bool capture, parkAtStart;
    {
        sim::TsanIgnore ign;
        capture     = sim::S().capture_threads;
        parkAtStart = sim::S().park_threads_at_start;
    }
    if (!capture)
        return fnreal(th, attr, fn, arg);
    auto* t = new sim::Tramp { fn, arg, ng_reserve(), parkAtStart };
    return fnreal(th, attr, sim::tramp, t);
}

// threads marked "fine" (harness threads that call into pistache, e.g. a request-issuing thread) also park before
// every mutex acquisition, so that the controller can interleave event-loop steps between their critical sections
extern "C" int __pthread_mutex_lock(pthread_mutex_t*);
int pthread_mutex_lock(pthread_mutex_t* m)
{
    // (resolved lazily - dlsym itself may take locks, hence the alias as first value -, possibly by two threads at once:
    // both store the same value, the accesses are atomic so that the race detector has nothing of the harness's to report)
    typedef int (*lock_fn)(pthread_mutex_t*);
    static lock_fn fnCell = nullptr;
    lock_fn fn            = __atomic_load_n(&fnCell, __ATOMIC_RELAXED);
    if (!fn)
    {
        __atomic_store_n(&fnCell, (lock_fn)__pthread_mutex_lock, __ATOMIC_RELAXED);
        auto r = sim::real<lock_fn>("pthread_mutex_lock");
        fn     = r ? r : (lock_fn)__pthread_mutex_lock;
        __atomic_store_n(&fnCell, fn, __ATOMIC_RELAXED);
    }
    // fine threads park before every acquisition; any gated thread parks when the mutex is held (only one gated
    // thread runs at a time, so the holder is a parked thread: running on would block the gate itself)
    if (ng_active() && ng_self() >= 0 && (ng_is_fine() || !ng_mutex_free(m)))
        ng_park_at(1, m);
    return fn(m);
}

// environment fault: the network is unreachable for the next n connection attempts of the code under test
int connect(int fd, const struct sockaddr* addr, socklen_t len)
{
    static auto fn = sim::real<int (*)(int, const struct sockaddr*, socklen_t)>("connect");
    if (ng_self() >= 0 && ng_active())
    {
        sim::TsanIgnore ign;
        if (sim::S().connect_failures > 0)
        {
            --sim::S().connect_failures;
            errno = ENETUNREACH;
            return -1;
        }
    }
    if (ng_self() >= 0 && ng_active() && addr && addr->sa_family == AF_INET)
    {
        // no Nagle delay on the connections of the code under test: a small segment behind an unacknowledged one
        // would wait for the peer's delayed ACK (40 ms of REAL time), and kernel timing must not decide what a
        // schedule observes
        int one = 1;
        setsockopt(fd, IPPROTO_TCP, TCP_NODELAY, &one, sizeof one);
    }
    return fn(fd, addr, len);
}

// environment fault: the process is out of descriptors for the next n accepts (the connection stays in the backlog)
int accept4(int fd, struct sockaddr* addr, socklen_t* len, int flags)
{
    static auto fn = sim::real<int (*)(int, struct sockaddr*, socklen_t*, int)>("accept4");
    if (ng_self() >= 0 && ng_active())
    {
        sim::TsanIgnore ign;
        if (sim::S().accept_failures > 0)
        {
            --sim::S().accept_failures;
            errno = EMFILE;
            return -1;
        }
    }
    int r = fn(fd, addr, len, flags);
    if (r >= 0 && ng_self() >= 0 && ng_active())
    {
        int one = 1; // (as in connect(): no Nagle delay, kernel timing must not decide what a schedule observes)
        setsockopt(r, IPPROTO_TCP, TCP_NODELAY, &one, sizeof one);
    }
    return r;
}

int epoll_wait(int epfd, struct epoll_event* evs, int maxev, int timeout)
{
    static auto fn = sim::real<int (*)(int, epoll_event*, int, int)>("epoll_wait");
    int me         = ng_self();
    if (me < 0 || !ng_active())
        return fn(epfd, evs, maxev, timeout);
    ng_park(epfd);
    if (!ng_active())
        return fn(epfd, evs, maxev, timeout);
    int n = fn(epfd, evs, maxev, 0);
    sim::TsanIgnore ign;
    sim::State& s = sim::S();
    s.consecutive_block.clear();
    if (n > 0)
    {
        int m = 0;
        for (int i = 0; i < n; ++i)
        {
            epoll_event e = evs[i];
            int fd        = (int)(e.data.u64 & 0xffffffffu);
            auto h        = s.held.find(fd);
            // (when only sendfile is held, writability is withheld only once a would-block has been answered)
            if (h != s.held.end() && h->second && (!s.hold_spares_send || s.blocked.count(fd)))
            {
                e.events &= ~uint32_t(EPOLLOUT);
                if ((e.events & (EPOLLIN | EPOLLHUP | EPOLLRDHUP | EPOLLERR)) == 0)
                    continue;
            }
            evs[m++] = e;
        }
        n = m;
        // a one-shot registration is spent by the event it has just reported (the kernel has disabled it; only the
        // application's next epoll_ctl arms it again - release() below must not do that on its behalf)
        for (int i = 0; i < n; ++i)
        {
            int fd  = (int)(evs[i].data.u64 & 0xffffffffu);
            auto it = s.interest.find({ epfd, fd });
            if (it != s.interest.end() && (it->second.events & EPOLLONESHOT))
                s.oneshot_spent.insert({ epfd, fd });
        }
    }
    s.last_events[me]   = n;
    s.last_activity[me] = s.activity;
    if (n > 0)
        ++s.activity;
    return n;
}

int epoll_ctl(int epfd, int op, int fd, struct epoll_event* ev)
{
    static auto fn = sim::real<int (*)(int, int, int, epoll_event*)>("epoll_ctl");
    {
        bool point;
        {
            sim::TsanIgnore ign;
            point = sim::S().epoll_ctl_is_a_point;
        }
        if (point && ng_active() && ng_self() >= 0 && ng_is_fine())
            ng_park_at(3, nullptr); // between a critical section and the change of the poller's interest
    }
    {
        sim::TsanIgnore ign;
        sim::State& s = sim::S();
        if (op == EPOLL_CTL_DEL)
            s.interest.erase({ epfd, fd });
        else if (ev)
            s.interest[{ epfd, fd }] = *ev;
        s.oneshot_spent.erase({ epfd, fd });
    }
    return fn(epfd, op, fd, ev);
}

static ssize_t sim_answer(int fd, size_t len, const std::function<ssize_t(size_t)>& doit)
{
    size_t n = len;
    {
        sim::TsanIgnore ign;
        sim::State& s = sim::S();
        ++s.send_calls;
        auto fw = s.fail_next_write.find(fd);
        if (fw != s.fail_next_write.end())
        {
            int e = fw->second;
            s.fail_next_write.erase(fw);
            errno = e;
            return -1;
        }
        sim::Answer a { sim::FULL, 0 };
        auto it   = s.plan.find(fd);
        bool held = s.held.count(fd) && s.held[fd];
        if (s.block_after_sends >= 0 && !held && !s.released_once.count(fd) && s.sends_on[fd]++ >= s.block_after_sends)
            held = true;
        if (held)
            a = { sim::BLOCK, 0 };
        else if (it != s.plan.end() && !it->second.empty())
        {
            a = it->second.front();
            it->second.pop_front();
        }
        if (a.kind == sim::BLOCK)
        {
            s.held[fd] = true;
            s.blocked.insert(fd);
            int c      = ++s.consecutive_block[fd];
            if (c >= 3)
            {
                s.livelock = true;
                s.held[fd] = false;
            }
            errno = EAGAIN;
            return -1;
        }
        if (a.kind == sim::ACCEPT && a.k < len)
            n = a.k;
    }
    return doit(n);
}

static bool sim_has_plan(int fd)
{
    sim::TsanIgnore ign;
    return sim::S().held.count(fd) || sim::S().plan.count(fd);
}

// TSan models ALL sockets with one global sync object (it cannot know which sockets are connected), so every
// send() "happens before" every later recv() on any socket: in a server that turns each response of one worker
// into a happens-before edge to the next request of every other worker and hides all races between workers.
// Connections of different workers share no data through the kernel, so in the TSan flavour the event-loop
// threads do their socket I/O through the raw system calls, which TSan does not see.
#if defined(__SANITIZE_THREAD__)
#include <sys/syscall.h>
// (the kernel's accesses to the user buffer are invisible with a raw system call: they are reported to TSan as
// accesses of the calling thread, so that a buffer shared between threads still shows up as a race)
extern "C" void __tsan_read_range(void* addr, unsigned long size);
extern "C" void __tsan_write_range(void* addr, unsigned long size);
static ssize_t sim_raw_send(int fd, const void* b, size_t n, int fl)
{
    ssize_t r = syscall(SYS_sendto, fd, b, n, fl, nullptr, 0);
    if (r > 0)
        __tsan_read_range(const_cast<void*>(b), (unsigned long)r);
    return r;
}
static ssize_t sim_raw_recv(int fd, void* b, size_t n, int fl)
{
    ssize_t r = syscall(SYS_recvfrom, fd, b, n, fl, nullptr, nullptr);
    if (r > 0)
        __tsan_write_range(b, (unsigned long)r);
    return r;
}
#endif

ssize_t send(int fd, const void* buf, size_t len, int flags)
{
    static auto fn = sim::real<ssize_t (*)(int, const void*, size_t, int)>("send");
    if (ng_self() < 0 && !sim_has_plan(fd))
        return fn(fd, buf, len, flags);
    {
        bool spare;
        {
            sim::TsanIgnore ign;
            spare = sim::S().hold_spares_send;
        }
        if (spare)
            return fn(fd, buf, len, flags);
    }
#if defined(__SANITIZE_THREAD__)
    if (ng_self() >= 0)
        return sim_answer(fd, len, [&](size_t n) { return sim_raw_send(fd, buf, n, flags); });
#endif
    return sim_answer(fd, len, [&](size_t n) { return fn(fd, buf, n, flags); });
}

ssize_t recv(int fd, void* buf, size_t len, int flags)
{
    static auto fn = sim::real<ssize_t (*)(int, void*, size_t, int)>("recv");
    if (ng_self() >= 0)
    {
        sim::TsanIgnore ign;
        sim::State& s = sim::S();
        auto fr       = s.fail_next_read.find(fd);
        if (fr != s.fail_next_read.end())
        {
            // the connection died with an error other than a reset (ETIMEDOUT: the peer vanished, EHOSTUNREACH, ...)
            int e = fr->second;
            s.fail_next_read.erase(fr);
            errno = e;
            return -1;
        }
    }
#if defined(__SANITIZE_THREAD__)
    if (ng_self() >= 0)
        return sim_raw_recv(fd, buf, len, flags);
#endif
    return fn(fd, buf, len, flags);
}

ssize_t read(int fd, void* buf, size_t len)
{
    static auto fn = sim::real<ssize_t (*)(int, void*, size_t)>("read");
    if (len == 8 && ng_active() && ng_self() >= 0 && ng_is_fine())
    {
        bool point;
        {
            sim::TsanIgnore ign;
            point = sim::S().eventfd_read_is_a_point;
        }
        if (point)
        {
            char path[64], target[64];
            snprintf(path, sizeof path, "/proc/self/fd/%d", fd);
            ssize_t n = readlink(path, target, sizeof target - 1);
            if (n > 0 && (target[n] = 0, strstr(target, "eventfd") != nullptr))
                ng_park_at(4, nullptr); // between a consumer's look at its mailbox and its consuming the notification
        }
    }
    return fn(fd, buf, len);
}

ssize_t sendfile(int out_fd, int in_fd, off_t* offset, size_t count)
{
    static auto fn = sim::real<ssize_t (*)(int, int, off_t*, size_t)>("sendfile");
    if (ng_self() < 0)
        return fn(out_fd, in_fd, offset, count);
    return sim_answer(out_fd, count, [&](size_t n) { return fn(out_fd, in_fd, offset, n); });
}

int clock_gettime(clockid_t clk, struct timespec* ts)
{
    static auto fn = sim::real<int (*)(clockid_t, struct timespec*)>("clock_gettime");
    sim::TsanIgnore ign;
    if (sim::S().virtual_time && clk == CLOCK_MONOTONIC)
    {
        int64_t t   = sim::S().nowNs;
        ts->tv_sec  = t / 1000000000ll;
        ts->tv_nsec = t % 1000000000ll;
        return 0;
    }
    return fn(clk, ts);
}

int timerfd_create(int clockid, int flags)
{
    static auto fn = sim::real<int (*)(int, int)>("timerfd_create");
    sim::TsanIgnore ign;
    if (!sim::S().virtual_time)
        return fn(clockid, flags);
    int fd = eventfd(0, EFD_NONBLOCK | ((flags & TFD_CLOEXEC) ? EFD_CLOEXEC : 0));
    if (fd >= 0)
        sim::S().timers[fd] = sim::Timer();
    return fd;
}

int timerfd_settime(int fd, int flags, const struct itimerspec* nv, struct itimerspec* ov)
{
    static auto fn = sim::real<int (*)(int, int, const struct itimerspec*, struct itimerspec*)>("timerfd_settime");
    sim::TsanIgnore ign;
    sim::State& s  = sim::S();
    auto it        = s.timers.find(fd);
    if (!s.virtual_time || it == s.timers.end())
        return fn(fd, flags, nv, ov);
    if (ov)
        memset(ov, 0, sizeof *ov);
    {
        // like the kernel, (re)setting a timer discards the expirations that have not been read yet
        static auto rd = sim::real<ssize_t (*)(int, void*, size_t)>("read");
        uint64_t junk;
        while (rd(fd, &junk, sizeof junk) > 0)
        { }
    }
    int64_t v   = nv->it_value.tv_sec * 1000000000ll + nv->it_value.tv_nsec;
    int64_t itv = nv->it_interval.tv_sec * 1000000000ll + nv->it_interval.tv_nsec;
    if (v == 0)
        it->second.armed = false;
    else
    {
        it->second.armed      = true;
        it->second.expiryNs   = (flags & TFD_TIMER_ABSTIME) ? v : s.nowNs + v;
        it->second.intervalNs = itv;
    }
    return 0;
}

int close(int fd)
{
    static auto fn = sim::real<int (*)(int)>("close");
    if (ng_active() && fd >= 0)
    {
        sim::TsanIgnore ign;
        sim::State& s = sim::S();
        if (fcntl(fd, F_GETFD) == -1 && errno == EBADF)
            s.bad_closes.push_back(fd);
        s.timers.erase(fd);
        s.held.erase(fd);
        s.plan.erase(fd);
        s.fail_next_write.erase(fd);
        s.fail_next_read.erase(fd);
        s.blocked.erase(fd);
        s.sends_on.erase(fd);
        s.released_once.erase(fd);
    }
    return fn(fd);
}
}

namespace sim
{
    // ---- controller side ------------------------------------------------------------------------------
    inline void bump_activity()
    {
        TsanIgnore ign;
        ++S().activity;
    }
    inline void forget_last_events(int a)
    {
        TsanIgnore ign;
        S().last_events[a] = -1;
    }
    inline void configure(bool virtualTime, bool captureThreads, bool resetAll)
    {
        TsanIgnore ign;
        if (resetAll)
            S().reset();
        S().virtual_time    = virtualTime;
        S().capture_threads = captureThreads;
    }
    inline bool livelock_seen()
    {
        TsanIgnore ign;
        return S().livelock;
    }
    inline bool actor_ready(int a)
    {
        TsanIgnore ign;
        if (ng_has_exited(a) || !ng_is_parked(a))
            return false;
        if (ng_kind(a) == 1)
            return ng_mutex_free(ng_addr(a)) != 0;
        if (ng_kind(a) == 2 || ng_kind(a) == 3 || ng_kind(a) == 4)
            return true;
        struct pollfd p;
        p.fd      = ng_epfd(a);
        p.events  = POLLIN;
        p.revents = 0;
        if (::poll(&p, 1, 0) <= 0 || !(p.revents & POLLIN))
            return false;
        // readiness that produced nothing last time (suppressed writability) and nothing happened since
        State& s = S();
        if (s.last_events[a] == 0 && s.last_activity[a] == s.activity)
            return false;
        return true;
    }
    struct HarnessError
    {
        std::string what;
    };
    inline void step_actor(int a)
    {
        int r = ng_step(a, 20000);
        if (r == -1)
            throw HarnessError { "actor " + std::to_string(a) + " did not return to epoll_wait within 20 s" };
        // threads created during the step park on their own (at their start, or at their first epoll_wait): the
        // set of enabled actors must not depend on how fast they get there
        for (int b = 0; b < ng_count(); ++b)
            if (b != a && ng_wait_parked(b, 10000) != 0)
                throw HarnessError { "actor " + std::to_string(b) + " (created during a step) did not park" };
    }
    // run loops in canonical order (lowest actor id first) until nobody is ready
    inline int settle(int maxSteps = 400)
    {
        int n = 0;
        for (; n < maxSteps; ++n)
        {
            int pick = -1;
            for (int a = 0; a < ng_count(); ++a)
                if (actor_ready(a))
                {
                    pick = a;
                    break;
                }
            if (pick < 0)
                break;
            step_actor(pick);
        }
        return n;
    }
    // wait (bounded, real time) for the kernel to make some loop ready after a client-side action
    inline bool await_readiness(int maxMs = 30)
    {
        TsanIgnore ign;
        ++S().activity;
        for (int i = 0; i < maxMs * 5; ++i)
        {
            for (int a = 0; a < ng_count(); ++a)
                if (actor_ready(a))
                    return true;
            usleep(200);
        }
        return false;
    }
    inline void tick(int ms)
    {
        TsanIgnore ign;
        State& s = S();
        s.nowNs += int64_t(ms) * 1000000ll;
        ++s.activity;
        for (auto& kv : s.timers)
        {
            Timer& t = kv.second;
            if (!t.armed || t.expiryNs > s.nowNs)
                continue;
            uint64_t n = 1;
            if (t.intervalNs > 0)
            {
                n += (s.nowNs - t.expiryNs) / t.intervalNs;
                t.expiryNs += n * t.intervalNs;
            }
            else
                t.armed = false;
            static auto wr = real<ssize_t (*)(int, const void*, size_t)>("write");
            wr(kv.first, &n, sizeof n);
        }
    }
    inline void fail_next_write(int fd, int err)
    {
        TsanIgnore ign;
        S().fail_next_write[fd] = err;
    }
    inline void fail_next_read(int fd, int err)
    {
        TsanIgnore ign;
        S().fail_next_read[fd] = err;
    }
    inline void hold(int fd)
    {
        TsanIgnore ign;
        S().held[fd] = true;
    }
    inline void release(int fd)
    {
        TsanIgnore ign;
        State& s   = S();
        s.held[fd] = false;
        s.blocked.erase(fd);
        s.released_once.insert(fd);
        ++s.activity;
        static auto ctl = real<int (*)(int, int, int, epoll_event*)>("epoll_ctl");
        for (auto& kv : s.interest)
            if (kv.first.second == fd && !s.oneshot_spent.count(kv.first))
            {
                epoll_event ev = kv.second;
                ctl(kv.first.first, EPOLL_CTL_MOD, fd, &ev);
            }
    }

    // start a harness thread that is gated like pistache's own threads and additionally parks at every mutex
    // acquisition; it first parks at its start, so the controller decides when it begins. Returns its actor id.
    inline int spawn_fine(std::thread& out, std::function<void()> body)
    {
        int id = ng_count(); // the id the interposed pthread_create is about to reserve
        out    = std::thread([body]() {
            ng_park_at(2, nullptr);
            body();
        });
        ng_set_fine(id, 1);
        return id;
    }

    inline std::vector<int> list_fds()
    {
        std::vector<int> v;
        DIR* d = opendir("/proc/self/fd");
        if (!d)
            return v;
        int self = dirfd(d);
        while (auto* e = readdir(d))
        {
            if (e->d_name[0] == '.')
                continue;
            int fd = atoi(e->d_name);
            if (fd != self)
                v.push_back(fd);
        }
        closedir(d);
        std::sort(v.begin(), v.end());
        return v;
    }

    // ---- a gated Http::Endpoint ---------------------------------------------------------------------------
    struct Server
    {
        std::shared_ptr<Http::Endpoint> ep;
        int port    = 0;
        int workers = 1;
        std::vector<int> fdsBefore;

        // gatedStart: the endpoint's threads are parked before their first instruction; the caller steps them
        // (start-up interleavings). Otherwise all of them are run to their first epoll_wait.
        void start(const std::shared_ptr<Http::Handler>& handler, Http::Endpoint::Options opts, int nworkers, bool gatedStart = false)
        {
            fdsBefore = list_fds();
            workers   = nworkers;
            ng_reset();
            configure(true, true, true);
            ng_set_active(1);
            {
                TsanIgnore ign;
                S().park_threads_at_start = gatedStart;
            }
            // a bind can fail for a moment when the machine is short of ephemeral ports (many executions
            // in parallel, closed connections lingering in TIME_WAIT): that is the environment's doing, so wait and
            // try again; a bind that keeps failing is a harness error, never a verdict on pistache
            for (int attempt = 0;; ++attempt)
            {
                // The listener gets an explicit port below the kernel's ephemeral range, drawn from a per-process
                // sequence: binding port 0 picks from the ephemeral range, where a port held by a TIME_WAIT socket is
                // not handed out (not even with SO_REUSEADDR) - with hundreds of executions per second the range
                // runs dry. An explicit port with SO_REUSEADDR binds whatever lingers there; a port taken by another
                // harness process just makes this loop try the next one.
                static unsigned seq = 0;
                unsigned portNo     = 12000 + (unsigned(getpid()) * 131u + seq++ * 7u) % 18000u;
                Address addr(Ipv4::loopback(), Port(static_cast<uint16_t>(portNo)));
                try
                {
                    ep = std::make_shared<Http::Endpoint>(addr);
                    ep->init(opts.threads(nworkers));
                    ep->setHandler(handler);
                    ep->serveThreaded();
                    break;
                }
                catch (const std::exception& e)
                {
                    ep.reset();
                    if (attempt >= 400 || ng_count() > 0)
                        throw HarnessError { std::string("endpoint could not be started: ") + e.what() };
                    if (attempt > 20)
                        usleep(20000);
                }
            }
            if (gatedStart)
            {
                for (int waited = 0; ng_count() < 1 && waited < 5000; ++waited)
                    usleep(1000);
                if (ng_wait_parked(0, 10000) != 0)
                    throw HarnessError { "acceptor thread did not park at its start" };
                port = (int)ep->getPort();
                return;
            }
            // acceptor + workers must all reach their first epoll_wait
            for (int waited = 0; ng_count() < 1 + nworkers && waited < 5000; ++waited)
                usleep(1000);
            for (int a = 0; a < 1 + nworkers; ++a)
                if (ng_wait_parked(a, 10000) != 0)
                    throw HarnessError { "endpoint thread " + std::to_string(a) + " did not reach epoll_wait" };
            port = (int)ep->getPort();
        }

        std::vector<std::shared_ptr<Tcp::Transport>> transports()
        {
            std::vector<std::shared_ptr<Tcp::Transport>> out;
            auto hs = ep->listener.reactor_.handlers(ep->listener.transportKey);
            for (auto& h : hs)
                out.push_back(std::static_pointer_cast<Tcp::Transport>(h));
            return out;
        }

        // returns false if some thread did not terminate
        bool stop()
        {
            bool ok = true;
            ep->shutdown();
            bump_activity();
            for (int round = 0; round < 50; ++round)
            {
                bool all = true;
                for (int a = 0; a < ng_count(); ++a)
                {
                    if (ng_has_exited(a))
                        continue;
                    all = false;
                    if (ng_is_parked(a))
                    {
                        forget_last_events(a);
                        step_actor(a);
                    }
                    else
                        ng_wait_parked(a, 200);
                }
                if (all)
                    break;
            }
            for (int a = 0; a < ng_count(); ++a)
                if (!ng_has_exited(a))
                    ok = false;
            ng_release_all();
            configure(true, false, false);
            ep.reset();
            // descriptors pistache never closes (NotifyFd eventfds, the idle-scan timer) are reclaimed here
            static auto cl = real<int (*)(int)>("close");
            for (int fd : list_fds())
                if (!std::binary_search(fdsBefore.begin(), fdsBefore.end(), fd))
                    cl(fd);
            configure(false, false, false);
            return ok;
        }
    };

    // ---- scripted loopback client ------------------------------------------------------------------------
    struct ClientConn
    {
        int fd = -1;
        std::string received;
        bool peerClosed = false;

        bool connect_to(int port)
        {
            static auto cl = real<int (*)(int)>("close");
            int low        = ::socket(AF_INET, SOCK_STREAM | SOCK_CLOEXEC, 0);
            // keep the scripted clients out of the low descriptor numbers: the server's accepted sockets then get
            // consecutive numbers, as with remote clients (the listener spreads connections by fd % workers)
            fd = fcntl(low, F_DUPFD_CLOEXEC, 600);
            cl(low);
            sockaddr_in sa;
            memset(&sa, 0, sizeof sa);
            sa.sin_family      = AF_INET;
            sa.sin_port        = htons(port);
            sa.sin_addr.s_addr = htonl(INADDR_LOOPBACK);
            int one            = 1;
            setsockopt(fd, IPPROTO_TCP, TCP_NODELAY, &one, sizeof one);
            // (the TIME_WAIT remnant of this socket must not keep its port away from later listeners that bind
            // port 0 with SO_REUSEADDR: thousands of executions would otherwise use up the ephemeral ports)
            setsockopt(fd, SOL_SOCKET, SO_REUSEADDR, &one, sizeof one);
            if (::connect(fd, (sockaddr*)&sa, sizeof sa) != 0)
                return false;
            fcntl(fd, F_SETFL, fcntl(fd, F_GETFL) | O_NONBLOCK);
            return true;
        }
        void send_bytes(const std::string& s)
        {
            static auto fn = real<ssize_t (*)(int, const void*, size_t, int)>("send");
            size_t off     = 0;
            while (off < s.size())
            {
                ssize_t r = fn(fd, s.data() + off, s.size() - off, MSG_NOSIGNAL);
                if (r <= 0)
                    break;
                off += r;
            }
        }
        // drain what has arrived; notes an orderly close or a reset by the server
        void pump()
        {
            if (fd < 0)
                return;
            char buf[65536];
            for (;;)
            {
                ssize_t r = ::recv(fd, buf, sizeof buf, MSG_DONTWAIT);
                if (r > 0)
                    received.append(buf, r);
                else if (r == 0)
                {
                    peerClosed = true;
                    break;
                }
                else
                {
                    if (errno == ECONNRESET || errno == EPIPE)
                        peerClosed = true;
                    break;
                }
            }
        }
        void close_orderly()
        {
            static auto cl = real<int (*)(int)>("close");
            if (fd >= 0)
                cl(fd);
            fd = -1;
        }
        void shutdown_wr()
        {
            if (fd >= 0)
                ::shutdown(fd, SHUT_WR);
        }
        void reset()
        {
            static auto cl = real<int (*)(int)>("close");
            if (fd < 0)
                return;
            struct linger lg = { 1, 0 };
            setsockopt(fd, SOL_SOCKET, SO_LINGER, &lg, sizeof lg);
            cl(fd);
            fd = -1;
        }
    };
} // namespace sim
