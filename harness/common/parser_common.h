// Helpers shared by the parser harnesses (C01, C03, C04): canonical rendering of parsed messages and
// of the complete mutable parser state, one feed+parse step with Handler::onInput's outcome mapping,
// and the message corpus generator.
#pragma once
#include <pistache/http.h>
#include <pistache/http_headers.h>

#include <algorithm>
#include <sstream>
#include <string>
#include <vector>

#include "runner.h"

namespace pc
{
    using namespace Pistache;

    inline std::string lower(std::string s)
    {
        for (auto& c : s)
            c = char(tolower((unsigned char)c));
        return s;
    }

    inline std::string canon_headers(const Http::Header::Collection& h)
    {
        std::vector<std::string> typed, raw;
        for (const auto& kv : h.headers)
        {
            std::ostringstream os;
            try
            {
                kv.second->write(os);
            }
            catch (const std::exception& e)
            {
                os << "<write threw " << e.what() << ">";
            }
            typed.push_back(std::string(kv.second->name()) + "=" + os.str());
        }
        for (const auto& kv : h.rawHeaders)
            raw.push_back(kv.second.name() + "=" + kv.second.value());
        std::sort(typed.begin(), typed.end());
        std::sort(raw.begin(), raw.end());
        std::string o;
        for (auto& s : typed)
            o += "T " + s + "\n";
        for (auto& s : raw)
            o += "R " + s + "\n";
        return o;
    }

    inline std::string canon_cookies(const Http::CookieJar& jar)
    {
        std::vector<std::string> cs;
        for (const auto& byName : jar.cookies)
            for (const auto& byVal : byName.second)
            {
                std::ostringstream os;
                os << byVal.second;
                cs.push_back(os.str());
            }
        std::sort(cs.begin(), cs.end());
        std::string o;
        for (auto& s : cs)
            o += "C " + s + "\n";
        return o;
    }

    inline std::string canon_query(const Http::Uri::Query& q)
    {
        std::vector<std::string> ps;
        for (auto it = q.parameters_begin(); it != q.parameters_end(); ++it)
            ps.push_back(it->first + "=" + it->second);
        std::sort(ps.begin(), ps.end());
        std::string o = "[";
        for (size_t i = 0; i < ps.size(); ++i)
            o += (i ? "&" : "") + ps[i];
        return o + "]";
    }

    inline std::string canon_request(const Http::Request& r)
    {
        std::ostringstream os;
        os << "REQ " << Http::methodString(r.method()) << " res=" << r.resource() << " q=" << canon_query(r.query())
           << " ver=" << (r.version() == Http::Version::Http10 ? "1.0" : "1.1") << "\n";
        os << canon_headers(r.headers()) << canon_cookies(r.cookies()) << "B " << vr::hex(r.body()) << "\n";
        return os.str();
    }

    inline std::string canon_response(const Http::Response& r)
    {
        std::ostringstream os;
        os << "RSP " << static_cast<int>(r.code()) << "\n";
        os << canon_headers(r.headers()) << canon_cookies(r.cookies()) << "B " << vr::hex(r.body()) << "\n";
        return os.str();
    }

    inline std::string canon_message(Http::RequestParser& p) { return canon_request(p.request); }
    inline std::string canon_message(Http::ResponseParser& p) { return canon_response(p.response); }

    // Complete mutable state of a parser (everything a later parse() can depend on), apart from the
    // buffered bytes themselves, which the callers know (they are a prefix of the message).
    template <typename P>
    std::string canon_state(P& p, bool with_message = true)
    {
        auto* body = static_cast<Http::Private::BodyStep*>(p.allSteps[2].get());
        std::ostringstream os;
        os << "step=" << p.currentStep << " off=" << (p.buffer.gptr() - p.buffer.eback()) << " buf=" << p.buffer.bytes.size()
           << " br=" << body->bytesRead << " csz=" << body->chunk.size << " cbr=" << body->chunk.bytesRead;
        if (body->chunk.size != -1) // not initialised before a chunk size has been parsed
            os << " caa=" << body->chunk.alreadyAppendedChunkBytes;
        os << "\n";
        if (with_message)
            os << canon_message(p);
        return os.str();
    }

    enum Kind { AGAIN = 0,
                DONE,
                ERROR };
    struct Outcome
    {
        Kind kind  = AGAIN;
        int status = 0;
        std::string what;
        std::string str() const
        {
            if (kind == AGAIN)
                return "Again";
            if (kind == DONE)
                return "Done";
            return "Error(" + std::to_string(status) + ")";
        }
        bool operator==(const Outcome& o) const { return kind == o.kind && status == o.status; }
        bool operator!=(const Outcome& o) const { return !(*this == o); }
    };

    // One network read as Handler::onInput treats it: feed, parse, map exceptions to a status.
    template <typename P>
    Outcome step(P& p, const char* data, size_t len)
    {
        Outcome o;
        try
        {
            if (!p.feed(data, len))
            {
                o.kind   = ERROR;
                o.status = 413;
                o.what   = "feed refused";
                return o;
            }
            auto st = p.parse();
            o.kind  = st == Http::Private::State::Done ? DONE : AGAIN;
        }
        catch (const Http::HttpError& e)
        {
            o.kind   = ERROR;
            o.status = e.code();
            o.what   = e.reason();
        }
        catch (const std::exception& e)
        {
            o.kind   = ERROR;
            o.status = 500;
            o.what   = e.what();
        }
        return o;
    }

    // ---------------------------------------------------------------------------------------------
    // Corpus
    struct Msg
    {
        std::string bytes;
        bool response   = false;
        bool wellformed = true;
        std::string expect; // canonical message the generator intends (well-formed only)
        std::string label;
        size_t limit = 0;   // parser size limit to use for this message (0: the harness default)
    };

    struct HeaderAlt
    {
        const char* line;      // as sent (without CRLF)
        const char* rawName;   // as stored in the raw list
        const char* rawValue;
        const char* typedName; // "" = not registered; else canonical name
        const char* typedText; // written form of the typed header
        bool cookieReq;        // a Cookie: request header (goes to the jar)
        const char* cookies;   // ';'-separated canonical cookies expected in the jar
    };

    // header lines whose typed write() gives back a known text
    static const HeaderAlt kReqHeaders[] = {
        { "Host: example.com", "Host", "example.com", "Host", "example.com:80", false, "" },
        { "Content-Type: text/html; charset=utf-8", "Content-Type", "text/html; charset=utf-8", "Content-Type", "text/html; charset=utf-8", false, "" },
        { "Accept: */*", "Accept", "*/*", "Accept", "", false, "" },
        { "Cookie: a=1; bb=22; c=", "Cookie", "a=1; bb=22; c=", "", "", true, "a=1;bb=22;c=" },
        { "Connection: keep-alive", "Connection", "keep-alive", "Connection", "Keep-Alive", false, "" },
        { "Cache-Control: no-cache, max-age=60", "Cache-Control", "no-cache, max-age=60", "Cache-Control", "no-cache, max-age=60", false, "" },
        { "X-a: v", "X-a", "v", "", "", false, "" },
        { "x-A: second", "X-a", "v", "", "", false, "" }, // only meaningful after X-a (first wins); filtered by generator
        { "X-Empty:", "X-Empty", "", "", "", false, "" },
        { "X-Sp:    padded value", "X-Sp", "padded value", "", "", false, "" },
        { "User-Agent: ua/1.0 (x; y)", "User-Agent", "ua/1.0 (x; y)", "User-Agent", "ua/1.0 (x; y)", false, "" },
    };
    static const HeaderAlt kRspHeaders[] = {
        { "Server: pistache/0.1", "Server", "pistache/0.1", "Server", "pistache/0.1", false, "" },
        { "Content-Type: application/json", "Content-Type", "application/json", "Content-Type", "application/json", false, "" },
        { "Set-Cookie: sid=abc; Path=/; HttpOnly", "Set-Cookie", "sid=abc; Path=/; HttpOnly", "", "", false, "sid=abc; Path=/; HttpOnly" },
        { "Set-Cookie: t=1; Max-Age=10", "Set-Cookie", "t=1; Max-Age=10", "", "", false, "t=1; Max-Age=10" },
        { "Connection: Close", "Connection", "Close", "Connection", "Close", false, "" },
        { "Location: /x/y?z=1", "Location", "/x/y?z=1", "Location", "/x/y?z=1", false, "" },
        { "X-a: v", "X-a", "v", "", "", false, "" },
        { "Date: Sun, 06 Nov 1994 08:49:37 GMT", "Date", "Sun, 06 Nov 1994 08:49:37 GMT", "Date", "Sun, 06 Nov 1994 08:49:37.000000000 UTC", false, "" },
    };

    struct Target
    {
        const char* text;
        const char* resource;
        const char* query; // canonical "[a=1&b=2]"
    };
    static const Target kTargets[] = {
        { "/", "/", "[]" },
        { "/a", "/a", "[]" },
        { "/a/b", "/a/b", "[]" },
        { "/a?x=1", "/a", "[x=1]" },
        { "/p?k=v&e&z=", "/p", "[e=&k=v&z=]" },
        { "/q?a=1&a=2", "/q", "[a=1]" },
    };
    static const char* kMethods[] = { "GET", "POST", "PUT", "DELETE", "OPTIONS", "HEAD", "PATCH", "TRACE", "CONNECT" };

    struct Body
    {
        int kind; // 0 none, 1 content-length, 2 chunked, 3 chunked with trailer fields after the last chunk
        std::vector<int> sizes;
    };
    inline std::vector<Body> bodies()
    {
        return {
            { 0, {} }, { 1, { 0 } }, { 1, { 1 } }, { 1, { 5 } }, { 1, { 64 } },
            { 2, {} }, { 2, { 1 } }, { 2, { 5 } }, { 2, { 1, 10 } }, { 2, { 16 } }, { 2, { 255, 1 } },
            { 3, { 5 } }, { 3, { 1, 10 } }
        };
    }
    inline std::string payload(size_t n, int salt)
    {
        // includes CR, LF, digits and hex letters so that body bytes can be mistaken for framing
        static const char alpha[] = "a\r\n0b1\rF;:\n9 z";
        // salts from 100 on: binary fill (bytes that sign-extend to EOF / terminate C strings), the same byte at
        // every offset so that whatever boundary the writer has inside the body falls on it
        if (salt >= 100)
            return std::string(n, "\xff\x00\x80"[(salt - 100) % 3]);
        std::string s;
        for (size_t i = 0; i < n; ++i)
            s += alpha[(i * 7 + salt) % (sizeof alpha - 1)];
        return s;
    }

    inline void add_body(const Body& b, int salt, std::string& head, std::string& wire, std::string& plain, std::vector<std::string>& typed, std::vector<std::string>& raw)
    {
        char tmp[64];
        if (b.kind == 1)
        {
            plain = payload(b.sizes[0], salt);
            snprintf(tmp, sizeof tmp, "%d", b.sizes[0]);
            head += std::string("Content-Length: ") + tmp + "\r\n";
            typed.push_back(std::string("Content-Length=") + tmp);
            raw.push_back(std::string("Content-Length=") + tmp);
            wire = plain;
        }
        else if (b.kind == 2 || b.kind == 3)
        {
            head += "Transfer-Encoding: chunked\r\n";
            typed.push_back("Transfer-Encoding=chunked");
            raw.push_back("Transfer-Encoding=chunked");
            int k = 0;
            for (int sz : b.sizes)
            {
                std::string d = payload(sz, salt + 3 * k++);
                snprintf(tmp, sizeof tmp, "%x\r\n", sz);
                wire += tmp + d + "\r\n";
                plain += d;
            }
            // (trailer fields are skipped by the parser: the expected message is that of the plain chunked form)
            wire += b.kind == 3 ? "0\r\nX-Trailer: t1\r\nX-Sum: 9\r\n\r\n" : "0\r\n\r\n";
        }
    }

    inline std::string expect_tail(std::vector<std::string> typed, std::vector<std::string> raw, std::vector<std::string> cookies, const std::string& body)
    {
        std::sort(typed.begin(), typed.end());
        std::sort(raw.begin(), raw.end());
        std::sort(cookies.begin(), cookies.end());
        std::string o;
        for (auto& s : typed)
            o += "T " + s + "\n";
        for (auto& s : raw)
            o += "R " + s + "\n";
        for (auto& s : cookies)
            o += "C " + s + "\n";
        o += "B " + vr::hex(body) + "\n";
        return o;
    }

    inline void apply_headers(const HeaderAlt* table, const std::vector<int>& hs, std::string& head, std::vector<std::string>& typed, std::vector<std::string>& raw, std::vector<std::string>& cookies)
    {
        std::vector<std::string> seenRaw;
        bool cookieHeaderSeen = false;
        for (int h : hs)
        {
            const HeaderAlt& a = table[h];
            head += std::string(a.line) + "\r\n";
            std::string ln = lower(a.rawName);
            bool dup       = std::find(seenRaw.begin(), seenRaw.end(), ln) != seenRaw.end();
            std::string nm = std::string(a.line).substr(0, std::string(a.line).find(':'));
            if (!dup)
            {
                seenRaw.push_back(ln);
                // value as sent (after ':' and spaces)
                std::string v = std::string(a.line).substr(nm.size() + 1);
                size_t s      = v.find_first_not_of(' ');
                v             = s == std::string::npos ? "" : v.substr(s);
                raw.push_back(nm + "=" + v);
                if (a.typedName[0])
                    typed.push_back(std::string(a.typedName) + "=" + a.typedText);
            }
            if (a.cookies[0])
            {
                if (a.cookieReq)
                {
                    // a Cookie header replaces the jar content
                    cookies.clear();
                    cookieHeaderSeen = true;
                    std::string cs   = a.cookies;
                    size_t p         = 0;
                    while (p <= cs.size())
                    {
                        size_t e = cs.find(';', p);
                        if (e == std::string::npos)
                            e = cs.size();
                        cookies.push_back(cs.substr(p, e - p));
                        p = e + 1;
                    }
                }
                else
                    cookies.push_back(a.cookies);
            }
        }
        (void)cookieHeaderSeen;
    }

    // all subsets of size <= 3 of n header alternatives, in simplest-first order
    inline std::vector<std::vector<int>> header_sets(int n, int maxk)
    {
        std::vector<std::vector<int>> out;
        out.push_back({});
        for (int k = 1; k <= maxk; ++k)
        {
            std::vector<int> idx(k);
            std::function<void(int, int)> rec = [&](int pos, int from) {
                if (pos == k)
                {
                    out.push_back(idx);
                    return;
                }
                for (int i = from; i < n; ++i)
                {
                    idx[pos] = i;
                    rec(pos + 1, i + 1);
                }
            };
            rec(0, 0);
        }
        return out;
    }

    inline Msg make_request(int method, int target, int version, const std::vector<int>& hs, const Body& b, int salt)
    {
        Msg m;
        const Target& t = kTargets[target];
        std::string head = std::string(kMethods[method]) + " " + t.text + (version ? " HTTP/1.1" : " HTTP/1.0") + "\r\n";
        std::vector<std::string> typed, raw, cookies;
        apply_headers(kReqHeaders, hs, head, typed, raw, cookies);
        std::string wire, plain;
        add_body(b, salt, head, wire, plain, typed, raw);
        m.bytes  = head + "\r\n" + wire;
        m.expect = std::string("REQ ") + kMethods[method] + " res=" + t.resource + " q=" + t.query + " ver=" + (version ? "1.1" : "1.0") + "\n" + expect_tail(typed, raw, cookies, plain);
        m.label  = "req";
        return m;
    }

    static const int kCodes[] = { 100, 101, 200, 201, 204, 206, 301, 302, 304, 400, 401, 403, 404, 405, 408, 413, 415, 418, 429, 500, 501, 503, 599 };

    inline Msg make_response(int code, bool v11, const std::vector<int>& hs, const Body& b, int salt)
    {
        Msg m;
        m.response       = true;
        std::string head = std::string(v11 ? "HTTP/1.1 " : "HTTP/1.0 ") + std::to_string(code) + " Reason Phrase\r\n";
        std::vector<std::string> typed, raw, cookies;
        apply_headers(kRspHeaders, hs, head, typed, raw, cookies);
        std::string wire, plain;
        add_body(b, salt, head, wire, plain, typed, raw);
        m.bytes  = head + "\r\n" + wire;
        m.expect = "RSP " + std::to_string(code) + "\n" + expect_tail(typed, raw, cookies, plain);
        m.label  = "rsp";
        return m;
    }

    // Well-formed corpus. level 0: compact covering (every header set x every body kind, request lines
    // rotated); level 1: + every request line with every body; level 2: full product.
    inline std::vector<Msg> wellformed_corpus(int level, size_t maxlen)
    {
        std::vector<Msg> out;
        auto bs   = bodies();
        auto reqH = header_sets(sizeof kReqHeaders / sizeof kReqHeaders[0], 3);
        auto rspH = header_sets(sizeof kRspHeaders / sizeof kRspHeaders[0], 3);
        // drop sets where the "x-A: second" duplicate (index 7) appears without X-a (index 6) before it
        auto okset = [](const std::vector<int>& s) {
            bool has7 = std::find(s.begin(), s.end(), 7) != s.end();
            bool has6 = std::find(s.begin(), s.end(), 6) != s.end();
            return !has7 || has6;
        };
        const int nM = 9, nT = 6;
        int rot      = 0;
        auto push    = [&](Msg m) {
            if (m.bytes.size() <= maxlen)
                out.push_back(std::move(m));
        };
        if (level <= 1)
        {
            for (auto& hs : reqH)
            {
                if (!okset(hs))
                    continue;
                for (size_t bi = 0; bi < bs.size(); ++bi)
                {
                    // bodies only with up to 2 headers in the compact level, to bound message size
                    if (level == 0 && hs.size() == 3 && bi % 3 != 0)
                        continue;
                    push(make_request(rot % nM, (rot / nM) % nT, (rot / 2) % 2, hs, bs[bi], rot));
                    ++rot;
                }
            }
            for (int mth = 0; mth < nM; ++mth)
                for (int t = 0; t < nT; ++t)
                    for (int v = 0; v < 2; ++v)
                        for (size_t bi = 0; bi < bs.size(); bi += (level == 0 ? 5 : 1))
                            push(make_request(mth, t, v, {}, bs[bi], mth + t));
            int ci = 0;
            for (auto& hs : rspH)
                for (size_t bi = 0; bi < bs.size(); ++bi)
                {
                    if (level == 0 && hs.size() == 3 && bi % 3 != 0)
                        continue;
                    push(make_response(kCodes[ci % (sizeof kCodes / sizeof kCodes[0])], ci % 2, hs, bs[bi], ci));
                    ++ci;
                }
        }
        else
        {
            for (int mth = 0; mth < nM; ++mth)
                for (int t = 0; t < nT; ++t)
                    for (int v = 0; v < 2; ++v)
                        for (auto& hs : reqH)
                        {
                            if (!okset(hs))
                                continue;
                            for (size_t bi = 0; bi < bs.size(); ++bi)
                                push(make_request(mth, t, v, hs, bs[bi], mth + t + (int)bi));
                        }
            for (size_t c = 0; c < sizeof kCodes / sizeof kCodes[0]; ++c)
                for (int v = 0; v < 2; ++v)
                    for (auto& hs : rspH)
                        for (size_t bi = 0; bi < bs.size(); ++bi)
                            push(make_response(kCodes[c], v, hs, bs[bi], (int)(c + bi)));
        }
        return out;
    }

    // 12 base messages for near-well-formed mutation
    inline std::vector<Msg> base_messages()
    {
        auto bs = bodies();
        std::vector<Msg> b;
        b.push_back(make_request(0, 0, 1, {}, bs[0], 0));
        b.push_back(make_request(0, 4, 1, { 0 }, bs[0], 0));
        b.push_back(make_request(1, 1, 1, { 0, 1 }, bs[3], 1));
        b.push_back(make_request(1, 1, 0, { 3 }, bs[7], 2));
        b.push_back(make_request(2, 2, 1, { 5 }, bs[8], 3));
        b.push_back(make_request(1, 3, 1, { 4, 6 }, bs[2], 4));
        b.push_back(make_request(1, 0, 1, {}, bs[5], 5));
        b.push_back(make_request(3, 5, 1, { 8, 9 }, bs[0], 6));
        b.push_back(make_response(200, true, {}, bs[3], 0));
        b.push_back(make_response(404, true, { 0, 2 }, bs[0], 1));
        b.push_back(make_response(200, false, { 1 }, bs[8], 2));
        b.push_back(make_response(302, true, { 5, 3 }, bs[1], 3));
        return b;
    }

    // every single-byte deletion / duplication / substitution at every position
    inline std::vector<Msg> mutations(const std::vector<Msg>& bases)
    {
        static const char subs[] = { ' ', '\r', '\n', ':', '\0', '\xff', ';' };
        std::vector<Msg> out;
        for (size_t bi = 0; bi < bases.size(); ++bi)
        {
            const Msg& b = bases[bi];
            for (size_t i = 0; i < b.bytes.size(); ++i)
            {
                auto mk = [&](std::string bytes, const char* how) {
                    Msg m;
                    m.bytes      = std::move(bytes);
                    m.response   = b.response;
                    m.wellformed = false;
                    m.label      = std::string("mut base") + std::to_string(bi) + " " + how + "@" + std::to_string(i);
                    out.push_back(std::move(m));
                };
                std::string s = b.bytes;
                s.erase(i, 1);
                mk(s, "del");
                s = b.bytes;
                s.insert(i, 1, b.bytes[i]);
                mk(s, "dup");
                for (char c : subs)
                {
                    if (b.bytes[i] == c)
                        continue;
                    s    = b.bytes;
                    s[i] = c;
                    mk(s, "sub");
                }
            }
        }
        return out;
    }
} // namespace pc
