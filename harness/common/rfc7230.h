// Independent, deliberately boring RFC 7230 message reader used as reference model / oracle.
// Written from the RFC grammar, shares no code with pistache. Strict: CRLF line ends, token header
// names, exactly one framing (Content-Length or chunked), no chunk extensions, no trailers.
#pragma once
#include <string>
#include <utility>
#include <vector>

namespace rfc
{
    struct Message
    {
        bool ok = false;
        std::string error;
        bool response = false;
        // request
        std::string method, target, version;
        // response
        int status = 0;
        std::string reason;
        std::vector<std::pair<std::string, std::string>> headers; // as on the wire, OWS trimmed
        std::string body;
        std::vector<size_t> chunks; // sizes of decoded data chunks (chunked only)
        bool chunked   = false;
        bool hasTransferEncoding = false;
        std::string lastCoding;
        bool hasLength = false;
        size_t length  = 0;
        size_t consumed = 0; // bytes of input that belong to this message
    };

    inline bool is_tchar(unsigned char c)
    {
        if (isalnum(c))
            return true;
        return strchr("!#$%&'*+-.^_`|~", c) != nullptr && c != 0;
    }
    inline std::string lower(std::string s)
    {
        for (auto& c : s)
            c = char(tolower((unsigned char)c));
        return s;
    }

    inline bool read_line(const std::string& in, size_t& pos, std::string& line)
    {
        size_t e = in.find("\r\n", pos);
        if (e == std::string::npos)
            return false;
        line = in.substr(pos, e - pos);
        pos  = e + 2;
        return true;
    }

    inline Message fail(Message m, const std::string& why)
    {
        m.ok    = false;
        m.error = why;
        return m;
    }

    inline Message parse(const std::string& in, bool response, bool headRequest = false)
    {
        Message m;
        m.response = response;
        size_t pos = 0;
        std::string line;
        if (!read_line(in, pos, line))
            return fail(m, "no start line");
        if (response)
        {
            // HTTP-version SP 3DIGIT SP reason-phrase
            if (line.size() < 12 || line.compare(0, 5, "HTTP/") != 0 || !isdigit((unsigned char)line[5]) || line[6] != '.' || !isdigit((unsigned char)line[7]) || line[8] != ' ')
                return fail(m, "bad status line: " + line);
            m.version = line.substr(0, 8);
            if (!isdigit((unsigned char)line[9]) || !isdigit((unsigned char)line[10]) || !isdigit((unsigned char)line[11]))
                return fail(m, "bad status code: " + line);
            m.status = atoi(line.substr(9, 3).c_str());
            if (line.size() > 12)
            {
                if (line[12] != ' ')
                    return fail(m, "no SP after status code: " + line);
                m.reason = line.substr(13);
            }
            else
                return fail(m, "status line without SP reason-phrase: " + line);
        }
        else
        {
            size_t s1 = line.find(' ');
            size_t s2 = line.rfind(' ');
            if (s1 == std::string::npos || s2 == s1)
                return fail(m, "bad request line: " + line);
            m.method  = line.substr(0, s1);
            m.target  = line.substr(s1 + 1, s2 - s1 - 1);
            m.version = line.substr(s2 + 1);
            for (unsigned char c : m.method)
                if (!is_tchar(c))
                    return fail(m, "bad method");
            if (m.target.empty() || m.target.find(' ') != std::string::npos)
                return fail(m, "bad request target: " + line);
            if (m.version != "HTTP/1.1" && m.version != "HTTP/1.0")
                return fail(m, "bad version: " + line);
        }
        for (;;)
        {
            if (!read_line(in, pos, line))
                return fail(m, "unterminated header section");
            if (line.empty())
                break;
            size_t c = line.find(':');
            if (c == std::string::npos || c == 0)
                return fail(m, "header line without name: " + line);
            std::string name = line.substr(0, c);
            for (unsigned char ch : name)
                if (!is_tchar(ch))
                    return fail(m, "bad header name: " + name);
            std::string v = line.substr(c + 1);
            size_t b      = v.find_first_not_of(" \t");
            size_t e      = v.find_last_not_of(" \t");
            v             = b == std::string::npos ? "" : v.substr(b, e - b + 1);
            for (unsigned char ch : v)
                if (ch == '\r' || ch == '\n' || ch == 0)
                    return fail(m, "bad header value");
            m.headers.emplace_back(name, v);
            std::string ln = lower(name);
            if (ln == "content-length")
            {
                if (m.hasLength)
                    return fail(m, "two Content-Length headers");
                if (v.empty() || v.find_first_not_of("0123456789") != std::string::npos)
                    return fail(m, "bad Content-Length: " + v);
                m.hasLength = true;
                m.length    = strtoull(v.c_str(), nullptr, 10);
            }
            else if (ln == "transfer-encoding")
            {
                // the field lines of one name read as one comma-separated list (RFC 7230 3.2.2); the message is framed by
                // chunked iff chunked is the final coding of that list, and it may be applied only once (3.3.1)
                size_t p0 = 0;
                std::string lv = lower(v);
                while (p0 <= lv.size())
                {
                    size_t q       = lv.find(',', p0);
                    std::string cd = lv.substr(p0, q == std::string::npos ? std::string::npos : q - p0);
                    size_t b2 = cd.find_first_not_of(" \t"), e2 = cd.find_last_not_of(" \t");
                    cd = b2 == std::string::npos ? "" : cd.substr(b2, e2 - b2 + 1);
                    if (cd != "chunked" && cd != "gzip" && cd != "deflate" && cd != "compress" && cd != "identity")
                        return fail(m, "unsupported transfer coding: " + v);
                    if (cd == "chunked" && m.chunked)
                        return fail(m, "chunked applied twice");
                    m.chunked     = m.chunked || cd == "chunked";
                    m.lastCoding  = cd;
                    m.hasTransferEncoding = true;
                    if (q == std::string::npos)
                        break;
                    p0 = q + 1;
                }
            }
        }
        if (m.hasTransferEncoding && m.lastCoding != "chunked")
            return fail(m, "'chunked' is not the final transfer coding announced");
        if (m.chunked && m.hasLength)
            return fail(m, "both Content-Length and Transfer-Encoding");
        if (headRequest)
        {
        }
        else if (m.chunked)
        {
            for (;;)
            {
                if (!read_line(in, pos, line))
                    return fail(m, "unterminated chunk size line");
                if (line.empty() || line.find_first_not_of("0123456789abcdefABCDEF") != std::string::npos)
                    return fail(m, "bad chunk size line: " + line);
                size_t sz = strtoull(line.c_str(), nullptr, 16);
                if (sz == 0)
                {
                    if (line.find_first_not_of('0') != std::string::npos)
                        return fail(m, "bad last-chunk");
                    break;
                }
                if (in.size() - pos < sz + 2)
                    return fail(m, "truncated chunk data");
                m.body += in.substr(pos, sz);
                m.chunks.push_back(sz);
                pos += sz;
                if (in.compare(pos, 2, "\r\n") != 0)
                    return fail(m, "chunk data not followed by CRLF");
                pos += 2;
            }
            if (in.compare(pos, 2, "\r\n") != 0)
                return fail(m, "last-chunk not followed by the final CRLF");
            pos += 2;
        }
        else if (m.hasLength)
        {
            if (in.size() - pos < m.length)
                return fail(m, "body shorter than Content-Length");
            m.body = in.substr(pos, m.length);
            pos += m.length;
        }
        m.consumed = pos;
        m.ok       = true;
        return m;
    }
} // namespace rfc
