// Sharded, fork-isolated case runner shared by all harnesses.
//
//  * the harness enumerates a finite case space [0, ncases) and supplies fn(idx, ctx);
//  * N forked workers take cases idx % N == w; each publishes (idx, start time) in shared memory,
//    so the parent can attribute a crash or a hang to the exact case and resume after it;
//  * sanitizer reports do not abort (-fsanitize-recover); the worker's stderr goes to a file that is
//    scanned after every case, and any new report becomes a violation of that case;
//  * distinct-state / distinct-nontrivial / distinct-outcome sets are lock-free hash sets in shared
//    memory, so counts are exact across workers and survive a worker crash;
//  * the parent writes one JSON summary (--out). Verdicts (known finding or not, exit code,
//    evidence) are the Python driver's business.
#pragma once
#include <algorithm>
#include <atomic>
#include <cerrno>
#include <cinttypes>
#include <csignal>
#include <cstdint>
#include <cstdio>
#include <cstdlib>
#include <cstring>
#include <fcntl.h>
#include <functional>
#include <map>
#include <set>
#include <string>
#include <sys/mman.h>
#include <sys/stat.h>
#include <sys/syscall.h>
#include <sys/wait.h>
#include <time.h>
#include <unistd.h>
#include <vector>

namespace vr
{
    inline uint64_t now_ns()
    {
        struct timespec ts;
        // raw syscall-level clock: harnesses may interpose clock_gettime for virtual time
        syscall(228 /*SYS_clock_gettime*/, CLOCK_MONOTONIC, &ts);
        return uint64_t(ts.tv_sec) * 1000000000ull + ts.tv_nsec;
    }

    inline uint64_t hash_bytes(const void* p, size_t n, uint64_t seed = 0xcbf29ce484222325ull)
    {
        const unsigned char* s = static_cast<const unsigned char*>(p);
        uint64_t h             = seed;
        for (size_t i = 0; i < n; ++i)
        {
            h ^= s[i];
            h *= 0x100000001b3ull;
        }
        h ^= h >> 33;
        h *= 0xff51afd7ed558ccdull;
        h ^= h >> 33;
        h *= 0xc4ceb9fe1a85ec53ull;
        h ^= h >> 33;
        return h;
    }
    inline uint64_t hash_str(const std::string& s, uint64_t seed = 0xcbf29ce484222325ull)
    {
        return hash_bytes(s.data(), s.size(), seed);
    }

    inline std::string json_escape(const std::string& s)
    {
        std::string o;
        char b[8];
        for (unsigned char c : s)
        {
            if (c == '"')
                o += "\\\"";
            else if (c == '\\')
                o += "\\\\";
            else if (c == '\n')
                o += "\\n";
            else if (c == '\r')
                o += "\\r";
            else if (c == '\t')
                o += "\\t";
            else if (c < 0x20 || c >= 0x7f)
            {
                snprintf(b, sizeof b, "\\u%04x", c);
                o += b;
            }
            else
                o += char(c);
        }
        return o;
    }
    inline std::string jstr(const std::string& s) { return "\"" + json_escape(s) + "\""; }
    inline std::string hex(const std::string& s)
    {
        static const char* d = "0123456789abcdef";
        std::string o;
        for (unsigned char c : s)
        {
            o += d[c >> 4];
            o += d[c & 15];
        }
        return o;
    }
    // printable rendering of bytes for humans (C-like escapes)
    inline std::string show(const std::string& s)
    {
        std::string o;
        char b[8];
        for (unsigned char c : s)
        {
            if (c == '\r')
                o += "\\r";
            else if (c == '\n')
                o += "\\n";
            else if (c == '\\')
                o += "\\\\";
            else if (c < 0x20 || c >= 0x7f)
            {
                snprintf(b, sizeof b, "\\x%02x", c);
                o += b;
            }
            else
                o += char(c);
        }
        return o;
    }

    enum SetId { STATES = 0,
                 NONTRIVIAL,
                 OUTCOMES,
                 EXTRA,
                 NSETS };
    static constexpr int MAXW      = 64;
    static constexpr int NCOUNTERS = 64;

    struct Shm
    {
        struct Counter
        {
            std::atomic<int> st; // 0 free 1 writing 2 ready
            char name[40];
            std::atomic<uint64_t> v;
        } counters[NCOUNTERS];
        struct Slot
        {
            std::atomic<uint64_t> idx;
            std::atomic<uint64_t> t0;
            std::atomic<uint64_t> next; // next idx this worker lane will take
            std::atomic<int> active;
            char note[512];
        } slots[MAXW];
        std::atomic<uint64_t> setcount[NSETS];
        std::atomic<uint64_t> setfull[NSETS];
        std::atomic<uint64_t> violations;
        std::atomic<uint64_t> cases_done;
        std::atomic<int> stop;
        uint64_t tabsize; // entries per set (power of two)
    };

    struct Ctx
    {
        Shm* shm           = nullptr;
        std::atomic<uint64_t>* tabs[NSETS] = {};
        int worker         = 0;
        uint64_t idx       = 0;
        bool verbose       = false;
        int logfd          = -1; // violations / samples / outcome strings (JSON lines)
        int nsamples       = 0;
        int max_samples    = 2;
        std::set<uint64_t> outcome_shown;
        uint64_t case_violations = 0;
        int efd                  = -1; // this worker's stderr file (sanitizer reports)
        off_t epos               = 0;
        bool san_fatal           = false;

        // turn sanitizer output produced since the last call into violations of the current case,
        // attributed to the input named by the current note; cheap enough to call after every input
        inline void poll_reports();
        // same, but hands the reports to the caller instead of recording them (self-tests that EXPECT a report)
        inline std::vector<std::string> take_reports();

        std::atomic<uint64_t>& counter(const char* name)
        {
            for (int i = 0; i < NCOUNTERS; ++i)
            {
                auto& c = shm->counters[i];
                int st  = c.st.load();
                if (st == 0)
                {
                    int exp = 0;
                    if (c.st.compare_exchange_strong(exp, 1))
                    {
                        strncpy(c.name, name, sizeof c.name - 1);
                        c.st.store(2);
                        return c.v;
                    }
                    st = c.st.load();
                }
                while (st == 1)
                    st = c.st.load();
                if (strncmp(c.name, name, sizeof c.name - 1) == 0)
                    return c.v;
            }
            fprintf(stderr, "HARNESS-ERROR too many counters\n");
            _exit(3);
        }
        void count(const char* name, uint64_t n = 1) { counter(name).fetch_add(n, std::memory_order_relaxed); }
        void maxc(const char* name, uint64_t v)
        {
            auto& c      = counter(name);
            uint64_t cur = c.load();
            while (cur < v && !c.compare_exchange_weak(cur, v))
            { }
        }

        // returns true when h was new
        bool add(SetId s, uint64_t h)
        {
            if (h == 0)
                h = 1;
            uint64_t mask = shm->tabsize - 1;
            uint64_t i    = (h * 0x9e3779b97f4a7c15ull) >> 20 & mask;
            for (uint64_t probe = 0; probe < 4096; ++probe, i = (i + 1) & mask)
            {
                uint64_t cur = tabs[s][i].load(std::memory_order_relaxed);
                if (cur == h)
                    return false;
                if (cur == 0)
                {
                    if (shm->setcount[s].load(std::memory_order_relaxed) > shm->tabsize * 3 / 4)
                    {
                        shm->setfull[s].store(1);
                        return false;
                    }
                    uint64_t exp = 0;
                    if (tabs[s][i].compare_exchange_strong(exp, h))
                    {
                        shm->setcount[s].fetch_add(1, std::memory_order_relaxed);
                        return true;
                    }
                    if (exp == h)
                        return false;
                }
            }
            shm->setfull[s].store(1);
            return false;
        }
        // the run's deadline has passed (or enough violations were collected): long cases should wind up; the
        // run is then reported incomplete (exhaustive:false) by the parent
        bool stopping() const { return shm && shm->stop.load(std::memory_order_relaxed) != 0; }
        bool state(uint64_t h) { return add(STATES, h); }
        bool nontrivial(uint64_t h) { return add(NONTRIVIAL, h); }
        bool nontrivial(const std::string& s) { return add(NONTRIVIAL, hash_str(s)); }

        void logline(const std::string& line)
        {
            if (logfd >= 0)
            {
                std::string l = line + "\n";
                ssize_t r     = ::write(logfd, l.data(), l.size());
                (void)r;
            }
        }
        // a distinct observable outcome class; the first few hundred are also kept as text
        void outcome(const std::string& s)
        {
            uint64_t h = hash_str(s);
            if (add(OUTCOMES, h) && outcome_shown.size() < 400)
            {
                outcome_shown.insert(h);
                logline("{\"t\":\"outcome\",\"s\":" + jstr(s) + "}");
            }
            if (verbose)
                printf("outcome: %s\n", s.c_str());
        }
        // json must be a complete JSON value
        void sample(const std::string& json)
        {
            if (nsamples < max_samples)
            {
                ++nsamples;
                logline("{\"t\":\"sample\",\"idx\":" + std::to_string(idx) + ",\"v\":" + json + "}");
            }
        }
        // sig: stable signature (what fails, free of addresses / indices); detail: JSON value
        void violation(const std::string& sig, const std::string& detail_json)
        {
            ++case_violations;
            shm->violations.fetch_add(1);
            logline("{\"t\":\"violation\",\"idx\":" + std::to_string(idx) + ",\"sig\":" + jstr(sig) + ",\"detail\":" + detail_json + "}");
            if (verbose)
                printf("VIOLATION-IN-CASE sig=%s detail=%s\n", sig.c_str(), detail_json.c_str());
        }
        void note(const std::string& s)
        {
            auto& sl = shm->slots[worker];
            size_t n = s.size() < sizeof sl.note - 1 ? s.size() : sizeof sl.note - 1;
            memcpy(sl.note, s.data(), n);
            sl.note[n] = 0;
        }
    };

    using CaseFn = std::function<void(uint64_t, Ctx&)>;

    struct Options
    {
        int jobs             = 16;
        uint64_t timeout_ms  = 3000;  // per case
        double deadline_s    = 1e9;   // whole run
        uint64_t max_viol    = 400;   // stop early after this many violating cases
        int tab_log2         = 22;    // entries per distinct-set
        std::string out      = "";    // summary JSON path ("" = stdout)
        std::string workdir  = "";    // scratch for logs
        int64_t only         = -1;
        uint64_t first       = 0, last = UINT64_MAX; // restrict to [first,last)
        std::vector<std::string> rest;               // harness-specific args
        std::map<std::string, std::string> kv;       // --key=value harness args
        std::string get(const std::string& k, const std::string& d = "") const
        {
            auto it = kv.find(k);
            return it == kv.end() ? d : it->second;
        }
        long geti(const std::string& k, long d) const
        {
            auto it = kv.find(k);
            return it == kv.end() ? d : atol(it->second.c_str());
        }
    };

    inline Options parse_args(int argc, char** argv)
    {
        Options o;
        for (int i = 1; i < argc; ++i)
        {
            std::string a = argv[i];
            auto val      = [&](const char* pfx) -> const char* {
                size_t n = strlen(pfx);
                return a.compare(0, n, pfx) == 0 ? a.c_str() + n : nullptr;
            };
            const char* v;
            if ((v = val("--jobs=")))
                o.jobs = atoi(v);
            else if ((v = val("--timeout-ms=")))
                o.timeout_ms = strtoull(v, 0, 10);
            else if ((v = val("--deadline-s=")))
                o.deadline_s = atof(v);
            else if ((v = val("--max-viol=")))
                o.max_viol = strtoull(v, 0, 10);
            else if ((v = val("--tab-log2=")))
                o.tab_log2 = atoi(v);
            else if ((v = val("--out=")))
                o.out = v;
            else if ((v = val("--workdir=")))
                o.workdir = v;
            else if ((v = val("--only=")))
                o.only = strtoll(v, 0, 10);
            else if ((v = val("--first=")))
                o.first = strtoull(v, 0, 10);
            else if ((v = val("--last=")))
                o.last = strtoull(v, 0, 10);
            else if (a.compare(0, 2, "--") == 0 && a.find('=') != std::string::npos)
                o.kv[a.substr(2, a.find('=') - 2)] = a.substr(a.find('=') + 1);
            else
                o.rest.push_back(a);
        }
        if (o.jobs < 1)
            o.jobs = 1;
        if (o.jobs > MAXW)
            o.jobs = MAXW;
        return o;
    }

    // ---- sanitizer report scanning -------------------------------------------------------------
    struct Report
    {
        std::string sig, text;
        bool fatal_for_worker = false;
    };

    inline std::string strip_args(std::string f)
    {
        size_t p = f.find('(');
        if (p != std::string::npos)
            f = f.substr(0, p);
        // drop template arguments to keep signatures short and stable
        std::string o;
        int depth = 0;
        for (char c : f)
        {
            if (c == '<')
                ++depth;
            else if (c == '>')
                --depth;
            else if (depth == 0)
                o += c;
        }
        return o;
    }

    inline std::string first_pistache_frame(const std::vector<std::string>& lines, size_t from, size_t to)
    {
        std::string firstAny;
        for (size_t i = from; i < to && i < lines.size(); ++i)
        {
            const std::string& l = lines[i];
            if (l.find("    #") != 0)
                continue;
            size_t p = l.find(" in ");
            std::string f;
            if (p != std::string::npos)
                f = l.substr(p + 4);
            else
            {
                // TSan style: "    #0 function /path/file:line (module+0x..)"
                size_t sp = l.find(' ', 5);
                if (sp == std::string::npos)
                    continue;
                f = l.substr(sp + 1);
                size_t mod = f.rfind(" (");
                if (mod != std::string::npos)
                    f = f.substr(0, mod);
            }
            // "func file:line" -> func
            size_t sp = f.rfind(' ');
            if (sp != std::string::npos && f.find('/', sp) != std::string::npos)
                f = f.substr(0, sp);
            // judge by the function's own name, not by the types in its template arguments
            std::string bare = strip_args(f);
            if (bare.find("Pistache::") != std::string::npos)
                return bare;
            if (firstAny.empty() && f.find("__interceptor") == std::string::npos && f.find("__sanitizer") == std::string::npos)
                firstAny = strip_args(f);
        }
        return firstAny;
    }

    inline std::vector<Report> scan_reports(const std::string& text)
    {
        std::vector<Report> out;
        std::vector<std::string> lines;
        size_t s = 0;
        while (s < text.size())
        {
            size_t e = text.find('\n', s);
            if (e == std::string::npos)
                e = text.size();
            lines.push_back(text.substr(s, e - s));
            s = e + 1;
        }
        for (size_t i = 0; i < lines.size(); ++i)
        {
            const std::string& l = lines[i];
            size_t p;
            if ((p = l.find("ERROR: AddressSanitizer: ")) != std::string::npos)
            {
                std::string type = l.substr(p + 25);
                size_t sp        = type.find(' ');
                if (sp != std::string::npos)
                    type = type.substr(0, sp);
                std::string rw;
                size_t end = i + 1;
                while (end < lines.size() && lines[end].find("ERROR: AddressSanitizer") == std::string::npos && end < i + 60)
                {
                    if (rw.empty() && (lines[end].find("READ of size") == 0 || lines[end].find("WRITE of size") == 0))
                        rw = lines[end].substr(0, lines[end].find(' '));
                    if (lines[end].find("SUMMARY: AddressSanitizer") != std::string::npos)
                    {
                        ++end;
                        break;
                    }
                    ++end;
                }
                Report r;
                r.sig = "asan:" + type + (rw.empty() ? "" : ":" + rw) + ":" + first_pistache_frame(lines, i, end);
                for (size_t k = i; k < end && k < i + 14; ++k)
                    r.text += lines[k] + "\n";
                r.fatal_for_worker = true;
                out.push_back(r);
                i = end - 1;
            }
            else if ((p = l.find(": runtime error: ")) != std::string::npos)
            {
                std::string file = l.substr(0, p);
                // with print_stacktrace=1 the frames follow; blame the first frame outside the C++ runtime
                size_t end = i + 1;
                std::string blame;
                while (end < lines.size() && lines[end].find("    #") == 0)
                {
                    const std::string& x = lines[end];
                    size_t sp            = x.rfind(' ');
                    std::string loc      = sp == std::string::npos ? "" : x.substr(sp + 1);
                    if (blame.empty() && loc.find('/') != std::string::npos && loc.find("/usr/include/") == std::string::npos && loc.find("libsanitizer") == std::string::npos && loc.find("/usr/lib/") == std::string::npos)
                        blame = loc;
                    ++end;
                }
                if (!blame.empty())
                    file = blame;
                size_t sl = file.rfind('/');
                if (sl != std::string::npos)
                    file = file.substr(sl + 1);
                size_t c1            = file.find(':');
                std::string fileonly = c1 == std::string::npos ? file : file.substr(0, c1);
                std::string msg = l.substr(p + 17), m2;
                // numbers in the message vary with the input; keep the shape only
                bool indigit = false;
                for (char c : msg)
                {
                    if (isdigit((unsigned char)c) || (indigit && (c == '.' || c == 'e' || c == '+' || c == '-')))
                    {
                        if (!indigit)
                            m2 += 'N';
                        indigit = true;
                    }
                    else
                    {
                        indigit = false;
                        m2 += c;
                    }
                }
                Report r;
                r.sig = "ubsan:" + fileonly + ":" + m2;
                for (size_t k = i; k < end && k < i + 10; ++k)
                    r.text += lines[k] + "\n";
                out.push_back(r);
                i = end - 1;
            }
            else if (l.find("WARNING: ThreadSanitizer: ") != std::string::npos)
            {
                p                = l.find("WARNING: ThreadSanitizer: ");
                std::string type = l.substr(p + 26);
                size_t par       = type.find(" (pid");
                if (par != std::string::npos)
                    type = type.substr(0, par);
                size_t end = i + 1;
                std::vector<std::string> frames;
                bool wantFrame = false;
                while (end < lines.size() && lines[end].find("SUMMARY: ThreadSanitizer") == std::string::npos && end < i + 120)
                {
                    const std::string& x = lines[end];
                    if (x.find("  Write of size") == 0 || x.find("  Read of size") == 0 || x.find("  Previous write") == 0 || x.find("  Previous read") == 0 || x.find("  Atomic") == 0 || x.find("  Previous atomic") == 0)
                        wantFrame = true;
                    else if (wantFrame && x.find("    #") == 0)
                    {
                        std::vector<std::string> one { x };
                        // look ahead within this stack for a Pistache frame
                        size_t k = end;
                        std::vector<std::string> stack;
                        while (k < lines.size() && lines[k].find("    #") == 0)
                            stack.push_back(lines[k++]);
                        frames.push_back(first_pistache_frame(stack, 0, stack.size()));
                        wantFrame = false;
                    }
                    ++end;
                }
                std::sort(frames.begin(), frames.end());
                Report r;
                r.sig = "tsan:" + type;
                for (auto& f : frames)
                    r.sig += ":" + f;
                for (size_t k = i; k <= end && k < lines.size() && k < i + 40; ++k)
                    r.text += lines[k] + "\n";
                out.push_back(r);
                i = end;
            }
        }
        return out;
    }

    inline std::string read_from(int fd, off_t from)
    {
        std::string s;
        char buf[8192];
        off_t off = from;
        for (;;)
        {
            ssize_t r = pread(fd, buf, sizeof buf, off);
            if (r <= 0)
                break;
            s.append(buf, r);
            off += r;
            if (s.size() > (1 << 20))
                break;
        }
        return s;
    }

    inline void Ctx::poll_reports()
    {
        if (efd < 0)
            return;
        struct stat st;
        if (fstat(efd, &st) != 0 || st.st_size <= epos)
            return;
        std::string txt = read_from(efd, epos);
        epos            = st.st_size;
        auto reps       = scan_reports(txt);
        std::set<std::string> seen;
        for (auto& r : reps)
        {
            if (seen.insert(r.sig).second)
                violation(r.sig, "{\"sanitizer\":" + jstr(r.text) + ",\"case\":" + jstr(shm->slots[worker].note) + "}");
            san_fatal |= r.fatal_for_worker;
        }
    }

    inline std::vector<std::string> Ctx::take_reports()
    {
        std::vector<std::string> sigs;
        if (efd < 0)
            return sigs;
        struct stat st;
        if (fstat(efd, &st) != 0 || st.st_size <= epos)
            return sigs;
        std::string txt = read_from(efd, epos);
        epos            = st.st_size;
        for (auto& r : scan_reports(txt))
            sigs.push_back(r.sig);
        return sigs;
    }

    // ---- the runner ---------------------------------------------------------------------------
    struct Runner
    {
        Options opt;
        uint64_t ncases = 0;
        CaseFn fn;
        Shm* shm                          = nullptr;
        std::atomic<uint64_t>* tabs[NSETS] = {};
        std::string wd;
        uint64_t t_start = 0;

        void setup_shm()
        {
            uint64_t tabsize = 1ull << opt.tab_log2;
            size_t sz        = sizeof(Shm) + NSETS * tabsize * sizeof(uint64_t) + 4096;
            void* p          = mmap(nullptr, sz, PROT_READ | PROT_WRITE, MAP_SHARED | MAP_ANONYMOUS, -1, 0);
            if (p == MAP_FAILED)
            {
                perror("mmap");
                exit(3);
            }
            shm          = new (p) Shm();
            shm->tabsize = tabsize;
            char* base   = static_cast<char*>(p) + ((sizeof(Shm) + 63) & ~size_t(63));
            for (int s = 0; s < NSETS; ++s)
                tabs[s] = reinterpret_cast<std::atomic<uint64_t>*>(base + s * tabsize * sizeof(uint64_t));
        }

        void init_ctx(Ctx& c, int w)
        {
            c.shm    = shm;
            c.worker = w;
            for (int s = 0; s < NSETS; ++s)
                c.tabs[s] = tabs[s];
        }

        // child body: lane w, starting at idx 'start' (stride = jobs), or a single idx
        [[noreturn]] void child(int w, uint64_t start, bool single)
        {
            std::string errp = wd + "/w" + std::to_string(w) + ".err";
            std::string logp = wd + "/w" + std::to_string(w) + ".log";
            int efd          = open(errp.c_str(), O_RDWR | O_CREAT | O_APPEND, 0644);
            dup2(efd, 2);
            Ctx c;
            init_ctx(c, w);
            c.logfd   = open(logp.c_str(), O_WRONLY | O_CREAT | O_APPEND, 0644);
            auto& sl  = shm->slots[w];
            c.efd  = efd;
            c.epos = lseek(efd, 0, SEEK_END);
            for (uint64_t idx = start; idx < ncases && idx < opt.last; idx += single ? ncases : opt.jobs)
            {
                if (shm->stop.load())
                    break;
                sl.next.store(idx);
                sl.note[0] = 0;
                sl.idx.store(idx);
                sl.t0.store(now_ns());
                sl.active.store(1);
                c.idx             = idx;
                c.case_violations = 0;
                fn(idx, c);
                c.poll_reports();
                sl.active.store(0);
                shm->cases_done.fetch_add(1);
                sl.next.store(idx + (single ? 0 : opt.jobs));
                if (c.san_fatal && !single)
                    _exit(77); // memory may be damaged: continue in a fresh process
                if (single)
                    break;
            }
            _exit(0);
        }

        struct Lane
        {
            pid_t pid = -1;
            bool done = false;
        };

        pid_t spawn(int w, uint64_t start, bool single)
        {
            fflush(stdout);
            fflush(stderr);
            pid_t p = fork();
            if (p < 0)
            {
                perror("fork");
                exit(3);
            }
            if (p == 0)
                child(w, start, single);
            return p;
        }

        void parent_violation(uint64_t idx, const std::string& sig, const std::string& detail)
        {
            shm->violations.fetch_add(1);
            std::string logp = wd + "/parent.log";
            int fd           = open(logp.c_str(), O_WRONLY | O_CREAT | O_APPEND, 0644);
            std::string l    = "{\"t\":\"violation\",\"idx\":" + std::to_string(idx) + ",\"sig\":" + jstr(sig) + ",\"detail\":" + detail + "}\n";
            ssize_t r        = ::write(fd, l.data(), l.size());
            (void)r;
            close(fd);
        }

        std::string err_tail(int w, size_t n = 3000)
        {
            std::string p = wd + "/w" + std::to_string(w) + ".err";
            int fd        = open(p.c_str(), O_RDONLY);
            if (fd < 0)
                return "";
            off_t sz      = lseek(fd, 0, SEEK_END);
            off_t from    = sz > (off_t)n ? sz - n : 0;
            std::string s = read_from(fd, from);
            close(fd);
            return s;
        }

        // run idx alone with a longer limit; returns "ok", "hang" or "crash:<sig>"
        std::string confirm(uint64_t idx, uint64_t limit_ms)
        {
            int w = opt.jobs; // spare lane
            if (w >= MAXW)
                w = MAXW - 1;
            pid_t p     = spawn(w, idx, true);
            uint64_t t0 = now_ns();
            for (;;)
            {
                int st;
                pid_t r = waitpid(p, &st, WNOHANG);
                if (r == p)
                {
                    if (WIFEXITED(st) && WEXITSTATUS(st) == 0)
                        return "ok";
                    return "crash";
                }
                if ((now_ns() - t0) / 1000000 > limit_ms)
                {
                    kill(p, SIGKILL);
                    waitpid(p, &st, 0);
                    return "hang";
                }
                usleep(2000);
            }
        }

        int run()
        {
            t_start = now_ns();
            wd      = opt.workdir;
            if (wd.empty())
            {
                char tmpl[] = "/var/tmp/vrun-XXXXXX";
                char* d     = mkdtemp(tmpl);
                wd          = d ? d : "/var/tmp";
            }
            else
                mkdir(wd.c_str(), 0755);
            setup_shm();

            if (opt.only >= 0)
            {
                Ctx c;
                init_ctx(c, 0);
                c.verbose = true;
                c.idx     = opt.only;
                c.logfd   = -1;
                auto& sl  = shm->slots[0];
                sl.note[0] = 0;
                fn(opt.only, c);
                printf("case %" PRIu64 " note=%s violations=%" PRIu64 "\n", (uint64_t)opt.only, sl.note, c.case_violations);
                return c.case_violations ? 1 : 0;
            }

            std::vector<Lane> lanes(opt.jobs);
            for (int w = 0; w < opt.jobs; ++w)
            {
                uint64_t start = opt.first + w;
                shm->slots[w].next.store(start);
                if (start < ncases && start < opt.last)
                    lanes[w].pid = spawn(w, start, false);
                else
                    lanes[w].done = true;
            }
            bool deadline_hit = false;
            for (;;)
            {
                bool all = true;
                for (int w = 0; w < opt.jobs; ++w)
                {
                    if (lanes[w].done)
                        continue;
                    all = false;
                    int st;
                    pid_t r = waitpid(lanes[w].pid, &st, WNOHANG);
                    auto& sl = shm->slots[w];
                    if (r == lanes[w].pid)
                    {
                        if (WIFEXITED(st) && WEXITSTATUS(st) == 0)
                        {
                            lanes[w].done = true;
                            continue;
                        }
                        uint64_t idx = sl.idx.load();
                        if (WIFEXITED(st) && WEXITSTATUS(st) == 77)
                        {
                            // sanitizer report already logged by the worker; resume after it
                        }
                        else
                        {
                            std::string what = WIFSIGNALED(st) ? "signal:" + std::to_string(WTERMSIG(st)) : "exit:" + std::to_string(WEXITSTATUS(st));
                            std::string tail = err_tail(w);
                            auto reps        = scan_reports(tail);
                            std::string sig  = "crash:" + what;
                            // a fatal sanitizer report (e.g. SEGV through ASan) carries the better signature
                            if (!reps.empty())
                                sig = "crash:" + reps.back().sig;
                            parent_violation(idx, sig, "{\"status\":" + jstr(what) + ",\"case\":" + jstr(sl.note) + ",\"stderr_tail\":" + jstr(tail.size() > 1500 ? tail.substr(tail.size() - 1500) : tail) + "}");
                            sl.next.store(idx + opt.jobs);
                        }
                        uint64_t nxt = sl.next.load();
                        if (sl.active.load())
                            nxt = idx + opt.jobs;
                        sl.active.store(0);
                        if (nxt < ncases && nxt < opt.last && !shm->stop.load())
                            lanes[w].pid = spawn(w, nxt, false);
                        else
                            lanes[w].done = true;
                        continue;
                    }
                    if (sl.active.load() && (now_ns() - sl.t0.load()) / 1000000 > opt.timeout_ms)
                    {
                        uint64_t idx = sl.idx.load();
                        std::string note = sl.note;
                        kill(lanes[w].pid, SIGKILL);
                        waitpid(lanes[w].pid, &st, 0);
                        sl.active.store(0);
                        std::string verdict = confirm(idx, opt.timeout_ms * 8);
                        if (verdict == "hang")
                            parent_violation(idx, "hang", "{\"case\":" + jstr(note) + ",\"limit_ms\":" + std::to_string(opt.timeout_ms * 8) + "}");
                        else if (verdict == "crash")
                            parent_violation(idx, "crash:on-rerun", "{\"case\":" + jstr(note) + "}");
                        // "ok": merely slow under load; the rerun already covered the case
                        uint64_t nxt = idx + opt.jobs;
                        if (nxt < ncases && nxt < opt.last && !shm->stop.load())
                            lanes[w].pid = spawn(w, nxt, false);
                        else
                            lanes[w].done = true;
                    }
                }
                if (all)
                    break;
                if (!shm->stop.load())
                {
                    if ((now_ns() - t_start) / 1e9 > opt.deadline_s)
                    {
                        deadline_hit = true;
                        shm->stop.store(1);
                    }
                    if (shm->violations.load() >= opt.max_viol)
                        shm->stop.store(2);
                }
                usleep(5000);
            }
            write_summary(deadline_hit);
            return 0;
        }

        void write_summary(bool deadline_hit)
        {
            // everything below min(next) over all lanes has been executed
            uint64_t completed_below = UINT64_MAX;
            uint64_t upper = ncases < opt.last ? ncases : opt.last;
            for (int w = 0; w < opt.jobs; ++w)
            {
                uint64_t n = shm->slots[w].next.load();
                if (n < completed_below)
                    completed_below = n;
            }
            if (completed_below > upper)
                completed_below = upper;
            std::string j = "{";
            j += "\"ncases\":" + std::to_string(ncases);
            j += ",\"cases_done\":" + std::to_string(shm->cases_done.load());
            j += ",\"completed_below\":" + std::to_string(completed_below);
            j += ",\"complete\":" + std::string(completed_below >= upper && !shm->stop.load() ? "true" : "false");
            j += ",\"deadline_hit\":" + std::string(deadline_hit ? "true" : "false");
            j += ",\"stopped_on_violations\":" + std::string(shm->stop.load() == 2 ? "true" : "false");
            j += ",\"jobs\":" + std::to_string(opt.jobs);
            j += ",\"wall_s\":" + std::to_string((now_ns() - t_start) / 1e9);
            static const char* names[NSETS] = { "states", "nontrivial", "outcomes", "extra" };
            j += ",\"sets\":{";
            for (int s = 0; s < NSETS; ++s)
                j += std::string(s ? "," : "") + "\"" + names[s] + "\":" + std::to_string(shm->setcount[s].load());
            j += "},\"set_overflow\":" + std::string((shm->setfull[0] | shm->setfull[1] | shm->setfull[2] | shm->setfull[3]) ? "true" : "false");
            j += ",\"counters\":{";
            bool first = true;
            for (int i = 0; i < NCOUNTERS; ++i)
                if (shm->counters[i].st.load() == 2)
                {
                    j += std::string(first ? "" : ",") + jstr(shm->counters[i].name) + ":" + std::to_string(shm->counters[i].v.load());
                    first = false;
                }
            j += "},\"workdir\":" + jstr(wd) + "}";
            if (opt.out.empty())
                printf("%s\n", j.c_str());
            else
            {
                FILE* f = fopen(opt.out.c_str(), "w");
                fprintf(f, "%s\n", j.c_str());
                fclose(f);
            }
        }
    };

    inline int run(const Options& opt, uint64_t ncases, CaseFn fn)
    {
        Runner r;
        r.opt    = opt;
        r.ncases = ncases;
        r.fn     = std::move(fn);
        return r.run();
    }
} // namespace vr

// Default (no-op) definition of the scheduling hook compiled into pistache under -DPISTACHE_VERIF; harnesses
// that drive the cooperative scheduler define a strong one.
#ifndef VR_OWN_VERIF_POINT
extern "C" __attribute__((weak)) void pistache_verif_point(int, const void*) { }
#endif
