/* vsched.c - see vsched.h. Compiled WITHOUT sanitizer instrumentation. */
#define _GNU_SOURCE
#include "vsched.h"

#include <errno.h>
#include <linux/futex.h>
#include <pthread.h>
#include <stdint.h>
#include <stdio.h>
#include <stdlib.h>
#include <string.h>
#include <sys/syscall.h>
#include <time.h>
#include <unistd.h>

typedef struct {
    pthread_t th;
    void (*fn)(void*);
    void* arg;
    volatile int go;      /* futex: scheduler -> thread */
    volatile int kind;
    const void* volatile addr;
    volatile int done;
    volatile int joined;
} vs_thread;

static vs_thread g_threads[VS_MAX_THREADS];
static volatile int g_n        = 0;
static volatile int g_back     = 0; /* futex: thread -> scheduler */
static volatile int g_abort    = 0;
static __thread int t_self     = -1;

static long futex(volatile int* addr, int op, int val)
{
    return syscall(SYS_futex, addr, op, val, NULL, NULL, 0);
}

static void wait_flag(volatile int* f)
{
    while (!__atomic_load_n(f, __ATOMIC_ACQUIRE))
        futex(f, FUTEX_WAIT, 0);
    __atomic_store_n(f, 0, __ATOMIC_RELEASE);
}
static void set_flag(volatile int* f)
{
    __atomic_store_n(f, 1, __ATOMIC_RELEASE);
    futex(f, FUTEX_WAKE, 1);
}

void vs_reset(void)
{
    g_n     = 0;
    g_back  = 0;
    g_abort = 0;
    memset((void*)g_threads, 0, sizeof g_threads);
}

int vs_self(void) { return t_self; }
int vs_nthreads(void) { return g_n; }

static void* trampoline(void* p)
{
    vs_thread* t = (vs_thread*)p;
    t_self       = (int)(t - g_threads);
    /* parked at VS_START until first scheduled */
    wait_flag(&t->go);
    t->fn(t->arg);
    t->kind = VS_EXIT;
    __atomic_store_n(&t->done, 1, __ATOMIC_RELEASE);
    t_self = -1;
    set_flag(&g_back);
    return NULL;
}

int vs_spawn(void (*fn)(void*), void* arg)
{
    if (g_n >= VS_MAX_THREADS)
        return -1;
    int i        = g_n;
    vs_thread* t = &g_threads[i];
    t->fn        = fn;
    t->arg       = arg;
    t->go        = 0;
    t->kind      = VS_START;
    t->addr      = NULL;
    t->done      = 0;
    t->joined    = 0;
    g_n          = i + 1;
    if (pthread_create(&t->th, NULL, trampoline, t) != 0) {
        perror("pthread_create");
        abort();
    }
    return i;
}

void vs_point(int kind, const void* addr)
{
    if (t_self < 0 || __atomic_load_n(&g_abort, __ATOMIC_ACQUIRE))
        return;
    vs_thread* t = &g_threads[t_self];
    t->kind      = kind;
    t->addr      = addr;
    set_flag(&g_back);
    wait_flag(&t->go);
}

vs_info vs_get(int tid)
{
    vs_info i;
    i.kind = g_threads[tid].kind;
    i.addr = g_threads[tid].addr;
    i.done = __atomic_load_n(&g_threads[tid].done, __ATOMIC_ACQUIRE);
    return i;
}

void vs_step(int tid)
{
    vs_thread* t = &g_threads[tid];
    set_flag(&t->go);
    wait_flag(&g_back);
}

void vs_join_all(void)
{
    for (int i = 0; i < g_n; ++i)
        if (!g_threads[i].joined) {
            pthread_join(g_threads[i].th, NULL);
            g_threads[i].joined = 1;
        }
}

/* Abandon an execution whose remaining threads are parked: lift the gate so that they run free. Threads
 * parked at a harness-level wait observe vs_aborted() and unwind; returns the number of threads that did
 * not finish within the grace period (they are detached and leaked). */
int vs_aborted(void) { return __atomic_load_n(&g_abort, __ATOMIC_ACQUIRE); }

void vs_kill_all(void)
{
    __atomic_store_n(&g_abort, 1, __ATOMIC_RELEASE);
    for (int i = 0; i < g_n; ++i)
        if (!g_threads[i].done)
            set_flag(&g_threads[i].go);
    for (int i = 0; i < g_n; ++i)
        if (!g_threads[i].joined) {
            struct timespec ts;
            syscall(SYS_clock_gettime, CLOCK_REALTIME, &ts); /* raw: harnesses may interpose clock_gettime */
            ts.tv_nsec += 200 * 1000 * 1000;
            if (ts.tv_nsec >= 1000000000L) {
                ts.tv_sec += 1;
                ts.tv_nsec -= 1000000000L;
            }
            if (pthread_timedjoin_np(g_threads[i].th, NULL, &ts) != 0)
                pthread_detach(g_threads[i].th);
            g_threads[i].joined = 1;
        }
}

/* glibc: the first int of a pthread_mutex_t is its lock word (0 = free). Peeked from this uninstrumented
 * file, so that neither a lock/unlock pair nor an instrumented read adds anything to TSan's view. */
int vs_mutex_free(const void* m)
{
    return __atomic_load_n((const int*)m, __ATOMIC_RELAXED) == 0;
}
