/* vsched: cooperative scheduler for real threads. Exactly one registered thread runs at a time; threads hand
 * the baton back at "points" (the PISTACHE_VERIF_POINT hooks inside pistache and points of the harness
 * itself). The hand-off uses raw futex system calls from an uninstrumented C file, so that under TSan it
 * creates no happens-before edge: unsynchronised accesses in the code under test stay visible as races
 * although the executions are serialised. */
#ifndef VSCHED_H
#define VSCHED_H
#ifdef __cplusplus
extern "C" {
#endif

#define VS_MAX_THREADS 8

/* point kinds */
enum {
    VS_START = 0,      /* thread created, has not run yet */
    VS_EXIT  = 1,      /* thread finished */
    /* mailbox.h */
    VS_Q_PUSH_BEFORE_XCHG = 10,
    VS_Q_PUSH_BEFORE_LINK = 11,
    VS_Q_PUSH_AFTER_LINK  = 12,
    VS_Q_POP_BEFORE_LOAD  = 13,
    VS_Q_POP_AFTER_LOAD   = 14,
    VS_PQ_PUSH_BEFORE_NOTIFY = 15,
    VS_PQ_POP_BEFORE_DRAIN   = 16,
    VS_PQ_POP_AFTER_DRAIN    = 17,
    /* async.h */
    VS_A_LOCK        = 20, /* about to acquire the mutex at addr: enabled iff it is free */
    VS_A_STATE_LOAD  = 21,
    VS_A_STATE_STORE = 22,
    VS_A_REQ_APPEND  = 23,
    VS_A_REQ_WALK    = 24,
    VS_A_CONSTRUCT   = 25,
    VS_A_UNLOCKED    = 26,
    /* harness */
    VS_WAIT_READABLE = 40, /* blocked until fd (addr = (void*)(long)fd) is readable */
    VS_YIELD         = 41
};

typedef struct vs_info {
    int kind;
    const void* addr;
    int done;
} vs_info;

void vs_reset(void);                                 /* before each execution (no registered thread may be alive) */
int vs_spawn(void (*fn)(void*), void* arg);          /* returns thread index; the thread is parked at VS_START */
void vs_point(int kind, const void* addr);           /* called by registered threads; no-op for others */
vs_info vs_get(int tid);                             /* where thread tid is parked */
void vs_step(int tid);                               /* run thread tid until its next point or its exit */
void vs_join_all(void);                              /* pthread_join every spawned thread (all must be done) */
int vs_self(void);                                   /* index of the calling thread, -1 if not registered */
int vs_nthreads(void);
int vs_mutex_free(const void* mutex);               /* lock word of a pthread mutex is 0 */
int vs_aborted(void);                               /* the current execution is being abandoned */
void vs_kill_all(void);                              /* abandon an execution: let parked threads run free to exit is
                                                        NOT possible in general; used only when all are done */

#ifdef __cplusplus
}
#endif
#endif
