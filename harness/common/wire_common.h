// Shared by C05 (emitted bytes are well-formed, exact framing) and C02 (what one side writes the other
// parses back): a programmable Http::Handler behind the real transport loop, response specs, and the
// client request product built through Experimental::RequestBuilder + the real writeRequest.
#pragma once
#include "locale_env.h"
// the client serialiser is TU-local: compile the shipped source into this harness
#include <src/client/client.cc>

#include "loop.h"
#include "parser_common.h"
#include "rfc7230.h"

namespace wc
{
    using namespace Pistache;
    using namespace pc;

    // ---- response side --------------------------------------------------------------------------
    struct HeaderChoice
    {
        const char* name;
        const char* text; // expected value on the wire
        std::function<void(Http::Header::Collection&)> add;
    };
    // a handler-defined header whose writer leaves a sticky format flag on the stream it was given (hexadecimal):
    // what is written after it - other headers, Content-Length - must not be affected
    class XTraceId : public Http::Header::Header
    {
    public:
        NAME("X-Trace-Id")
        explicit XTraceId(unsigned id = 0)
            : id_(id)
        { }
        void parse(const std::string&) override { }
        void write(std::ostream& os) const override { os << std::hex << id_; }

    private:
        unsigned id_;
    };

    inline const std::vector<HeaderChoice>& rsp_headers()
    {
        static std::vector<HeaderChoice> v = {
            { "Server", "pistache/0.1", [](Http::Header::Collection& h) { h.add<Http::Header::Server>("pistache/0.1"); } },
            { "Content-Type", "application/json", [](Http::Header::Collection& h) { h.add<Http::Header::ContentType>(MIME(Application, Json)); } },
            { "Location", "/x/y?z=1", [](Http::Header::Collection& h) { h.add<Http::Header::Location>("/x/y?z=1"); } },
            { "Cache-Control", "max-age=60", [](Http::Header::Collection& h) { h.add<Http::Header::CacheControl>(Http::CacheDirective(Http::CacheDirective::MaxAge, std::chrono::seconds(60))); } },
            { "Access-Control-Allow-Origin", "*", [](Http::Header::Collection& h) { h.add<Http::Header::AccessControlAllowOrigin>("*"); } },
            { "Content-Encoding", "gzip", [](Http::Header::Collection& h) { h.add<Http::Header::ContentEncoding>(Http::Header::Encoding::Gzip); } },
            { "Allow", "GET, POST", [](Http::Header::Collection& h) { h.add<Http::Header::Allow>(std::vector<Http::Method> { Http::Method::Get, Http::Method::Post }); } },
            { "X-Trace-Id", "ff", [](Http::Header::Collection& h) { h.add<XTraceId>(255u); } },
            // index 8, used by streamed responses only (C05 case B): a transfer coding of the handler's own; the framework's
            // "chunked" must still be announced, as the final coding (two Transfer-Encoding lines read as one list, RFC 7230 3.2.2)
            { "Transfer-Encoding", "gzip", [](Http::Header::Collection& h) { h.add<Http::Header::TransferEncoding>(Http::Header::Encoding::Gzip); } },
        };
        return v;
    }
    struct CookieChoice
    {
        const char* text;
        std::function<Http::Cookie()> make;
    };
    inline const std::vector<CookieChoice>& rsp_cookies()
    {
        static std::vector<CookieChoice> v = {
            { "sid=abc", [] { return Http::Cookie("sid", "abc"); } },
            { "lang=en; Path=/; HttpOnly", [] {
                 Http::Cookie c("lang", "en");
                 c.path     = "/";
                 c.httpOnly = true;
                 return c;
             } },
            { "t=1; Domain=example.com; Max-Age=10; Secure", [] {
                 Http::Cookie c("t", "1");
                 c.domain = "example.com";
                 c.maxAge = 10;
                 c.secure = true;
                 return c;
             } },
            // (round 6) the usual "never expires" value: the largest Max-Age there is
            { "keep=1; Path=/; Max-Age=2147483647; HttpOnly", [] {
                 Http::Cookie c("keep", "1");
                 c.path     = "/";
                 c.maxAge   = 2147483647;
                 c.httpOnly = true;
                 return c;
             } },
        };
        return v;
    }

    enum OpKind { OP_WRITE,
                  OP_CSTR,
                  OP_INT,
                  OP_FLUSH };
    struct StreamOp
    {
        OpKind kind;
        long n; // size for WRITE/CSTR, value for INT
    };

    struct RspSpec
    {
        int code = 200;
        std::vector<int> headers;
        std::vector<int> cookies;
        bool stream = false;
        size_t bodyLen = 0;        // send
        int salt       = 0;
        std::vector<StreamOp> ops; // stream
        size_t streamSize   = 512;
        size_t maxResponse  = 0;   // 0 = default
        int moveStream      = 0;   // 0: used in place; 1: move-constructed before the first op; 2: after the first op
        bool useMimeArg     = false;
        long fileSize       = -1;  // >= 0: the response is a file of that size, answered with Http::serveFile
        int fileExt         = 0;   // index into file_exts()
        int locale = 0;               // 1 / 2: a digit-grouping C++ locale is the process-wide one while the response is produced
        std::vector<lp::Answer> plan; // answers of the socket to the successive write calls of the response (default: all accepted)
    };
    struct FileExt
    {
        const char* ext;
        const char* mime; // "" = no Content-Type is derived from the name
    };
    inline const std::vector<FileExt>& file_exts()
    {
        static std::vector<FileExt> v = { { ".txt", "text/plain" }, { ".png", "image/png" }, { ".bin", "application/octet-stream" }, { ".unknownext", "" }, { "", "" } };
        return v;
    }
    inline std::string file_path(const RspSpec& s)
    {
        return "/var/tmp/c05-file-" + std::to_string(getpid()) + "-" + std::to_string(s.fileSize) + "-" + std::to_string(s.salt) + file_exts()[s.fileExt].ext;
    }

    struct RspResult
    {
        bool handlerRan   = false;
        int promise       = 0; // 0 pending, 1 fulfilled, 2 rejected (send only)
        ssize_t fulfilled = -1;
        ssize_t reportedSize = -1;
        std::string threw;
        std::string wire;      // bytes received by the client
        std::string written;   // data the handler wrote (expected decoded body)
    };

    inline std::string int_text(long v) { return std::to_string(v); }

    class ProgHandler : public Http::Handler
    {
    public:
        HTTP_PROTOTYPE(ProgHandler)
        const RspSpec* spec = nullptr;
        RspResult* res      = nullptr;

        void onRequest(const Http::Request&, Http::ResponseWriter w) override
        {
            res->handlerRan = true;
            try
            {
                for (int h : spec->headers)
                    rsp_headers()[h].add(w.headers());
                for (int c : spec->cookies)
                    w.cookies().add(rsp_cookies()[c].make());
                if (spec->fileSize >= 0)
                {
                    res->written = payload((size_t)spec->fileSize, spec->salt);
                    auto p       = Http::serveFile(w, file_path(*spec));
                    RspResult* r = res;
                    p.then([r](ssize_t n) { r->promise = 1; r->fulfilled = n; }, [r](std::exception_ptr) { r->promise = 2; });
                }
                else if (!spec->stream)
                {
                    std::string body = payload(spec->bodyLen, spec->salt);
                    res->written     = body;
                    auto p           = spec->useMimeArg ? w.send(static_cast<Http::Code>(spec->code), body, MIME(Text, Plain)) : w.send(static_cast<Http::Code>(spec->code), body);
                    RspResult* r     = res;
                    p.then([r](ssize_t n) { r->promise = 1; r->fulfilled = n; }, [r](std::exception_ptr) { r->promise = 2; });
                    res->reportedSize = w.getResponseSize();
                }
                else
                {
                    auto s0 = w.stream(static_cast<Http::Code>(spec->code), spec->streamSize);
                    // a ResponseStream is movable: handlers keep it beyond onRequest (shared_ptr, lambda capture)
                    std::unique_ptr<Http::ResponseStream> moved;
                    Http::ResponseStream* sp = &s0;
                    if (spec->moveStream == 1)
                    {
                        moved.reset(new Http::ResponseStream(std::move(*sp)));
                        sp = moved.get();
                    }
                    int k  = 0;
                    int nops = 0;
                    for (const auto& op : spec->ops)
                    {
                        Http::ResponseStream& s = *sp;
                        switch (op.kind)
                        {
                        case OP_WRITE: {
                            std::string d = payload(op.n, spec->salt + k++);
                            s.write(d.data(), d.size());
                            res->written += d;
                            break;
                        }
                        case OP_CSTR: {
                            std::string d(op.n, char('a' + (k++ % 26)));
                            s << d.c_str();
                            res->written += d;
                            break;
                        }
                        case OP_INT: {
                            int v = (int)op.n;
                            s << v;
                            res->written += int_text(v);
                            break;
                        }
                        case OP_FLUSH:
                            s << Http::flush;
                            break;
                        }
                        if (++nops == 1 && spec->moveStream == 2)
                        {
                            auto* n2 = new Http::ResponseStream(std::move(*sp));
                            moved.reset(n2);
                            sp = n2;
                        }
                    }
                    Http::ResponseStream& s = *sp;
                    s << Http::ends;
                }
            }
            catch (const std::exception& e)
            {
                res->threw = e.what();
            }
        }
    };

    // one request/response cycle on a fresh loop
    inline RspResult run_response(const RspSpec& spec, uint64_t* steps = nullptr)
    {
        RspResult res;
        vr::ScopedGlobalLocale processLocale(spec.locale);
        auto handler  = std::make_shared<ProgHandler>();
        handler->spec = &spec;
        handler->res  = &res;
        if (spec.maxResponse)
            handler->setMaxResponseSize(spec.maxResponse);
        if (spec.fileSize >= 0)
        {
            std::string path = file_path(spec), data = payload((size_t)spec.fileSize, spec.salt);
            FILE* f = fopen(path.c_str(), "w");
            if (!f || fwrite(data.data(), 1, data.size(), f) != data.size())
            {
                perror("c05 file");
                abort();
            }
            fclose(f);
        }
        {
            lp::Loop loop(handler);
            std::shared_ptr<Tcp::Peer> peer;
            int cfd = loop.connect_peer(&peer);
            loop.settle();
            const int sfd = peer->fd();
            lp::World& W  = lp::W();
            for (auto& a : spec.plan)
                W.plan[sfd].push_back(a);
            lp::client_send(cfd, "GET / HTTP/1.1\r\nConnection: keep-alive\r\n\r\n");
            int idle = 0;
            for (int round = 0; round < 400; ++round)
            {
                bool progressed = loop.step();
                if (steps)
                    *steps += 1;
                bool held = W.held.count(sfd) && W.held[sfd];
                if (held)
                {
                    if (W.release_in[sfd] <= 0)
                        loop.release(sfd);
                    else
                        --W.release_in[sfd];
                }
                std::string got = lp::client_recv_all(cfd);
                res.wire += got;
                if (!progressed && got.empty() && !held)
                {
                    if (++idle >= 3)
                        break;
                }
                else
                    idle = 0;
            }
        }
        if (spec.fileSize >= 0)
            unlink(file_path(spec).c_str());
        return res;
    }

    // expected header multiset as sorted "name: value" lines (names lower-cased)
    inline std::vector<std::string> expected_rsp_headers(const RspSpec& s, const std::string& framing)
    {
        std::vector<std::string> e;
        bool ctChosen = false;
        for (int h : s.headers)
        {
            e.push_back(rfc::lower(rsp_headers()[h].name) + ": " + rsp_headers()[h].text);
            if (!strcmp(rsp_headers()[h].name, "Content-Type"))
                ctChosen = true;
        }
        if (s.useMimeArg && !s.stream)
        {
            // send(code, body, mime) sets / replaces the Content-Type
            if (ctChosen)
                for (auto& x : e)
                    if (x.compare(0, 13, "content-type:") == 0)
                        x = "content-type: text/plain";
            if (!ctChosen)
                e.push_back("content-type: text/plain");
        }
        for (int c : s.cookies)
            e.push_back(std::string("set-cookie: ") + rsp_cookies()[c].text);
        e.push_back("connection: Keep-Alive"); // echoed from the request by Handler::onInput
        e.push_back(framing);
        std::sort(e.begin(), e.end());
        return e;
    }
    inline std::vector<std::string> wire_headers(const rfc::Message& m)
    {
        std::vector<std::string> e;
        for (auto& h : m.headers)
            e.push_back(rfc::lower(h.first) + ": " + h.second);
        std::sort(e.begin(), e.end());
        return e;
    }
    inline std::string join(const std::vector<std::string>& v)
    {
        std::string o;
        for (auto& s : v)
            o += s + " | ";
        return o;
    }

    // ---- request side ---------------------------------------------------------------------------
    struct ReqHeaderChoice
    {
        const char* name;
        const char* text;
        std::function<void(Http::Experimental::RequestBuilder&)> add;
    };
    inline const std::vector<ReqHeaderChoice>& req_headers()
    {
        using RB = Http::Experimental::RequestBuilder;
        static std::vector<ReqHeaderChoice> v = {
            { "Accept", "", [](RB& b) { b.header<Http::Header::Accept>(); } }, // writer emits nothing
            { "Content-Type", "application/json", [](RB& b) { b.header<Http::Header::ContentType>(MIME(Application, Json)); } },
            { "Authorization", "Basic dXNlcjpwYXNz", [](RB& b) { b.header<Http::Header::Authorization>("Basic dXNlcjpwYXNz"); } },
            { "Cache-Control", "no-cache", [](RB& b) { b.header<Http::Header::CacheControl>(Http::CacheDirective::NoCache); } },
            { "Connection", "Keep-Alive", [](RB& b) { b.header<Http::Header::Connection>(Http::ConnectionControl::KeepAlive); } },
            { "Content-Encoding", "deflate", [](RB& b) { b.header<Http::Header::ContentEncoding>(Http::Header::Encoding::Deflate); } },
            { "Expect", "100-continue", [](RB& b) { b.header<Http::Header::Expect>(Http::Expectation::Continue); } },
            { "Access-Control-Allow-Headers", "X-a, X-b", [](RB& b) { b.header<Http::Header::AccessControlAllowHeaders>("X-a, X-b"); } },
            // a header the client also writes by itself: the caller's value must be the one (and only one) that arrives.
            // (User-Agent is not in the alphabet: Client::doRequest deliberately replaces a caller-set User-Agent)
            { "Host", "api.example.com:8443", [](RB& b) { b.header<Http::Header::Host>("api.example.com", Port(8443)); } },
        };
        return v;
    }

    struct ReqSpec
    {
        int method  = 0;   // index into methods()
        int resource = 0;
        int query    = 0;
        std::vector<int> headers;
        int ncookies = 0;
        int body     = 0;  // index into bodies
        int cookieAttrs = 0; // attributes set on the Cookie objects handed to the builder (as if taken from a response's jar):
                             // 1 Path, 2 Domain + Max-Age, 3 Secure, 4 HttpOnly, 5 extension, 6 all of them
    };
    inline void apply_cookie_attrs(Http::Cookie& c, int a)
    {
        if (a == 1 || a == 6)
            c.path = std::string("/app");
        if (a == 2 || a == 6)
        {
            c.domain = std::string("example.com");
            c.maxAge = 3600;
        }
        if (a == 3 || a == 6)
            c.secure = true;
        if (a == 4 || a == 6)
            c.httpOnly = true;
        if (a == 5 || a == 6)
            c.ext.insert(std::make_pair("Scope", "x"));
    }
    inline const std::vector<Http::Method>& methods()
    {
        static std::vector<Http::Method> m = { Http::Method::Get, Http::Method::Post, Http::Method::Put, Http::Method::Patch, Http::Method::Delete };
        return m;
    }
    struct Res
    {
        const char* given;
        const char* host;
        const char* path;
        const char* ownQuery = ""; // a query written into the resource string itself
    };
    inline const std::vector<Res>& resources()
    {
        static std::vector<Res> r = { { "/", "", "/" }, { "/a/b", "", "/a/b" }, { "host:80/a", "host:80", "/a" }, { "http://host/a", "host", "/a" }, { "http://www.host.org/a/b/c", "host.org", "/a/b/c" },
                                      // no path at all; a query straight after the authority; a query after a path
                                      { "host:8080", "host:8080", "/" }, { "http://host", "host", "/" }, { "http://host:81?x=1", "host:81", "/", "x=1" }, { "host/p/q?x=1&y=2", "host", "/p/q", "x=1&y=2" } };
        return r;
    }
    inline const std::vector<std::vector<std::pair<std::string, std::string>>>& queries()
    {
        static std::vector<std::vector<std::pair<std::string, std::string>>> q = { {}, { { "k", "v" } }, { { "a", "1" }, { "b", "2" } }, { { "x", "" }, { "yy", "z-z" }, { "n", "42" } } };
        return q;
    }
    inline std::vector<std::string> req_bodies()
    {
        std::vector<std::string> b = { "", "x", "line\r", "\r\n", std::string("a\0b", 3), payload(300, 3), payload(4096, 5) };
        for (int c = 0; c < 256; ++c)
            b.push_back(std::string(1, char(c)));
        return b;
    }

    struct BuiltRequest
    {
        std::string wire;
        Http::Request request;
    };
    inline BuiltRequest build_request(const ReqSpec& s, const std::vector<std::string>& bodies)
    {
        Http::Experimental::RequestBuilder b(nullptr);
        b.method(methods()[s.method]);
        b.resource(resources()[s.resource].given);
        Http::Uri::Query q;
        for (auto& kv : queries()[s.query])
            q.add(kv.first, kv.second);
        b.params(q);
        for (int h : s.headers)
            req_headers()[h].add(b);
        static const char* cn[] = { "sid", "lang", "t" };
        static const char* cv[] = { "abc", "en", "1" };
        for (int i = 0; i < s.ncookies; ++i)
        {
            Http::Cookie ck(cn[i], cv[i]);
            apply_cookie_attrs(ck, s.cookieAttrs);
            b.cookie(ck);
        }
        b.body(bodies[s.body]);
        BuiltRequest r;
        r.request = b.request_;
        std::stringstream ss;
        Http::Experimental::writeRequest(ss, b.request_);
        r.wire = ss.str();
        return r;
    }

    inline std::string expected_target(const ReqSpec& s)
    {
        return resources()[s.resource].path;
    }
} // namespace wc

// ---- the enumerated space (shared by C05 and C02) ---------------------------------------------
using namespace wc;
static std::vector<int> gCodes;
static std::vector<std::vector<int>> gHdrSets, gCookieSets;
static std::vector<size_t> gLens;
static std::vector<size_t> gSizes; // stream chunk sizes
static std::vector<long> gInts;
static std::vector<std::vector<StreamOp>> gPrograms;
static std::vector<ReqSpec> gReqs;
static std::vector<std::string> gBodies;

static void gen_programs(int Kops, bool quick)
{
    // units: an op optionally followed by a flush
    std::vector<StreamOp> units;
    for (size_t sz : gSizes)
        units.push_back({ OP_WRITE, (long)sz });
    for (size_t sz : { size_t(1), size_t(9), size_t(16), size_t(255) })
        units.push_back({ OP_CSTR, (long)sz });
    for (long v : gInts)
        units.push_back({ OP_INT, v });
    (void)quick;
    std::function<void(std::vector<StreamOp>&, int)> rec = [&](std::vector<StreamOp>& cur, int depth) {
        gPrograms.push_back(cur);
        if (depth == Kops)
            return;
        for (auto& u : units)
        {
            for (int fl = 0; fl < 2; ++fl)
            {
                cur.push_back(u);
                if (fl)
                    cur.push_back({ OP_FLUSH, 0 });
                rec(cur, depth + 1);
                if (fl)
                    cur.pop_back();
                cur.pop_back();
            }
        }
    };
    std::vector<StreamOp> cur;
    rec(cur, 0);
    // integers at the digit-count boundaries and of both signs, streamed alone, flushed, and after a write
    static const long kEdge[] = { 9, 99, 100, 99999, 100000, 2147483647L, -1, -9, -10, -11, -42, -99, -100, -12345, -999999999, -2147483647L - 1 };
    for (long v : kEdge)
    {
        gPrograms.push_back({ { OP_INT, v } });
        gPrograms.push_back({ { OP_INT, v }, { OP_FLUSH, 0 } });
        gPrograms.push_back({ { OP_WRITE, 5 }, { OP_INT, v }, { OP_INT, v } });
    }
}


static void build_space(bool thorough, int Kops)
{
    if (thorough)
    {
        gCodes = { 100, 101, 102, 103, 200, 201, 202, 203, 204, 205, 206, 207, 208, 226, 300, 301, 302, 303, 304, 305, 307, 308, 400, 401, 402, 403, 404, 405, 406, 407, 408, 409, 410, 411, 412, 413, 414, 415, 416, 417, 418, 421, 422, 423, 424, 426, 428, 429, 431, 444, 451, 499, 500, 501, 502, 503, 504, 505, 506, 507, 508, 510, 511, 599 };
        for (size_t l = 0; l <= 2200; ++l)
            gLens.push_back(l);
        gSizes = { 0, 1, 9, 10, 15, 16, 17, 255, 256, 4095, 4096, 65536 };
        gInts  = { 0, 7, 10, 105, 1000, -5 };
    }
    else
    {
        gCodes = { 200, 204, 301, 404, 500 };
        for (size_t l = 0; l <= 600; l += 1)
            gLens.push_back(l);
        for (size_t l = 1000; l <= 1100; ++l)
            gLens.push_back(l);
        for (size_t l = 2000; l <= 2100; ++l)
            gLens.push_back(l);
        gSizes = { 0, 1, 9, 10, 16, 17, 255, 256, 4096, 65536 };
        gInts  = { 0, 7, 10, 105, -5 };
    }
    gHdrSets    = { {}, { 0 }, { 1 }, { 0, 2, 3 }, { 4, 5, 6 }, { 1, 3 }, { 7 }, { 7, 0 } };
    gCookieSets = { {}, { 0 }, { 1, 2 }, { 3 }, { 0, 3 } };
    if (!thorough)
    {
        gHdrSets    = { {}, { 0, 2, 3 }, { 1, 6 }, { 7 } };
        gCookieSets = { {}, { 1, 2 }, { 3 } };
    }
    gen_programs(Kops, !thorough);
    gBodies = req_bodies();
    // request product: methods x resources x queries x header sets (<=2) x cookies x bodies (thinned)
    {
        auto hs = header_sets((int)req_headers().size(), 2);
        int rot = 0;
        for (size_t mth = 0; mth < methods().size(); ++mth)
            for (size_t r = 0; r < resources().size(); ++r)
                for (size_t q = 0; q < queries().size(); ++q)
                    for (size_t h = 0; h < hs.size(); ++h)
                    {
                        if (*resources()[r].ownQuery && q != 0)
                            continue; // (a resource that carries its own query is not combined with params())
                        if (!thorough && (h + mth + r) % 4 != 0)
                            continue;
                        for (int c = 0; c <= 3; ++c)
                        {
                            ReqSpec s;
                            s.method   = (int)mth;
                            s.resource = (int)r;
                            s.query    = (int)q;
                            s.headers  = hs[h];
                            s.ncookies = c;
                            s.body     = (rot++) % 7;
                            gReqs.push_back(s);
                        }
                    }
        // cookies that carry attributes (taken out of a response's jar and handed back to the builder): a request's Cookie
        // header lists name=value pairs only
        for (int c = 1; c <= 3; ++c)
            for (int a = 1; a <= 6; ++a)
                for (int mth = 0; mth < 2; ++mth)
                {
                    ReqSpec s;
                    s.method      = mth;
                    s.ncookies    = c;
                    s.cookieAttrs = a;
                    s.body        = mth ? 1 : 0;
                    gReqs.push_back(s);
                }
        // every single-byte body value
        for (size_t b = 0; b < gBodies.size(); ++b)
        {
            ReqSpec s;
            s.method = 1;
            s.body   = (int)b;
            gReqs.push_back(s);
        }
    }
}
