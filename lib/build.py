"""Build cache: pistache objects per flavour, harness executables.

Everything is keyed on a content hash of the /repo sources so a changed tree always rebuilds.
"""
import fcntl
import hashlib, os, re, shutil, subprocess, sys, time
from concurrent.futures import ThreadPoolExecutor

REPO = os.environ.get("VERIF_REPO", "/repo")
VERIF = os.path.dirname(os.path.dirname(os.path.abspath(__file__)))
BUILD = os.path.join(VERIF, "build")
GUARD = "PISTACHE_VERIF"

COMMON = ["-std=c++17", "-g1", "-fno-omit-frame-pointer", "-DNDEBUG", "-DONLY_C_LOCALE=1",
          "-D" + GUARD, "-pthread", "-w"]
FLAVOURS = {
    # sanitizer reports are turned into verdicts by the runner (stderr scan), so they must not abort
    "asan": ["-O1", "-fsanitize=address,undefined,float-cast-overflow", "-fsanitize-recover=all",
             "-D_GLIBCXX_SANITIZE_VECTOR"],
    "tsan": ["-O1", "-fsanitize=thread"],
    "plain": ["-O2"],
}


def _src_files():
    out = []
    for sub in ("include", "src", "subprojects/hinnant-date/include"):
        base = os.path.join(REPO, sub)
        for d, _, fs in os.walk(base):
            for f in fs:
                if f.endswith((".h", ".cc", ".hpp", ".in")):
                    out.append(os.path.join(d, f))
    out.append(os.path.join(REPO, "version.txt"))
    return sorted(out)


def tree_hash():
    h = hashlib.sha256()
    for p in _src_files():
        h.update(p.encode())
        with open(p, "rb") as f:
            h.update(hashlib.sha256(f.read()).digest())
    return h.hexdigest()[:12]


def _gen_version_h(dst_inc):
    vals = {}
    for line in open(os.path.join(REPO, "version.txt")):
        m = re.match(r"\s*(\w+)\s+(\S+)", line)
        if m:
            vals[m.group(1)] = m.group(2)
    txt = open(os.path.join(REPO, "include/pistache/version.h.in")).read()
    for k, v in vals.items():
        if k in ("VERSION_MAJOR", "VERSION_MINOR", "VERSION_PATCH"):
            v = str(int(v))  # "002" would be an invalid octal-looking literal otherwise fine; keep numeric
        txt = txt.replace("@" + k + "@", v)
    os.makedirs(os.path.join(dst_inc, "pistache"), exist_ok=True)
    with open(os.path.join(dst_inc, "pistache", "version.h"), "w") as f:
        f.write(txt)


def include_flags(root):
    return ["-I" + os.path.join(REPO, "include"), "-I" + os.path.join(root, "geninc"),
            "-I" + os.path.join(REPO, "subprojects/hinnant-date/include"),
            "-I" + os.path.join(VERIF, "harness"), "-I" + REPO]


def _run(cmd, what):
    r = subprocess.run(cmd, stdout=subprocess.PIPE, stderr=subprocess.STDOUT, text=True)
    if r.returncode != 0:
        sys.stderr.write("BUILD-ERROR (%s): %s\n%s\n" % (what, " ".join(cmd), r.stdout[-6000:]))
        raise SystemExit(2)


def _prune(keep):
    """Bound disk use: keep the 5 most recently used trees; never touch one used in the last 30 min
    (a concurrent check may be running from it)."""
    if not os.path.isdir(BUILD):
        return
    ds = [d for d in os.listdir(BUILD) if os.path.isdir(os.path.join(BUILD, d)) and d != keep]
    ds.sort(key=lambda d: os.path.getmtime(os.path.join(BUILD, d)))
    now = time.time()
    for d in ds[:-4]:
        if now - os.path.getmtime(os.path.join(BUILD, d)) > 1800:
            shutil.rmtree(os.path.join(BUILD, d), ignore_errors=True)


def tree_root():
    root = os.path.join(BUILD, tree_hash())
    if os.path.isdir(root):
        os.utime(root, None)
    if not os.path.isdir(os.path.join(root, "geninc")):
        os.makedirs(root, exist_ok=True)
        _gen_version_h(os.path.join(root, "geninc"))
        _prune(os.path.basename(root))
    return root


class _BuildLock:
    """Builds of the same tree by concurrent check.py processes take turns (one lock file per build directory)."""

    def __enter__(self):
        os.makedirs(os.path.join(VERIF, "build"), exist_ok=True)
        self.f = open(os.path.join(VERIF, "build", ".lock"), "w")
        fcntl.flock(self.f, fcntl.LOCK_EX)
        return self

    def __exit__(self, *a):
        fcntl.flock(self.f, fcntl.LOCK_UN)
        self.f.close()


def build_flavour(flavour, jobs=16):
    with _BuildLock():
        return _build_flavour(flavour, jobs)


def _build_flavour(flavour, jobs=16):
    """Compile all src/**/*.cc into <root>/<flavour>/libpistache.a; returns the archive path."""
    root = tree_root()
    odir = os.path.join(root, flavour)
    lib = os.path.join(odir, "libpistache.a")
    if os.path.exists(lib):
        return lib
    os.makedirs(odir, exist_ok=True)
    srcs = []
    for d, _, fs in os.walk(os.path.join(REPO, "src")):
        for f in fs:
            if f.endswith(".cc"):
                srcs.append(os.path.join(d, f))
    srcs.sort()
    flags = COMMON + FLAVOURS[flavour] + include_flags(root)
    objs = []

    def cc(src):
        obj = os.path.join(odir, os.path.basename(src)[:-3] + ".o")
        _run(["g++"] + flags + ["-c", src, "-o", obj], "object " + src)
        return obj

    with ThreadPoolExecutor(jobs) as ex:
        objs = list(ex.map(cc, srcs))
    tmp = lib + ".tmp"
    if os.path.exists(tmp):
        os.unlink(tmp)
    _run(["ar", "rcs", tmp] + objs, "archive")
    os.rename(tmp, lib)
    return lib


def build_harness(name, sources, flavour, extra_flags=(), c_sources=(), link_lib=True, defines=()):
    lib = build_flavour(flavour) if link_lib else None  # (takes the lock itself)
    with _BuildLock():
        return _build_harness(name, sources, flavour, extra_flags, c_sources, link_lib, defines, lib)


def _build_harness(name, sources, flavour, extra_flags, c_sources, link_lib, defines, lib):
    """Compile harness sources (+ optional uninstrumented C sources) and link with the flavour's
    pistache archive. Harness executables are cached on (tree hash, harness source hash)."""
    root = tree_root()
    h = hashlib.sha256()
    hdir = os.path.join(VERIF, "harness")
    deps = list(sources) + list(c_sources)
    for d, _, fs in os.walk(os.path.join(hdir, "common")):
        deps += [os.path.join(d, f) for f in sorted(fs)]
    for p in deps:
        h.update(open(p, "rb").read())
    h.update(repr((flavour, tuple(extra_flags), tuple(defines))).encode())
    exe = os.path.join(root, flavour, "%s-%s" % (name, h.hexdigest()[:10]))
    if os.path.exists(exe):
        return exe
    os.makedirs(os.path.dirname(exe), exist_ok=True)
    flags = COMMON + FLAVOURS[flavour] + include_flags(root) + ["-fno-access-control"] + \
        ["-D" + d for d in defines] + list(extra_flags)
    objs = []

    def cc(src):
        obj = exe + "." + os.path.basename(src).replace(".", "_") + ".o"
        if src.endswith(".c"):
            # scheduler hand-off code: never instrumented, so it adds no happens-before edges
            _run(["gcc", "-O2", "-g1", "-pthread", "-I" + hdir, "-c", src, "-o", obj], "c " + src)
        else:
            _run(["g++"] + flags + ["-c", src, "-o", obj], "harness " + src)
        return obj

    with ThreadPoolExecutor(8) as ex:
        objs = list(ex.map(cc, list(sources) + list(c_sources)))
    link = ["g++"] + FLAVOURS[flavour] + ["-pthread", "-o", exe + ".tmp"] + objs
    if lib:
        link.append(lib)
    link += ["-ldl", "-lrt"]
    _run(link, "link " + name)
    os.rename(exe + ".tmp", exe)
    for o in objs:
        os.unlink(o)
    return exe


if __name__ == "__main__":
    t = time.time()
    for fl in sys.argv[1:] or ["asan"]:
        print(build_flavour(fl))
    print("%.1fs" % (time.time() - t))
