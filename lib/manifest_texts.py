"""Texts for MANIFEST.json, per claimed property."""

NOTE_A = ("trusted base: g++ 12 + ASan/UBSan runtime, the harness and its reference model/oracle, the runner; "
          "bounds and alphabets as printed in the evidence file; sequential code, so no scheduling assumptions")
NOTE_B = ("trusted base: the controlled scheduler / interposed libc layer (send, epoll_wait, timerfd, clock), real "
          "kernel semantics for epoll/eventfd/socketpair/loopback; sequentially consistent memory; bounds as "
          "printed in the evidence file")

TEXTS = {
    "C01": {
        "engine": "seqx", "design_ref": "DESIGN.md §4 C01",
        "technique": "explicit-state model checking of the real parser: exhaustive BFS of the segmentation state graph "
                     "(bytes delivered x full parser state) per message, invariant on every node",
        "level_text": "For every message of a bounded corpus the complete segmentation state graph of the real "
                      "request/response parser is enumerated, which covers all 2^(n-1) ways of cutting it into reads; "
                      "on every node the outcome must agree with the one-shot parse (and with the generator's intent "
                      "for well-formed messages). This is exhaustive within the corpus and length bound, which is the "
                      "right level for a property quantified over all segmentations that tests can only sample.",
        "level_note": NOTE_A + "; the state abstraction is validated in-run against brute-force enumeration",
    },
}

TEXTS["C02"] = {
    "engine": "seqx", "design_ref": "DESIGN.md §4 C02",
    "technique": "bounded-exhaustive enumeration of builder/writer programs executed on the real serialisers and "
                 "parsers (explicit product space, field-by-field comparison with the spec on every case)",
    "level_text": "Every request of a bounded RequestBuilder product is serialised by the shipped writeRequest and "
                  "delivered through the shipped transport + Http::Handler; every response of the ResponseWriter / "
                  "ResponseStream product is parsed by the shipped ResponseParser (one-shot and byte by byte). All "
                  "cases of the stated finite space are executed, none sampled.",
    "level_note": NOTE_A,
}
TEXTS["C03"] = {
    "engine": "seqx", "design_ref": "DESIGN.md §4 C03",
    "technique": "bounded-exhaustive input enumeration (parser modes x all strings over an alphabet up to length L, "
                 "two-point mutations, numeric boundary values, header-value grammars) on the real parsers with "
                 "sanitizers, allocation watcher and watchdog as oracles",
    "level_text": "All inputs of the stated finite spaces are executed against the real request/response parsers in "
                  "three delivery modes; any sanitizer report, hang, or allocation beyond 4*maxRequestSize+64KiB is a "
                  "violation. Exhaustive within alphabet and length bounds, which is where the end-of-buffer and "
                  "overflow defects of this class live.",
    "level_note": NOTE_A + "; a second part (c03_server) delivers the request-side inputs to one connection of a real "
                  "Http::Handler + Tcp::Transport while a bystander connection of the same worker is in mid-request: 4xx/5xx or "
                  "left waiting, bystander answered with its own response, no exception leaves the event loop; a streamed-body "
                  "family checks the size limit while a body keeps arriving",
}
TEXTS["C04"] = {
    "engine": "seqx", "design_ref": "DESIGN.md §4 C04",
    "technique": "explicit enumeration of all message sequences up to depth K on one connection, executed on the real "
                 "handler/transport (server) and Connection (client), differential oracle against a fresh connection",
    "level_text": "All sequences of length <= K over 17 request events x 3 deliveries and 10 response events x 3 deliveries run on "
                  "one real connection; each message's observation must equal the fresh-connection observation and the parser "
                  "must be back in the fresh state; every pair (predecessor padded to the 4096-byte read size, successor in "
                  "the same write) reaches the handler in two consecutive calls with no system call failing in between. "
                  "Exhaustive to depth K.",
    "level_note": NOTE_A,
}
TEXTS["C05"] = {
    "engine": "seqx", "design_ref": "DESIGN.md §4 C05",
    "technique": "bounded-exhaustive enumeration of writer/stream programs on the real code, every emitted byte string "
                 "judged by an independent RFC 7230 reference reader",
    "level_text": "Every body length of the range (covering the 512/1024/2048 buffer doublings), every status code, "
                  "header/cookie set, limit setting around the exact size and every stream program up to Kops is "
                  "executed; file responses (serveFile: sizes x name extensions x header/cookie sets) are executed under "
                  "every plan of short / would-block socket answers with <= 1 (thorough 2) deviations and with head-size "
                  "limits; the reference reader must accept exactly one message with the intended framing.",
    "level_note": NOTE_A + "; the reference reader (harness/common/rfc7230.h) is part of the trusted base",
}

TEXTS["C10"] = {
    "engine": "seqx", "design_ref": "DESIGN.md §4 C10",
    "technique": "exhaustive enumeration of all route tables up to T patterns x all paths up to 4 segments on the real "
                 "SegmentTreeNode / Router, compared with a nondeterministic reference matcher; differential add/remove",
    "level_text": "Every table of <=2 (thorough <=3) patterns over a 7-symbol segment alphabet and every path of <=4 "
                  "segments is looked up in the real router; the answer must be one the reference matcher (the property's "
                  "wording made executable) can produce. Router::route is exercised end to end for handler invocation, "
                  "bindings, 405/Allow and 404. Exhaustive within the alphabet, where overlaps and shadowing are dense.",
    "level_note": NOTE_A + "; the reference matcher is part of the trusted base; order among same-kind siblings is left open as the property leaves it",
}
TEXTS["C11"] = {
    "engine": "seqx", "design_ref": "DESIGN.md §4 C11",
    "technique": "exhaustive enumeration of all promise-API programs of K operations (each a linearisation of "
                 "create/attach/settle events) executed on the real templates, compared with a reference interpreter",
    "level_text": "All programs of exactly K operations (K=4 quick, 5 thorough) over create / then (5 continuation kinds x 3 "
                  "rejection handlers) / whenAll / whenAllRange / whenAny / resolve / reject run on the real async.h; the "
                  "multiset of continuation outcomes must equal the reference's, nothing runs twice, nothing escapes. Further "
                  "exhaustive families: combinator sweep (1..4 inputs x pre-settled subsets x settle orders x outcomes), "
                  "void-source chains, movable payloads (string / vector values, continuations before and after the fulfilment), ownership (every subset of the chain's promise objects and the resolver dropped "
                  "before the outcome arrives); and, with the controlled scheduler of C12, every schedule within the "
                  "preemption bound of two threads settling the inputs of whenAny / whenAll (plus a TSan pass).",
    "level_note": NOTE_A + "; what the property leaves open (derived promise after a non-rethrowing handler) is not compared",
}
TEXTS["C12"] = {
    "engine": "vsched", "design_ref": "DESIGN.md §4 C12",
    "technique": "stateless model checking of the real code: preemption-bounded DFS over all schedules of 2-3 real threads "
                 "gated at hook points in async.h, plus the same schedules under ThreadSanitizer",
    "level_text": "Nineteen settle-vs-attach scenarios (root, derived one or two levels, void promises, pending inner promises, "
                  "derived promises that already carry one continuation or a full list of two); every schedule with <=2 preemptions (thorough: <=3, and all schedules for "
                  "the 2-thread scenarios) is executed on the real Promise implementation and each continuation must run "
                  "exactly once with the settled outcome; TSan sees the same serialised schedules without happens-before "
                  "from the scheduler, so unsynchronised accesses are reported.",
    "level_note": NOTE_B,
}
TEXTS["C13"] = {
    "engine": "vsched", "design_ref": "DESIGN.md §4 C13",
    "technique": "stateless model checking of the real queue: preemption-bounded DFS over all schedules of producers and "
                 "one consumer, scheduling points at every atomic operation and eventfd read/write; deadlock = missed wake-up",
    "level_text": "PollableQueue<int> with 1..3 real producer threads and a consumer that drains like the transport does; "
                  "all schedules within the preemption bound are executed; loss, duplication, reordering and a consumer "
                  "asleep with an item queued are detected per execution; a TSan pass repeats the schedules.",
    "level_note": NOTE_B + "; scheduling points come from an atomic-operation shim and interposed eventfd I/O, so they do not depend on source hooks",
}
for pid, what in (("C16", "typed header values and name capitalisations"), ("C17", "cookies, attribute sets and Cookie headers"),
                  ("C18", "media-type texts"), ("C19", "address and port texts"), ("C20", "byte strings, credentials and invalid Base64 texts")):
    TEXTS[pid] = {
        "engine": "seqx", "design_ref": "DESIGN.md §4 " + pid,
        "technique": "bounded-exhaustive enumeration of " + what + " on the real code against an independent reference / round-trip oracle, ASan+UBSan as memory oracle",
        "level_text": "Every input of the explicitly defined finite space (sizes in the evidence file) is evaluated on the real "
                      "implementation; round-trip laws and rejection behaviour are checked on each, and exact-size unterminated "
                      "buffers make any over-read a sanitizer report. Exhaustive within the stated alphabets and lengths.",
        "level_note": NOTE_A,
    }

TEXTS["C06"] = {
    "engine": "vsched", "design_ref": "DESIGN.md §4 C06",
    "technique": "exhaustive fault enumeration on the real transport: all plans of socket answers (short write / would-block "
                 "and hold) with <= D deviations over the first 8 write calls x all write lists x issue schedules, "
                 "event loop stepped deterministically through an interposed epoll_wait",
    "level_text": "Every (write list, issue schedule, answer plan) combination within the bounds is executed on the real "
                  "Tcp::Transport and reactor; the peer's byte stream, the settle count/value/time of every promise and "
                  "liveness at quiescence are checked on each, also with the second write issued (and the transport flushed) by the "
                  "completion of the first. Exhaustive within D and the size alphabet.",
    "level_note": NOTE_B,
}
TEXTS["C07"] = {
    "engine": "vsched", "design_ref": "DESIGN.md §4 C07",
    "technique": "exhaustive enumeration of a stall grid (pending writes x would-block position x stall duration x arrival "
                 "step of another connection's request x kernel event order) on the real transport, step-bounded liveness "
                 "and busy-wait verdicts",
    "level_text": "All combinations of the grid run on the real transport + Http::Handler; the other connection must be answered "
                  "within a fixed number of event-loop steps, the worker must return to epoll_wait after a would-block, and "
                  "the stalled connection must receive everything after release. A second harness (c07_idle) measures the stall "
                  "in virtual time on a real gated endpoint: every (response size, stall of 0..5 half-seconds around the idle "
                  "time-out, input on the stalled connection at tick i, bystander request at tick j) combination.",
    "level_note": NOTE_B,
}
TEXTS["C08"] = {
    "engine": "vsched", "design_ref": "DESIGN.md §4 C08",
    "technique": "explicit enumeration of all client-event histories up to a depth bound against a real Http::Endpoint whose "
                 "threads are gated at epoll_wait under virtual time; invariants after every history",
    "level_text": "All histories over connect / partial and whole requests / read / close / half-close / reset / tick, their composites "
                  "(incl. a connection reset or closed while still in the listen backlog, answers sent from an application thread), "
                  "write stalls, failing writes (ECONNRESET) and a vanished peer (read fails with ETIMEDOUT, no further event), "
                  "with handlers that answer at once, serve files, arm response time-outs or keep the response for later, "
                  "on 1..2 connections up to the depth bound are executed; handler call balance, "
                  "double release, descriptor and per-connection state at quiescence, continued service and thread "
                  "termination are checked after each.",
    "level_note": NOTE_B,
}
TEXTS["C09"] = {
    "engine": "vsched", "design_ref": "DESIGN.md §4 C09",
    "technique": "deviation-bounded DFS over the orders of event-loop steps of real acceptor/worker threads and client actions, "
                 "shutdown injected at every schedule prefix, plus the same schedules under ThreadSanitizer with a "
                 "built-in vacuity self-test",
    "level_text": "Scenarios with 2-3 workers sharing one router and 2-3 keep-alive clients are explored up to D deviations "
                  "from the canonical order; responses must match their requests, shutdown at every point must terminate "
                  "all threads, and the TSan build (gate and socket I/O invisible to TSan, deliberate race must be seen) "
                  "must report no race.",
    "level_note": NOTE_B + "; granularity is one epoll_wait batch per thread",
}
TEXTS["C14"] = {
    "engine": "vsched", "design_ref": "DESIGN.md §4 C14",
    "technique": "exhaustive enumeration of read splits around each size limit and of a stall-point x duration x time-out grid "
                 "under virtual time against a real gated Http::Endpoint",
    "level_text": "Every split of limit-1/limit/limit+1 sized requests into <=3 reads and every (time-out pair, stall point, "
                  "stall duration, scan phase) combination - for the first to third (fourth) request of a connection - is executed on "
                  "the real endpoint; 413/handler and 408/200 outcomes must be exactly as the limits prescribe.",
    "level_note": NOTE_B + "; time is virtual",
}

TEXTS["C15"] = {
    "engine": "vsched", "design_ref": "DESIGN.md §4 C15",
    "technique": "deviation-bounded DFS over the orders of client reactor steps, request issues, scripted-server actions and "
                 "virtual-time ticks, with a real Experimental::Client whose threads are gated at epoll_wait",
    "level_text": "For every scenario (client threads, connection limit, batch of tagged requests, per-request server "
                  "behaviour, time-outs) every schedule within the deviation bound is executed against the real client; "
                  "settle-once, own-response-only, fulfilled-when-answered, rejected-on-time-out and the connection limit are "
                  "checked per execution; scenarios include two hosts through one client; the per-host ring of waiting "
                  "requests is instantiated with capacities 2, 4, 8 and driven through every enqueue/dequeue sequence of "
                  "length 16 (20) against a bounded FIFO.",
    "level_note": NOTE_B + "; the former known finding (late response after a time-out) is repaired in /repo (88b527f)",
}

NOT_APPLICABLE = {}
