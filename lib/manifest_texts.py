"""Texts for MANIFEST.json, per claimed property."""

NOTE_A = ("trusted base: g++ 12 + ASan/UBSan runtime, the harness and its reference model/oracle, the runner; "
          "bounds and alphabets as printed in the evidence file; sequential code, so no scheduling assumptions")
NOTE_B = ("trusted base: the controlled scheduler / interposed libc layer (send, epoll_wait, timerfd, clock), real "
          "kernel semantics for epoll/eventfd/socketpair/loopback; sequentially consistent memory; bounds as "
          "printed in the evidence file")

TEXTS = {
    "C01": {
        "engine": "seqx", "design_ref": "DESIGN.md §4 C01",
        "technique": "explicit-state model checking of the real parser: exhaustive BFS of the segmentation state graph "
                     "(bytes delivered x full parser state) per message, invariant on every node",
        "level_text": "For every message of a bounded corpus the complete segmentation state graph of the real "
                      "request/response parser is enumerated, which covers all 2^(n-1) ways of cutting it into reads; "
                      "on every node the outcome must agree with the one-shot parse (and with the generator's intent "
                      "for well-formed messages). This is exhaustive within the corpus and length bound, which is the "
                      "right level for a property quantified over all segmentations that tests can only sample.",
        "level_note": NOTE_A + "; the state abstraction is validated in-run against brute-force enumeration",
    },
}

NOT_APPLICABLE = {}
