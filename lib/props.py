"""Per-property configuration: which harness parts to build and run at which tier."""

PROPS = {}


def prop(pid, parts, rule, assumptions=(), bounds=None):
    PROPS[pid] = {"parts": parts, "rule": rule, "assumptions": list(assumptions), "bounds": bounds or {}}


COMMON_ASSUME = [
    "sequentially consistent execution of the real implementation compiled with g++ 12 -O1 -DNDEBUG and "
    "ASan+UBSan (container annotations on); the shipped -O2 binary is assumed to behave the same",
    "inputs outside the enumerated alphabets/bounds are not covered",
]

prop("C01", [
    {"name": "c01_segmentation", "sources": ["c01_segmentation.cc"], "flavour": "asan",
     "args": {"quick": ["--level=0", "--maxlen=140", "--mut-stride=5", "--timeout-ms=10000", "--deadline-s=420"],
              "thorough": ["--level=2", "--maxlen=420", "--mut-stride=1", "--bf2-every=4", "--timeout-ms=20000",
                           "--deadline-s=1200"]}},
],
    rule="one case = one message of the corpus (well-formed product of request lines x header subsets x "
         "Content-Length/chunked bodies, responses, and every single-byte deletion/duplication/substitution "
         "of 12 base messages); for each the complete segmentation state graph of the real parser is "
         "explored (nodes = (bytes delivered, full parser state), edges = one read of j bytes), which covers "
         "all 2^(n-1) segmentations; states/transitions are graph nodes/edges executed on the "
         "implementation; non-trivial = distinct (message, cut offset) pairs where the read ends inside a "
         "line (not right after LF)",
    assumptions=COMMON_ASSUME + [
        "graph abstraction validated in-run by brute-force enumeration (all segmentations for n<=18, all "
        "<=2-cut segmentations for a sample of messages) and by state reproduction on replay"],
    bounds={"quick": "messages <= 140 bytes, compact covering corpus + every 5th mutation",
            "thorough": "messages <= 420 bytes, full product corpus + all mutations, until the deadline"})

prop("C03", [
    {"name": "c03_robustness", "sources": ["c03_robustness.cc"], "flavour": "asan",
     "args": {"quick": ["--L=4", "--Lv=3", "--Dt=3", "--timeout-ms=8000", "--deadline-s=170"],
              "thorough": ["--L=5", "--Lv=4", "--Dt=4", "--tab-log2=25", "--timeout-ms=20000", "--deadline-s=1500"]}},
    {"name": "c03_server", "sources": ["c03_server.cc"], "flavour": "asan",
     "args": {"quick": ["--L=3", "--Lb=1", "--Dt=2", "--timeout-ms=20000", "--deadline-s=170"],
              "thorough": ["--L=4", "--Lb=2", "--Dt=3", "--timeout-ms=60000", "--deadline-s=1200"]}},
],
    rule="one case = a block of up to 512 inputs: (A) 34 parser modes x every string over a 12-symbol alphabet "
         "(letters, digits, separators, CR, LF, NUL, 0xFF) up to length L, with and without a completing tail; "
         "(B) two-point mutations of 12 base messages; (C) 9 numeric fields x 25 boundary values; (D) 22 header "
         "names x every value over a 13-character alphabet up to length Lv and over per-header token alphabets up "
         "to depth Dt, embedded in a real message; each input is delivered one-shot, split at its seams and byte by "
         "byte to the real parser under ASan+UBSan, an allocation watcher (bound 4*maxRequestSize+64KiB) and the "
         "watchdog; transitions = parser feed+parse steps; non-trivial = distinct inputs with a non-empty garbage part",
    assumptions=COMMON_ASSUME,
    bounds={"quick": "L=4, Lv=3, Dt=3", "thorough": "L=5, Lv=4, Dt=4 (until the deadline)"})

prop("C04", [
    {"name": "c04_sequences", "sources": ["c04_sequences.cc"], "flavour": "asan",
     "args": {"quick": ["--K=2", "--timeout-ms=10000", "--deadline-s=150"],
              "thorough": ["--K=3", "--timeout-ms=20000", "--deadline-s=1200"]}},
],
    rule="one case = one sequence of <=K events on one connection; server side: 13 request events (bodyless, query, "
         "cookie, Content-Length, chunked, with header; abandoned by an error: length+chunked, bad chunk after a "
         "chunk, unknown method, bad version, oversize in mid-body) x 3 deliveries (whole, cut inside, byte by byte) "
         "through a real Http::Handler + Tcp::Transport over a socketpair; client side: 9 response events x 3 "
         "deliveries through a real Experimental::Connection::handleResponsePacket; oracle: k-th observation equals "
         "the fresh-connection observation and the parser is back in the fresh state; states = distinct "
         "(parser state, observation) pairs; transitions = event-loop steps / packets; non-trivial = sequences of "
         "length >= 2",
    assumptions=COMMON_ASSUME + ["pipelined requests (two requests in one read) are outside the alphabet: the "
                                 "server discards the buffer on completion by design"],
    bounds={"quick": "all sequences of length <= 2", "thorough": "all sequences of length <= 3"})

prop("C05", [
    {"name": "c05_wire", "sources": ["c05_wire.cc"], "flavour": "asan",
     "args": {"quick": ["--Kops=2", "--timeout-ms=30000", "--deadline-s=170"],
              "thorough": ["--thorough=1", "--Kops=3", "--timeout-ms=120000", "--deadline-s=1500"]}},
],
    rule="(A) one case = (status code, header set, cookie set): ResponseWriter::send for every body length of the "
         "range, and for a thinned set of lengths also maxResponseSize in {total-1,total,total+1,512,1024}; (B) one "
         "case = one ResponseStream program (all sequences up to Kops of write / <<const char* / <<int over the size "
         "and value alphabets, flush after any subset) x streamSize {1,64,512}; (C) one case = one client request "
         "built with RequestBuilder and serialised by the real writeRequest; bytes are captured at the peer end of a "
         "socketpair behind the real transport loop and judged by an independent RFC 7230 reader (exactly one "
         "message, status, header multiset incl. framing header exactly once, body/chunks equal data written, "
         "reported size, refusal emits nothing); evaluations = messages emitted; transitions = event-loop steps; "
         "non-trivial = distinct specs with a limit near the size / stream programs / requests",
    assumptions=COMMON_ASSUME + ["ResponseStream << (u)int8_t is outside the value alphabet (it is written as a character)"],
    bounds={"quick": "5 codes, body lengths 0..600,1000..1100,2000..2100, stream programs <= 2 ops",
            "thorough": "64 codes, body lengths 0..2200, stream programs <= 3 ops (until the deadline)"})

prop("C02", [
    {"name": "c02_roundtrip", "sources": ["c02_roundtrip.cc"], "flavour": "asan",
     "args": {"quick": ["--Kops=2", "--timeout-ms=30000", "--deadline-s=170"],
              "thorough": ["--thorough=1", "--Kops=3", "--timeout-ms=120000", "--deadline-s=1500"]}},
],
    rule="requests: one case = one RequestBuilder spec (5 methods x 5 resource forms x 4 query maps x typed-header "
         "subsets (<=2 of 7) x 0..3 cookies x bodies incl. every single byte value, CR/CRLF endings, NUL, 4 KiB), "
         "serialised by the real writeRequest and delivered over a socketpair to a real Http::Handler; the Request "
         "seen in onRequest must equal the spec field by field (headers as sorted multiset, Cookie pairs as a set); "
         "responses: the C05 space of ResponseWriter::send (codes x header sets x cookie sets x body lengths) and "
         "ResponseStream programs, bytes parsed by the real ResponseParser one-shot and byte by byte, Response must "
         "equal the spec; evaluations = messages; non-trivial = distinct wire images",
    assumptions=COMMON_ASSUME + ["Accept (empty writer) and typed Allow (no-op reader) are outside the round-trip alphabet; "
                                 "their raw header text is still compared"],
    bounds={"quick": "thinned request product, 5 codes, stream programs <= 2 ops",
            "thorough": "full request product, 64 codes, stream programs <= 3 ops (until the deadline)"})

prop("C10", [
    {"name": "c10_find", "sources": ["c10_router.cc"], "flavour": "asan",
     "args": {"quick": ["--mode=find", "--T=2", "--timeout-ms=120000", "--deadline-s=170"]}},
    {"name": "c10_find_fast", "sources": ["c10_router.cc"], "flavour": "plain",
     "args": {"thorough": ["--mode=find", "--T=3", "--timeout-ms=3000000", "--deadline-s=2400"]}},
    {"name": "c10_e2e", "sources": ["c10_router.cc"], "flavour": "asan",
     "args": {"quick": ["--mode=e2e", "--last=120", "--timeout-ms=120000", "--deadline-s=170"],
              "thorough": ["--mode=e2e", "--timeout-ms=600000", "--deadline-s=1500"]}},
],
    rule="find: one case = a first pattern i; every route table {i}, {i,j}, ({i,j,k}) over the 3xx patterns of 1..3 "
         "segments from {a,b,:x,:y,:o?,:p?,*} x all 121 paths of <=4 segments over {a,b,c} through the real "
         "SegmentTreeNode::findRoute vs the reference matcher (implementation's answer must be one the reference can "
         "produce under some sibling order), plus add-all/remove-one vs table-without-it; e2e: (GET pattern i, POST "
         "pattern j, optional PUT j) x paths of <=3 segments x 3 methods x slash decorations through Router::route "
         "with a real ResponseWriter: one handler invocation with the reference's bindings, else 405 with the exact "
         "Allow set, else 404 / not-found handler exactly once; states = distinct tables, transitions = lookups / "
         "event-loop steps",
    assumptions=COMMON_ASSUME,
    bounds={"quick": "all tables of <=2 patterns (find), first 120 patterns (e2e)",
            "thorough": "all tables of <=3 patterns (find, -O2 build, until the deadline), all patterns (e2e)"})

prop("C11", [
    {"name": "c11_promises", "sources": ["c11_promises.cc"], "flavour": "asan",
     "args": {"quick": ["--K=4", "--comb=2", "--prefix=3", "--timeout-ms=120000", "--deadline-s=170"],
              "thorough": ["--K=5", "--comb=3", "--prefix=3", "--tab-log2=25", "--timeout-ms=1200000", "--deadline-s=2400"]}},
    # the combinators' inputs settled by two threads at once (the same controlled scheduler and harness as C12)
    {"name": "c11_combinators_mt", "sources": ["c12_async.cc"], "c_sources": ["common/vsched.c"], "flavour": "asan",
     "args": {"quick": ["--from=13", "--to=17", "--maxbound=2", "--timeout-ms=40000", "--deadline-s=170"],
              "thorough": ["--from=13", "--to=17", "--thorough=1", "--maxbound=3", "--timeout-ms=3000000", "--deadline-s=1200"]}},
    {"name": "c11_combinators_mt_tsan", "sources": ["c12_async.cc"], "c_sources": ["common/vsched.c"], "flavour": "tsan",
     "args": {"quick": ["--from=13", "--to=17", "--maxbound=1", "--timeout-ms=40000", "--deadline-s=170"],
              "thorough": ["--from=13", "--to=17", "--maxbound=2", "--timeout-ms=3000000", "--deadline-s=1200"]}},
],
    rule="one case = all programs of exactly K operations below one 3-operation prefix; operations: create "
         "(pending / resolved / rejected Promise<int>), then(h, {value, void, promise-returning with inner resolved / "
         "rejected / pending} x {IgnoreException, Throw, custom handler}), whenAll variadic / range and whenAny over "
         "1..comb handles (both argument orders), resolve / reject of any pending root or inner promise; a program is "
         "a linearisation, so all attach/settle orders are covered; every program runs on the real async.h templates "
         "and its multiset of (continuation, outcome) log entries is compared with a reference interpreter of the "
         "property text (undetermined promises - after a non-rethrowing handler - are not compared); executions = "
         "programs; non-trivial = programs in which at least one continuation must run; states = distinct outcome shapes",
    assumptions=COMMON_ASSUME + ["single-threaded programs (cross-thread settle/attach is C12)",
                                 "derived promises of void-returning continuations and of non-rethrowing rejection "
                                 "handlers are left open by the property and not compared"],
    bounds={"quick": "K=4, combinators over <=2 inputs", "thorough": "K=5, combinators over <=3 inputs (until the deadline)"})

prop("C13", [
    {"name": "c13_queue", "sources": ["c13_queue.cc"], "c_sources": ["common/vsched.c"], "flavour": "asan",
     "args": {"quick": ["--timeout-ms=40000", "--deadline-s=170"],
              "thorough": ["--thorough=1", "--timeout-ms=3000000", "--deadline-s=2400"]}},
    {"name": "c13_queue_tsan", "sources": ["c13_queue.cc"], "c_sources": ["common/vsched.c"], "flavour": "tsan",
     "args": {"quick": ["--timeout-ms=40000", "--deadline-s=170", "--last=12"],
              "thorough": ["--timeout-ms=3000000", "--deadline-s=1200"]}},
],
    rule="one case = (P producers x k pushes, preemption bound, shard): stateless DFS over all schedules of the "
         "hooked points in Queue::push/pop and PollableQueue::push/pop (atomic exchange, link store, tail read, "
         "eventfd write/read) with real threads under the cooperative scheduler, one consumer draining like "
         "Transport::handleWriteQueue; oracle per execution: popped multiset = pushed, per-producer FIFO, and "
         "deadlock (consumer blocked on a non-readable eventfd with producers finished) = missed wake-up / loss; the "
         "same schedules are repeated in a TSan build whose hand-offs are raw futex calls; states = nodes of the "
         "schedule tree, transitions = scheduling points executed, non-trivial = executions with >= 1 preemption",
    assumptions=COMMON_ASSUME + ["sequentially consistent interleavings at the hooked points; weak-memory reorderings "
                                 "are outside the model (plain-data races are still seen by the TSan pass)"],
    bounds={"quick": "1x1,1x2,2x1,2x2,3x1 with preemption bound 0..2; 1x1,1x2 unbounded",
            "thorough": "+ 1x3 pb3/unbounded, 2x1 unbounded, 2x2,3x1,2x3,3x2 pb3 (until the deadline)"})

prop("C12", [
    {"name": "c12_async", "sources": ["c12_async.cc"], "c_sources": ["common/vsched.c"], "flavour": "asan",
     "args": {"quick": ["--to=12", "--also-from=18", "--maxbound=2", "--timeout-ms=40000", "--deadline-s=170"],
              "thorough": ["--to=12", "--also-from=18", "--thorough=1", "--maxbound=3", "--timeout-ms=3000000", "--deadline-s=2400"]}},
    {"name": "c12_async_tsan", "sources": ["c12_async.cc"], "c_sources": ["common/vsched.c"], "flavour": "tsan",
     "args": {"quick": ["--to=12", "--also-from=18", "--maxbound=1", "--timeout-ms=40000", "--deadline-s=170"],
              "thorough": ["--to=12", "--also-from=18", "--maxbound=2", "--timeout-ms=3000000", "--deadline-s=1200"]}},
],
    rule="one case = (scenario, preemption bound): two or three real threads on real Async::Promise objects - "
         "{resolve || then}, {resolve || then;then}, {reject || then}, {settle p || then on a promise derived from p by "
         "a value-returning / promise-returning / rethrowing continuation, created before or inside the race, one or "
         "two levels deep}, {resolve || then || then} - gated at the async.h hook points (lock acquisition, state "
         "load/store, continuation-list append/walk, construct); stateless DFS over all schedules within the bound; "
         "oracle: every continuation ran exactly once with the settled outcome, no exception, no deadlock; the same "
         "schedules in a TSan build (raw-futex hand-off) must raise no race report; states = nodes of the schedule "
         "tree; non-trivial = executions with >= 1 preemption",
    assumptions=COMMON_ASSUME + ["sequentially consistent interleavings at the hooked points"],
    bounds={"quick": "9 scenarios, preemption bound 0..2 (TSan pass: 0..1)",
            "thorough": "bound 0..3, and every schedule (unbounded) for the 2-thread scenarios (until the deadline)"})

prop("C19", [
    {"name": "c19_address", "sources": ["c19_address.cc"], "flavour": "asan",
     "args": {"quick": ["--timeout-ms=60000", "--deadline-s=170"],
              "thorough": ["--thorough=1", "--tab-log2=24", "--timeout-ms=600000", "--deadline-s=1500"]}},
],
    rule="one case = a block of inputs of one section: all dotted quads over 12 boundary octets x port texts; "
         "127.0.0.1 and [::1] x every port 0..65535 and out-of-range / garbled port texts through all constructors "
         "and Port(std::string); every port x 3 hosts once more while the process-wide C++ locale groups digits (two numpunct facets); dot-joined part forms; IPv6 texts with every '::' position over groups {0,1,ffff}, "
         "dotted-quad tails, ~200 curated texts and all their single-character edits; every string of length <= 7 "
         "over '[ ] : 1 . a' (bracket/colon clutter); Address(Ipv6(g0..g7), Port); each evaluated on the real "
         "Address / AddressParser / Port against an independent RFC 4291 / dotted-quad / port reader (inet_pton as "
         "second opinion): host, port (80 when absent), family, print->parse round trip, invalid_argument for the "
         "must-reject set; non-trivial = inputs that are not plain valid literals",
    assumptions=COMMON_ASSUME + ["getaddrinfo is interposed to add AI_NUMERICHOST (no DNS in the sandbox); forms the "
                                 "resolver accepts beyond strict literals (127.1, leading blanks/sign in ports) are "
                                 "not in the must-reject set"],
    bounds={"quick": "sections as listed (1.46 M inputs)", "thorough": "clutter length 8, parts 6, more group values (10.7 M inputs)"})

prop("C20", [
    {"name": "c20_base64", "sources": ["c20_base64.cc"], "flavour": "asan",
     "args": {"quick": ["--timeout-ms=60000", "--deadline-s=170"],
              "thorough": ["--thorough=1", "--tab-log2=24", "--timeout-ms=600000", "--deadline-s=1500"]}},
],
    rule="one case = a block of inputs: every byte string of length 0..3 (all 16.8 M triples), length 3..4 over 16 boundary bytes, "
         "every 4-character text over the 64 alphabet characters, '=' and '!' (19.0 M) through the decoder against the strict reference, "
         "b^n for all 256 b and lengths 0..300 plus rolling patterns (encode = own RFC 4648 encoder, decode(encode(x)) "
         "= x); 10 829 user names x 17 passwords through Authorization::setBasicUserPassword / getBasicUser / "
         "getBasicPassword; every string of length <= 6 over {A,b,9,+,/,=,!,0x80} and damaged valid encodings through "
         "the decoder (twice: same result) with the text in a heap string whose bytes after the terminator are "
         "poisoned; non-trivial = inputs other than the empty string",
    assumptions=COMMON_ASSUME + ["decoder leniencies that do not touch memory outside the input (leading-run decoding, "
                                 "non-zero pad bits) are recorded as outcomes, not violations"],
    bounds={"quick": "all byte strings <= 3, all 4-character texts over 66 symbols, lengths 0..300, invalid strings <= 6", "thorough": "lengths 0..1200, invalid strings <= 7"})

prop("C16", [
    {"name": "c16_headers", "sources": ["c16_headers.cc"], "flavour": "asan",
     "args": {"quick": ["--timeout-ms=60000", "--deadline-s=170"],
              "thorough": ["--thorough=1", "--timeout-ms=600000", "--deadline-s=1500"]}},
],
    rule="one case = a block of values of one header section: Cache-Control directive lists (<=3, thorough <=4, "
         "deltas incl. 0), Connection / Content-Encoding / Transfer-Encoding / Expect values, Content-Length "
         "(0..9999, 10^k+-1, 2^k+-1 up to 2^64-1), Content-Type from built MediaTypes, Authorization, Date (every "
         "second of chosen days + every day 1700..2099), Host (names / IPv4 / bracketed IPv6 x ports), text headers; "
         "oracle parse(write(h)) == h by accessors and write again gives identical text; lookup section: every "
         "registered name under all capitalisations (all 2^n for short names, 1- and 2-letter flips otherwise) "
         "through the real request / response parsers with tryGet / tryGetRaw / has, duplicates (first wins), "
         "unregistered names and value bytes; non-trivial = values other than the simplest of each section",
    assumptions=COMMON_ASSUME + ["Allow (no-op reader) and Accept (empty writer) have no round trip and are covered by "
                                 "lookup only; Server tokens compare as joined text; Host port 0 reads back as 80"],
    bounds={"quick": "1.2 M evaluations", "thorough": "7.2 M evaluations"})

prop("C17", [
    {"name": "c17_cookies", "sources": ["c17_cookies.cc"], "flavour": "asan",
     "args": {"quick": ["--timeout-ms=60000", "--deadline-s=170"],
              "thorough": ["--thorough=1", "--timeout-ms=600000", "--deadline-s=1500"]}},
],
    rule="one case = a block of cookies: names/values over cookie-octet samples x all 2^6 attribute subsets x Max-Age "
         "{0,1,2^31-1} x Expires dates x 0..2 extension attributes (incl. names starting with a known attribute "
         "name): fromRaw(write(c)) == c field by field on exact-size heap buffers; hand-ordered attribute "
         "permutations; Cookie headers with n<=4 pairs (repeated names, with / without spaces) into a jar directly "
         "and through the request parser: jar = exactly the listed pairs, pre- and post-increment iteration visit "
         "each stored cookie once; mutated strings (suffixes over the C03 alphabet): exception, never a sanitizer "
         "report; non-trivial = cookies with at least one attribute or mutated text",
    assumptions=COMMON_ASSUME,
    bounds={"quick": "436 K evaluations (mutation suffix <= 4)", "thorough": "52 M evaluations (suffix <= 6)"})

prop("C18", [
    {"name": "c18_mime", "sources": ["c18_mime.cc"], "flavour": "asan",
     "args": {"quick": ["--timeout-ms=60000", "--deadline-s=170"],
              "thorough": ["--thorough=1", "--timeout-ms=900000", "--deadline-s=1800"]}},
],
    rule="one case = a block of media-type texts: all (type x subtype x suffix) from the tables + vendor / extension "
         "subtypes and suffixes (incl. names starting with a known one) x q in {none, 0, 0.01..1.00 and alternative "
         "spellings} x 0..2 parameters x letter case; fromRaw on exact-size heap buffers and inside a larger buffer "
         "with every following-byte class right after the given length (result must not depend on it); oracle: "
         "top/sub/suffix/q/params equal the built ones, toString() == input; built objects written and parsed back; "
         "mutated strings <= 5 (thorough 7) over {t,/,*,+,;,=,q,.,0,9,SP,NUL}: HttpError 415 or a parse the strict "
         "reference also allows, no other exception type, no read at or beyond str+len",
    assumptions=COMMON_ASSUME + ["texts a strict RFC 7231 recogniser refuses but pistache accepts leniently (e.g. '/' "
                                 "inside an extension subtype) are recorded as an outcome class, not violations"],
    bounds={"quick": "468 K evaluations", "thorough": "48 M evaluations"})

prop("C06", [
    {"name": "c06_writes", "sources": ["c06_writes.cc"], "flavour": "asan",
     "args": {"quick": ["--mode=c06", "--D=2", "--timeout-ms=120000", "--deadline-s=170"],
              "thorough": ["--mode=c06", "--D=3", "--thorough=1", "--timeout-ms=1200000", "--deadline-s=2400"]}},
    {"name": "c06_deep", "sources": ["c06_writes.cc"], "flavour": "asan",
     "args": {"quick": ["--mode=c06", "--deep=1", "--D=4", "--timeout-ms=120000", "--deadline-s=170"],
              "thorough": ["--mode=c06", "--deep=1", "--D=5", "--timeout-ms=1200000", "--deadline-s=1200"]}},
],
    rule="one case = (write list, issue schedule): 1..3 writes per connection, each a memory buffer {1,2,5,4097 bytes} "
         "or a file {1,5,70000 bytes}, each issued after 0..2 event-loop steps; for every such case ALL plans of "
         "socket answers with at most D non-default entries over the first 8 send/sendfile calls (accept 1 / half / "
         "all-but-one byte, or would-block held for 0..2 further steps and then released through a real epoll "
         "re-arm), with and without client input arriving while blocked; executed on the real Tcp::Transport + "
         "reactor stepped single-threaded over a socketpair; oracle: peer stream = concatenation in issue order, each "
         "promise settled exactly once, fulfilled with the full byte count and not before its last byte was accepted, "
         "no busy-wait; a second part goes deeper on single writes: all plans with <= 4 (thorough 5) deviations over the "
         "reduced answer alphabet {accept 1, accept half, would-block} (a write interrupted several times); "
         "executions = (case x plan) runs; non-trivial = runs in which a non-default answer was hit",
    assumptions=COMMON_ASSUME + ["writes are issued from the event-loop thread in this harness; the cross-thread hand-over "
                                 "through the PollableQueue is covered by C13 and, end to end, by C09"],
    bounds={"quick": "D=2 (1 057 plans) x 585 (write list, schedule) cases", "thorough": "D=3 x extended triples (until the deadline)"})

prop("C07", [
    {"name": "c07_stall", "sources": ["c06_writes.cc"], "flavour": "asan",
     "args": {"quick": ["--mode=c07", "--timeout-ms=60000", "--deadline-s=170"],
              "thorough": ["--mode=c07", "--thorough=1", "--timeout-ms=60000", "--deadline-s=900"]}},
    {"name": "c07_blockplans", "sources": ["c06_writes.cc"], "flavour": "asan",
     "args": {"quick": ["--mode=c06", "--D=1", "--busywait=1", "--last=120", "--timeout-ms=120000", "--deadline-s=170"],
              "thorough": ["--mode=c06", "--D=2", "--busywait=1", "--timeout-ms=600000", "--deadline-s=1200"]}},
    # stalls measured in (virtual) time against the idle time-out, on a real endpoint
    {"name": "c07_idle", "sources": ["c07_idle.cc"], "c_sources": ["common/netgate.c"], "flavour": "asan",
     "args": {"quick": ["--max-stall=5", "--timeout-ms=120000", "--deadline-s=170"],
              "thorough": ["--max-stall=8", "--timeout-ms=600000", "--deadline-s=900"]}},
],
    rule="one case = (pending writes 1..3 on connection A, A's socket answers would-block at write call i in 0..4, "
         "released after d in 1..4 event-loop steps, a request on connection B of the same worker arriving at step j "
         "in 0..6 whole or in two reads, kernel event order A-first / B-first, with / without a third connection that "
         "goes away in the very batch in which A becomes writable again): all 6720 combinations on the real "
         "transport + Http::Handler stepped single-threaded; oracle: B's response complete within 4 (5) loop steps of "
         "its arrival, never >= 3 consecutive would-block answers without returning to epoll_wait (busy-wait), after "
         "release all of A's bytes arrive in order and A's promises are fulfilled once; second part re-runs the C06 "
         "single-deviation plans for the busy-wait verdict; non-trivial = every combination (all stall A)",
    assumptions=COMMON_ASSUME + ["'bounded time' is measured in event-loop steps, not wall time"],
    bounds={"quick": "grid 3x5x4x7x2x2x2 plus the file-body, vanished-connection and second-stall variants; C06 plans with <=1 deviation for the first 120 write lists",
            "thorough": "grid 4x7x6x10x2x2x2 plus the variants; all C06 plans with <=2 deviations"})

prop("C08", [
    {"name": "c08_lifecycle", "sources": ["c08_lifecycle.cc"], "c_sources": ["common/netgate.c"], "flavour": "asan",
     "args": {"quick": ["--d1=5", "--d2=4", "--timeout-ms=120000", "--deadline-s=170"],
              "thorough": ["--d1=7", "--d2=6", "--faults=0", "--timeout-ms=600000", "--deadline-s=2400"]}},
    {"name": "c08_faults", "sources": ["c08_lifecycle.cc"], "c_sources": ["common/netgate.c"], "flavour": "asan",
     "args": {"quick": ["--d1=5", "--d2=0", "--faults=1", "--tick=1000", "--timeout-ms=120000", "--deadline-s=170"],
              "thorough": ["--d1=7", "--d2=0", "--faults=1", "--tick=1000", "--timeout-ms=600000", "--deadline-s=1500"]}},
    {"name": "c08_handler_timeouts", "sources": ["c08_lifecycle.cc"], "c_sources": ["common/netgate.c"], "flavour": "asan",
     "args": {"quick": ["--handler-timeout-ms=1200", "--d1=4", "--d2=0", "--timeout-ms=120000", "--deadline-s=170"],
              "thorough": ["--handler-timeout-ms=1200", "--d1=6", "--d2=4", "--timeout-ms=600000", "--deadline-s=1500"]}},
    {"name": "c08_parked", "sources": ["c08_lifecycle.cc"], "c_sources": ["common/netgate.c"], "flavour": "asan",
     "args": {"quick": ["--park=1", "--handler-timeout-ms=1200", "--d1=4", "--d2=0", "--timeout-ms=120000", "--deadline-s=170"],
              "thorough": ["--park=1", "--handler-timeout-ms=1200", "--d1=6", "--d2=4", "--timeout-ms=600000", "--deadline-s=1500"]}},
    {"name": "c08_files", "sources": ["c08_lifecycle.cc"], "c_sources": ["common/netgate.c"], "flavour": "asan",
     "args": {"quick": ["--files=1", "--d1=5", "--d2=0", "--faults=1", "--tick=1000", "--timeout-ms=120000", "--deadline-s=170"],
              "thorough": ["--files=1", "--d1=6", "--d2=4", "--faults=1", "--tick=1000", "--timeout-ms=600000", "--deadline-s=1500"]}},
],
    rule="one case = a block of 16 client-event histories; history alphabet per connection: connect, send first half "
         "of a request, send the rest, send a whole request, read, close, shutdown(WR), abortive close (RST), the "
         "composites send+close / send+shutdown / send+RST with no server step in between (data and FIN in one wake-up), plus "
         "tick(+500 ms) (thorough second part: + hold / release of the server's writes on that connection; files part: "
         "every response is a file sent with Http::serveFile and hold stalls only sendfile(), so a file body is left "
         "waiting while the client goes away; handler-time-outs part: the handler arms ResponseWriter::timeoutAfter "
         "(1.2 s) before it answers); all "
         "histories up to depth d1 on one connection and d2 on two connections (second connection only after the "
         "first: symmetry), each followed by 'all clients close, 6 ticks, run loops dry'; executed on a real "
         "Http::Endpoint (acceptor + 1 worker gated at epoll_wait, virtual time, header/body time-outs 1 s / 2 s) "
         "with real loopback TCP clients; after every history a fresh connection must be served its own response and a "
         "further fresh connection that stays silent must be answered 408, closed and told to the handler by the idle "
         "time-out; oracle per history as in the harness header; states = distinct (history, "
         "accepted, descriptor delta); transitions = event-loop steps granted",
    assumptions=COMMON_ASSUME + ["real loopback TCP: after each client action the harness waits (bounded) for the "
                                 "kernel to make a loop ready; a late kernel effect would show as harness nondeterminism, "
                                 "not as a verdict"],
    bounds={"quick": "depth 5 (1 connection), 4 (2 connections); with write faults, and with file responses and write faults: depth 5 on one connection",
            "thorough": "depth 7 / 6, depth 7 with write faults, file responses with write faults depth 6 / 4"})

prop("C14", [
    {"name": "c14_limits", "sources": ["c14_limits.cc"], "c_sources": ["common/netgate.c"], "flavour": "asan",
     "args": {"quick": ["--timeout-ms=170000", "--deadline-s=170"],
              "thorough": ["--thorough=1", "--timeout-ms=1200000", "--deadline-s=1800"]}},
],
    rule="size: one case = (limit 64/200, total size limit-1 / limit / limit+1, header-only or Content-Length body); "
         "the request is delivered in every split into <=2 reads (and every split into 3 reads for limit 64; thorough: "
         "also for 200), each on a fresh connection to a real Http::Endpoint; over the limit => handler never runs and "
         "413, within => served and never 413. time: one case = (header,body) time-out pair x stall point (after "
         "connect, inside request line, inside headers, after headers, inside body) x stall {T-500, T, T+500, T+1000 ms} "
         "x scan phase {0,250 ms} x {completion after the last clock step, completion in the same wake-up as it} under "
         "virtual time in 250 ms ticks, time-out pairs with whole and fractional seconds; stall <= T => 200 and never a 408 at or before "
         "T; stall >= T+500 ms => 408, handler not run, connection closed; the same grid for later requests of a "
         "keep-alive connection whose earlier requests were each served 750 ms into their own clock (second after a POST with "
         "a body / a bodyless GET / a chunked POST, third after GET + POST; thorough: fourth). time2: two connections on the one worker, "
         "each stalled at its own point (quick: after connect / inside headers / inside body; thorough: all five), the "
         "second opened 0/250/500 ms after the first, 3 time-out pairs: each connection gets its 408 within one scan "
         "period (500 ms) after its own applicable time-out counted from its own start and never earlier; executions = "
         "connections served / two-connection runs; non-trivial = multi-read deliveries and all time cases",
    assumptions=COMMON_ASSUME + ["time is virtual (clock_gettime / timerfd interposed); the 500 ms idle scan of the "
                                 "endpoint is driven by the virtual clock", "the first to third (thorough: fourth) request of a connection are timed (start of the "
                                 "first = accept, start of a later one = completion of its predecessor, per the property's anchor)"],
    bounds={"quick": "as listed (3-read splits for limit 64 only)", "thorough": "3-read splits for both limits"})

prop("C09", [
    {"name": "c09_mt", "sources": ["c09_mt.cc"], "c_sources": ["common/netgate.c"], "flavour": "asan",
     "args": {"quick": ["--timeout-ms=170000", "--deadline-s=170"],
              "thorough": ["--thorough=1", "--timeout-ms=2400000", "--deadline-s=2400"]}},
    {"name": "c09_mt_tsan", "sources": ["c09_mt.cc"], "c_sources": ["common/netgate.c"], "flavour": "tsan",
     "args": {"quick": ["--timeout-ms=170000", "--deadline-s=170", "--last=15"],
              "thorough": ["--thorough=1", "--timeout-ms=2400000", "--deadline-s=1800"]}},
],
    rule="one case = a scenario (w workers sharing one Rest::Router, c keep-alive clients x r tagged requests mixing "
         "GET/POST/PUT routes and a DELETE that hits no method table, deviation bound D): DFS over all orders of "
         "{acceptor step, worker_i step, client_j next action} with <= D deviations from the default 'run the loops "
         "dry, then the next client acts' on a real Http::Endpoint whose threads are gated at epoll_wait; scenarios "
         "marked shutdown additionally issue shutdown() before every point of every explored schedule and require all "
         "framework threads to terminate; lock-granular scenarios (w=1 c=2, w=2 c=3) additionally make acceptor and "
         "workers yield before every mutex acquisition (interposed pthread_mutex_lock); one scenario lets the first two "
         "accept4 calls fail with EMFILE; one start-up scenario parks the endpoint's threads before their first instruction "
         "and schedules their beginning like any other step; two scenarios let every handler answer from a thread of its "
         "own, scheduled like the framework's threads; two split-reply scenarios answer in two raw transport writes (event-loop "
         "thread, then a handler thread through the mailbox) on a connection that blocks after one write, with scheduling "
         "points before every lock and every epoll_ctl and the last-run thread continuing for free; oracle: each request exactly one response with its own tag/method/body, 405 "
         "with the exact Allow set, no busy-wait; TSan build (raw-futex gate) must report no data race; states = nodes "
         "of the schedule tree; transitions = event-loop steps granted",
    assumptions=COMMON_ASSUME + ["interleaving granularity = one epoll_wait batch per thread, and one critical-section-to-"
                                 "next-lock stretch in the lock-granular scenarios (the TSan pass sees no happens-before "
                                 "from the gate itself)"],
    bounds={"quick": "w<=3, c<=3, r<=2, D<=1; shutdown at every prefix of the default schedules",
            "thorough": "D<=2, shutdown at every prefix of the 1-deviation schedules"})

prop("C15", [
    {"name": "c15_client", "sources": ["c15_client.cc"], "c_sources": ["common/netgate.c"], "flavour": "asan",
     "args": {"quick": ["--D=1", "--timeout-ms=170000", "--deadline-s=170"],
              "thorough": ["--thorough=1", "--D=2", "--timeout-ms=2400000", "--deadline-s=2400"]}},
    # the per-host ring of waiting requests, instantiated with small capacities: every enqueue/dequeue sequence
    {"name": "c15_reqqueue", "sources": ["c15_reqqueue.cc"], "flavour": "asan", "link_lib": False,
     "args": {"quick": ["--len=16", "--timeout-ms=60000", "--deadline-s=120"],
              "thorough": ["--len=20", "--timeout-ms=600000", "--deadline-s=900"]}},
],
    rule="one case = a scenario (client threads 1..2, maxConnectionsPerHost 1..2, batch of n<=3 (thorough 4) tagged "
         "requests, per-request server behaviour in {whole, two pieces, chunked, whole-then-close} - all vectors for "
         "n<=2, a third of them for larger n - plus time-out scenarios: first request with a 1 s time-out never "
         "answered / answered late / dropped by the server, which goes on serving the connection; time-out on the first "
         "or on every request; an answer followed by a connection reset at each position): DFS with <= D deviations over the orders of {client reactor_k step, issue next "
         "request, server accept, server read, server answer piece, tick(+500 ms)} with a real "
         "Experimental::Client whose reactor threads are gated at epoll_wait and a scripted loopback server; oracle "
         "per execution: every promise settled at most once, fulfilled only with the response carrying its own tag, "
         "answered requests fulfilled by quiescence, unanswered request with an expired time-out rejected, peak of "
         "simultaneously open server-side connections <= limit, no request left in the client's queue while a connection "
         "to that host is idle, no reactor thread blocked before a held mutex at quiescence; states = nodes of the "
         "schedule tree",
    assumptions=COMMON_ASSUME + ["in the ordinary scenarios requests are issued from the harness thread while the reactor "
                                 "threads are parked (an issue is atomic w.r.t. reactor steps); the 'fine-grained issue' "
                                 "scenarios issue from gated threads that also park before every mutex acquisition, which "
                                 "is the granularity at which the pool/queue hand-over is explored"],
    bounds={"quick": "n<=3, D<=1 (late-answer scenarios D<=2)", "thorough": "n<=4, D<=2 (until the deadline)"})

# ---- additions made after the rules above were written (appended to the rule text of the evidence files) -------------
_EXTRA_RULE = {
    "C02": "Added: request cookies that carry attributes; file responses (serveFile: sizes x name extensions x header / cookie "
           "sets, all writes accepted or one short / would-block write) parsed back by the real ResponseParser; integers at "
           "the digit-count boundaries of both signs in stream programs.",
    "C03": "Added: the target / query modes' alphabet also has & ? / % #; (E) streamed bodies: head + pieces of 1..4000 bytes "
           "(Content-Length and chunked, request and response) until 3 x the limit has been delivered - refused by the time the "
           "limit is exceeded, retained bytes <= 2 x limit; part c03_server: the request-side inputs of (A), (C), (D) delivered "
           "to one connection of a real Http::Handler + Tcp::Transport (one read / split at the seams / byte by byte) while a "
           "bystander connection of the same worker is in mid-request - answers are well-formed 4xx/5xx (or 200 per handler run) "
           "or the connection is left waiting, the bystander gets exactly its own 200, no exception leaves the loop, the "
           "offender's state is gone after it hangs up.",
    "C04": "Added: a response event whose Content-Length does not fit (range error in the reader); server side, every pair "
           "(predecessor padded to exactly the 4096-byte read size ++ successor in the same write): handler requests and "
           "statuses must equal those of the two messages each alone on a fresh connection.",
    "C05": "Added: (F) file responses through Http::serveFile: file sizes {0,1,5,4096,70000} x name extensions x header / "
           "cookie sets x every plan of socket answers with <= 1 (thorough 2) non-default answers among the first 4 write "
           "calls, and limits around the head's exact size; request cookies with attributes; integers at digit-count boundaries.",
    "C06": "Added: every other raw write is a buffer object holding more bytes than its length says (slack behind the length).",
    "C07": "Added: part c07_idle - real gated endpoint under virtual time (time-outs 1 s / 2 s): A's response (small / 70000 "
           "bytes) blocked for k = 0..5 (8) half-seconds, A sends half a further request at tick i or never, B's request at "
           "tick j or never; B answered in the step its request arrives; after release A receives its complete response first "
           "(a 408 and the close may follow), a completed further request is answered.",
    "C08": "Added: environment fault 'the server's next read fails with ETIMEDOUT and nothing more comes from that peer'; part "
           "c08_parked: the handler keeps the ResponseWriter on the heap with a 1.2 s response time-out armed and never "
           "answers; the application drops the kept responses at the end of the history, then descriptors are compared.",
    "C09": "Added: slow-acceptor cases - an acceptor parked before one of its lock acquisitions (in the middle of handing a "
           "connection over) comes last in the canonical order, one deviation lets it finish at any earlier point.",
    "C11": "Added: ownership family - src.then(f, Throw).then(g, h) for int and void sources x f returning value / nothing / "
           "fulfilled / rejected / pending promise x source outcome x settled before/after x every subset of {source, derived1, "
           "derived2} kept by the caller x resolver kept / discarded; parts c11_combinators_mt(+tsan): whenAny / whenAll over "
           "two pending inputs settled by two threads, all schedules within the preemption bound under the C12 scheduler.",
    "C12": "Added: scenarios in which the derived promise (from a void or an int source, value- or promise-returning or "
           "rethrowing continuation) already carries a continuation when the race starts.",
    "C15": "Added: two-host scenarios (127.0.0.1 and 127.0.0.2 are two authorities of the one scripted server; one host "
           "saturated by a never-answered request with another waiting, either host first in issue order); part c15_reqqueue: "
           "the per-host ring of waiting requests (MPMCQueue) instantiated with capacity 2, 4, 8 - every enqueue/dequeue "
           "sequence of length 16 (thorough 20) against a bounded FIFO.",
    "C18": "Added: (T) API sequences on built media types: 4 carriers x every sequence of <= 4 operations over {toString, "
           "setQuality(0.5 / 1 / 0.05), setParam(charset), setParam(b), copy}; after every operation the string form parsed "
           "back must describe the object.",
}
for _k, _v in _EXTRA_RULE.items():
    PROPS[_k]["rule"] += " " + _v

_ROUND6_RULE = {
    "C02": "Round 6: a never-expires cookie (Max-Age=2147483647) in the response cookie sets.",
    "C03": "Round 6: numeric family also varies the size line of a LATER chunk (after 5 / 300 body bytes) with negative and "
           "wrapping values (-2, -3, -5, -12c and their 64-bit two's complements), parser and server level.",
    "C05": "Round 6: a quarter of the stream programs run with a handler-set Transfer-Encoding: gzip - the reference reader takes "
           "all Transfer-Encoding lines as one list whose final coding must be chunked (once); never-expires cookie; responses of 999 / 1000 / 1024 / 2048 bytes and a quarter of the stream programs under "
           "two digit-grouping process-wide C++ locales.",
    "C06": "Round 6: chained writes - for every two-write list and every answer plan the second write is issued, and the transport "
           "flushed, by the completion of the first.",
    "C07": "Round 6: stall-grid variant - while A is blocked, 1-2 further writes for A and B's answer are put into the worker's "
           "write queue from outside the loop and the loop thread then calls flush(); B's answer must go out within the step limit.",
    "C08": "Round 6: composite client events connect+rst / connect+close (the connection dies in the listen backlog before accept4); "
           "c08_parked: event 'the application answers the kept responses from its own thread' (time-outs disarmed off the worker).",
    "C11": "Round 6: payload family - Promise<std::string> / Promise<std::vector<int>> (value beyond the small-string buffer), 0..2 "
           "continuations before and 1..2 after the fulfilment (by value / const reference; returning value / nothing / promise), "
           "optionally an all-of formed afterwards: 1680 programs per type, every continuation sees the produced value once.",
    "C12": "Round 6: the derived promise of a promise-returning continuation carries two continuations (its list is exactly full) "
           "when the inner promise is fulfilled / rejected || a third then().",
    "C14": "Round 6: two stalls in one request (250-750 ms before / inside the head, then after the head / inside the body), judged "
           "by the body time-out from the request's start; first to third (fourth) request of a connection.",
    "C15": "Round 6: every cut position of a plain and a chunked response (two requests over one keep-alive connection); requests "
           "with the method HEAD and the server behaviour 'not HTTP'; 2-3 consecutive never-answered / dropped requests with "
           "time-outs on one connection object (limit 1); the connection count is the client's (a connection whose FIN / RST has "
           "reached the server no longer counts).",
    "C17": "Round 6: every token character at the start / end / middle / as the whole of a cookie name, at each of three positions "
           "of a Cookie header, directly and through the request parser.",
    "C18": "Round 6: quality numerals with 1..40 fraction digits x 6 digit patterns x 3 carriers x 3 tails: accepted, q to the "
           "hundredth, following parameter kept.",
}
for _k, _v in _ROUND6_RULE.items():
    PROPS[_k]["rule"] += " " + _v
