#!/usr/bin/env python3
"""Regenerates /verif/MANIFEST.json from lib/props.py + lib/manifest_texts.py."""
import json, os, subprocess, sys
HERE = os.path.dirname(os.path.dirname(os.path.abspath(__file__)))
sys.path.insert(0, os.path.join(HERE, "lib"))
from props import PROPS  # noqa
from manifest_texts import TEXTS, NOT_APPLICABLE  # noqa

all_ids = [json.loads(l)["id"] for l in open(os.path.join(HERE, "properties.jsonl"))]
hook_commits = []
try:
    out = subprocess.run(["git", "-C", "/repo", "log", "--format=%h %s"], capture_output=True, text=True).stdout
    hook_commits = [l.split()[0] for l in out.splitlines() if "PISTACHE_VERIF" in l or l.split(" ", 1)[1].startswith("hooks:")]
except Exception:
    pass

checks = []
for pid in all_ids:
    if pid not in PROPS or pid not in TEXTS:
        continue
    t = TEXTS[pid]
    c = {
        "property_id": pid,
        "quick_cmd": "python3 check.py %s --tier quick" % pid,
        "thorough_cmd": "python3 check.py %s --tier thorough" % pid,
        "evidence_file": "/verif/evidence/%s.json" % pid,
        "replay_cmd_template": "python3 check.py --replay {path}",
        "engine": t["engine"],
        "level_claimed": {"category": "model_checking", "text": t["level_text"], "design_ref": t["design_ref"]},
        "level_note": t["level_note"],
        "technique": t["technique"],
    }
    checks.append(c)

claimed = {c["property_id"] for c in checks}
na = [{"property_id": pid, "reason": NOT_APPLICABLE.get(pid, "check not built yet in this session; see DESIGN.md")}
      for pid in all_ids if pid not in claimed]

m = {
    "version": 1,
    "setup_cmd": "python3 check.py --setup",
    "hooks": {
        "guard": "PISTACHE_VERIF",
        "enable": "harness builds compile /repo sources with -DPISTACHE_VERIF (lib/build.py); the repository's own build never defines it",
        "baseline_off_cmd": "/verif/tools/repo_tests.sh",
        "source_commits": hook_commits,
        "add_only": True,
    },
    "engines": [
        {"name": "seqx", "path": "harness/ (c01..c05, c10, c11, c16..c20) + harness/common/runner.h",
         "serves_properties": [p for p in all_ids if p in claimed and TEXTS[p]["engine"] == "seqx"],
         "kind_free_text": "sequential explicit-state / bounded-exhaustive explorer executing the real pistache code "
                           "(ASan+UBSan build), fork-isolated sharded runner with per-case watchdog"},
        {"name": "vsched", "path": "harness/ (c06..c09, c12..c15) + harness/common/vsched.*",
         "serves_properties": [p for p in all_ids if p in claimed and TEXTS[p]["engine"] == "vsched"],
         "kind_free_text": "controlled scheduler over real threads (hook points / interposed libc calls) plus owned "
                           "environment (socket answers, virtual time), deviation-bounded DFS and BFS over event histories"},
    ],
    "checks": checks,
    "not_applicable": na,
    "notes": "All checks run the implementation itself; see DESIGN.md. known_findings.json lists repaired and recorded defects.",
}
json.dump(m, open(os.path.join(HERE, "MANIFEST.json"), "w"), indent=1)
print("MANIFEST.json: %d checks, %d not_applicable" % (len(checks), len(na)))
