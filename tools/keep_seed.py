#!/usr/bin/env python3
"""keep_seed.py <PROP> <n> <id> "<needs>" "<caught-by>" : store a confirmed seeded change under /verif/seeded/<id>/"""
import json, os, shutil, sys
prop, n, sid, needs, caught = sys.argv[1:6]
src = "/tmp/seed-out-%s/%s" % (prop, n)
dst = "/verif/seeded/%s" % sid
os.makedirs(dst, exist_ok=True)
for f in ("patch.diff", "demo.cc", "README.txt"):
    shutil.copy(os.path.join(src, f), os.path.join(dst, f))
log = open(os.path.join(src, "verify.log")).read() if os.path.exists(os.path.join(src, "verify.log")) else ""
ct = open(os.path.join(src, "ctest_with.txt")).read() if os.path.exists(os.path.join(src, "ctest_with.txt")) else ""
meta = {
    "id": sid, "breaks_property": prop, "needs_to_manifest": needs,
    "origin": "independent sub-agent given only the property text and a scratch worktree",
    "confirmed": {
        "suite_with_patch": "ctest in the scratch worktree with the patch applied: only net_test fails (as on the clean tree)" if "net_test" in ct and ct.count("(Failed)") == 1 else ct[-300:],
        "demo_with_patch_rc": 1 if "DEMO_WITH_RC=1" in log else log[-200:],
        "demo_without_patch_rc": 0 if "DEMO_WITHOUT_RC=0" in log else log[-200:],
        "ran": "tools/verify_seed.sh %s %s; tools/seed_check.sh seeded/%s/patch.diff <check>" % (prop, n, sid),
    },
    "detected_by": caught,
}
json.dump(meta, open(os.path.join(dst, "meta.json"), "w"), indent=1)
print("kept", dst)
