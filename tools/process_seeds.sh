#!/bin/bash
# process_seeds.sh <PROP>: verify both seeded changes of a round for one property (suite + demo with / without), then run the
# property's quick check against each; one summary line per change in /tmp/seed-out-<P>/summary.txt
P=$1; OUT=/tmp/seed-out-$P; : > $OUT/summary.txt
for n in 1 2; do
  [ -f $OUT/$n/patch.diff ] || continue
  bash /verif/tools/verify_seed.sh $P $n
  w=$(grep -o "DEMO_WITH_RC=[0-9]*" $OUT/$n/verify.log | tail -1); wo=$(grep -o "DEMO_WITHOUT_RC=[0-9]*" $OUT/$n/verify.log | tail -1)
  ct=$(grep -E "tests passed|\(Failed\)|Timeout|Exception" $OUT/$n/ctest_with.txt | tr '\n' ' ' | tr -s ' ')
  chk=$(SEED_TAIL=12 bash /verif/tools/seed_check.sh $OUT/$n/patch.diff ${CHECK_PROP:-$P} 2>&1 | grep -E "VIOLATION|PASS|FAIL|SEED-CHECK|KNOWN" | cut -c1-220 | tr '\n' '|')
  echo "$P/$n :: $w $wo :: $ct :: $chk" >> $OUT/summary.txt
done
echo "PROCESSED $P" >> $OUT/summary.txt
