#!/bin/bash
# Rebuild /repo/_build (guard OFF: the baseline build never defines PISTACHE_VERIF) and run the pinned
# suite; succeeds iff everything passes except the baseline's always-failing net_test::address_creation.
set -o pipefail
R=${1:-/repo}
cmake --build $R/_build -j16 2>&1 | tail -2 || exit 1
out=$(ctest --test-dir $R/_build -j8 --timeout 900 2>&1)
echo "$out" | tail -8
failed=$(echo "$out" | grep -E "^\s+[0-9]+ - " | awk '{print $3}' | sort | tr '\n' ' ')
if [ "$failed" != "net_test " ] && [ -n "$failed" ]; then echo "UNEXPECTED FAILURES: $failed"; exit 1; fi
nt=$($R/_build/tests/run_net_test 2>&1 | grep -E "^\[  FAILED  \]" | grep "net_test\." | sed "s, (.*,," | sort -u)
echo "net_test failing cases: $nt"
bad=$(echo "$nt" | grep -v "net_test.address_creation" | grep -c FAILED)
if [ "$bad" != "0" ]; then echo "UNEXPECTED net_test failures"; exit 1; fi
echo "REPO-TESTS-OK"
