#!/usr/bin/env python3
"""reverify_seeds.py [ids...]: apply every kept seeded change to a scratch worktree of /repo HEAD and run the check(s)
named in its meta.json; writes seeded/REVERIFY.json (id -> {patch_applies, caught_by, tried})."""
import glob, json, os, re, subprocess, sys, time
V = "/verif"
# usage: reverify_seeds.py [--shard k/n] [--merge] [ids...]
args = sys.argv[1:]
shard = (0, 1)
if args and args[0] == "--shard":
    k, n = args[1].split("/")
    shard = (int(k), int(n))
    args = args[2:]
final_path = os.path.join(V, "seeded", "REVERIFY.json")
if args and args[0] == "--merge":
    merged = json.load(open(final_path)) if os.path.exists(final_path) else {}
    for f in sorted(glob.glob(V + "/seeded/REVERIFY.part*.json")):
        merged.update(json.load(open(f)))
        os.unlink(f)
    json.dump(merged, open(final_path, "w"), indent=1, sort_keys=True)
    print("merged", len(merged), "entries; not caught:", [k for k, v in merged.items() if not v.get("caught_by")])
    sys.exit(0)
out_path = final_path if shard[1] == 1 else os.path.join(V, "seeded", "REVERIFY.part%d.json" % shard[0])
res = json.load(open(out_path)) if os.path.exists(out_path) else {}
done = json.load(open(final_path)) if os.path.exists(final_path) else {}
ids = args or sorted(os.path.basename(d) for d in glob.glob(V + "/seeded/*") if os.path.isdir(d))
ids = [x for i, x in enumerate(ids) if i % shard[1] == shard[0] and not (x in done and done[x].get("caught_by") and not args)]
head = subprocess.check_output(["git", "-C", "/repo", "rev-parse", "--short", "HEAD"], text=True).strip()
for sid in ids:
    d = os.path.join(V, "seeded", sid)
    meta = json.load(open(d + "/meta.json"))
    patch = d + "/patch.ported-to-head.diff" if os.path.exists(d + "/patch.ported-to-head.diff") else d + "/patch.diff"
    props = [meta["breaks_property"]] + [p for p in re.findall(r"\bC\d\d\b", meta.get("detected_by", "")) if p != meta["breaks_property"]]
    seen, order = set(), []
    for p in props:
        if p not in seen:
            seen.add(p); order.append(p)
    entry = {"head": head, "patch": os.path.basename(patch), "tried": [], "caught_by": None, "patch_applies": True}
    if str(meta.get("status", "")).startswith("obsolete"):
        # a change that a later repair of /repo has made harmless (see its meta.json): recorded, not expected to be caught
        entry["caught_by"] = "n/a (obsolete at this head: " + meta["status"][:60] + "...)"
        res[sid] = entry
        json.dump(res, open(out_path, "w"), indent=1, sort_keys=True)
        print(sid, "obsolete", flush=True)
        continue
    for p in order:
        t0 = time.time()
        r = subprocess.run([V + "/tools/seed_check.sh", patch, p], capture_output=True, text=True)
        txt = r.stdout + r.stderr
        if "patch does not apply" in txt:
            entry["patch_applies"] = False
            break
        sigs = sorted(set(re.findall(r"#\s*(\S+)", "\n".join(l for l in txt.splitlines() if l.startswith("VIOLATION")))))
        entry["tried"].append({"check": p, "rc": r.returncode, "signatures": sigs[:4], "wall_s": round(time.time() - t0)})
        if r.returncode == 1 and sigs:
            entry["caught_by"] = p
            break
    res[sid] = entry
    json.dump(res, open(out_path, "w"), indent=1, sort_keys=True)
    print(sid, "caught_by=%s" % entry["caught_by"], "applies=%s" % entry["patch_applies"], flush=True)
