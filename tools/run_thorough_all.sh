#!/bin/bash
# runs the thorough tier of the given properties one after the other; prints one summary line each
for p in "$@"; do
  s=$(date +%s); out=$(python3 check.py $p --tier thorough 2>&1 | tail -4); e=$(date +%s)
  echo "THOROUGH $p $((e-s))s :: $(echo "$out" | tail -1)"; echo "$out" | grep -E "VIOLATION|KNOWN|ERROR" | cut -c1-200
done
