#!/bin/bash
# seed_check.sh <patch.diff> <PROP> [tier]: run a check against /repo HEAD + patch in a scratch worktree
# (never touches /repo's working tree); prints the check's verdict lines. SEED_PART=<name> restricts the run to one part.
PATCH=$1; P=$2; TIER=${3:-quick}
WT=$(mktemp -d /tmp/chk-XXXXXX); rmdir $WT
git -C /repo worktree add -q --detach $WT HEAD || exit 2
if ! git -C $WT apply $PATCH; then echo "SEED-CHECK: patch does not apply to current HEAD"; git -C /repo worktree remove --force $WT; exit 3; fi
ED=$(mktemp -d /tmp/chk-ev-XXXXXX)
VERIF_REPO=$WT VERIF_EVIDENCE_DIR=$ED VERIF_REPLAY_DIR=$ED python3 /verif/check.py $P --tier $TIER ${SEED_PART:+--part $SEED_PART} 2>&1 | tail -${SEED_TAIL:-8}
rc=${PIPESTATUS[0]}
[ -n "$SEED_KEEP_REPLAYS" ] && { mkdir -p $SEED_KEEP_REPLAYS; cp -r $ED/. $SEED_KEEP_REPLAYS/; }
git -C /repo worktree remove --force $WT; rm -rf $ED
echo "SEED-CHECK rc=$rc"
exit $rc
