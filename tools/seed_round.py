#!/usr/bin/env python3
"""seed_round.py <PROP>...: prepare one round of independent seeding for the given properties: a scratch worktree
/tmp/seed-<P> of /repo's HEAD (with a configured build directory to be built by the sub-agent), the property text
/tmp/seed-<P>.property.txt and the prompt /tmp/seed-<P>.prompt.txt. The prompt carries ONLY the property text, the
worktree path and the list of ideas earlier rounds already used (ids and triggering conditions) - nothing about how
/verif checks anything."""
import glob, json, os, subprocess, sys
V = os.path.dirname(os.path.dirname(os.path.abspath(__file__)))
avoid = {}
for d in sorted(glob.glob(V + "/seeded/*")):
    if os.path.isdir(d):
        m = json.load(open(d + "/meta.json"))
        avoid.setdefault(m["breaks_property"], []).append(m["id"] + " (needs: " + m["needs_to_manifest"][:140] + ")")
props = {json.loads(l)["id"]: json.loads(l) for l in open(V + "/properties.jsonl")}
tmpl = open(V + "/tools/seed_prompt.tmpl").read()
for P in sys.argv[1:]:
    p = props[P]
    text = "Property %s: %s\n\nStatement: %s\n\nQuantified over: %s\n\nWhy the existing tests cannot settle it: %s\n" % (
        P, p["title"], p["statement"], p["quantifier"]["text"], p["why_tests_cant"])
    open("/tmp/seed-%s.property.txt" % P, "w").write(text)
    t = tmpl.replace("@WT@", "/tmp/seed-%s" % P).replace("@PROP@", "/tmp/seed-%s.property.txt" % P).replace("@TEXT@", text).replace("@OUT@", "/tmp/seed-out-%s" % P)
    if avoid.get(P):
        extra = ("\n\nEarlier rounds already produced the following seeded changes for this property; do NOT repeat these ideas or "
                 "close variants of them. Look for different code sites and different triggering conditions: other API entry points "
                 "of the same component, error paths, less common configurations (SSL is not built), interactions between two "
                 "features, state carried from one call to the next, behaviour at object construction / destruction / shutdown, "
                 "resource limits:\n" + "".join("  - %s\n" % a for a in avoid[P]))
        t = t.replace("\nHow to build and test in your worktree", extra + "\nHow to build and test in your worktree", 1)
    t = t.replace("Verify everything yourself:", "IMPORTANT: run the full ctest at least twice with each change applied; a change that makes any "
                  "existing test fail even once is not acceptable (listener_test's CloseOnExecTest may fail with 'Address already in use' on the "
                  "clean tree too when the machine is busy: that one flake is tolerated).\nVerify everything yourself:")
    open("/tmp/seed-%s.prompt.txt" % P, "w").write(t)
    subprocess.run("rm -rf /tmp/seed-out-%s /tmp/seed-%s; git -C /repo worktree prune; git -C /repo worktree add -q --detach /tmp/seed-%s HEAD" % (P, P, P), shell=True, check=True)
    print("prepared", P)
