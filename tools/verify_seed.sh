#!/bin/bash
# verify_seed.sh <PROP> <n>: confirm a sub-agent's seeded change in its own worktree:
#   patch applies, builds, the existing suite stays green, demo fails with / passes without the patch.
P=$1; N=$2; WT=/tmp/seed-$P; OUT=/tmp/seed-out-$P/$N; LOG=/tmp/seed-out-$P/$N/verify.log
exec > $LOG 2>&1
set -x
git -C $WT checkout -q -- . || exit 1
git -C $WT apply $OUT/patch.diff || { echo "VERIFY: patch does not apply"; exit 1; }
cmake --build $WT/_build -j6 2>&1 | tail -2
ctest --test-dir $WT/_build -j4 --timeout 900 2>&1 | tail -8 > $OUT/ctest_with.txt
cat $OUT/ctest_with.txt
LIB=$(ls $WT/_build/src/libpistache*.a | head -1)
g++ -std=c++17 -fno-access-control -I$WT/include -I$WT/_build/include -I$WT/subprojects/hinnant-date/include -I$WT/subprojects/cpp-httplib $OUT/demo.cc $LIB -pthread -o $OUT/demo_with 2>&1 | tail -5
timeout 120 $OUT/demo_with > $OUT/demo_with.out 2>&1; echo "DEMO_WITH_RC=$?"
git -C $WT checkout -q -- .
cmake --build $WT/_build -j6 2>&1 | tail -2
g++ -std=c++17 -fno-access-control -I$WT/include -I$WT/_build/include -I$WT/subprojects/hinnant-date/include -I$WT/subprojects/cpp-httplib $OUT/demo.cc $LIB -pthread -o $OUT/demo_without 2>&1 | tail -5
timeout 120 $OUT/demo_without > $OUT/demo_without.out 2>&1; echo "DEMO_WITHOUT_RC=$?"
rm -f $OUT/demo_with $OUT/demo_without
echo VERIFY-DONE
